#!/bin/bash
# ./keepmut.sh <mutation dir> <seeded id> "<caught by>" "<what I ran / note>"
M=$1; ID=$2; CAUGHT=$3; NOTE=$4
D=/verif/seeded/$ID; mkdir -p $D
cp $M/patch.diff $D/; cp $M/demo_test.go $D/ 2>/dev/null; cp $M/*.go $D/ 2>/dev/null
jq --arg c "$CAUGHT" --arg n "$NOTE" '. + {caught_by_quick_checks: $c, confirmed_by_me: "applied to /repo with git apply: builds, existing suite green (pkg/util/json test build failure is pre-existing), demo fails with the change and passes without it; ran /verif/evalmut.sh", note: $n}' $M/meta.json > $D/meta.json
echo kept $D
