#!/usr/bin/env python3
"""Rewrites section 7 of DESIGN.md from /verif/seeded/*/meta.json."""
import json, glob, re
rows=[]
for d in sorted(glob.glob('/verif/seeded/*/meta.json')):
    m=json.load(open(d)); name=d.split('/')[-2]
    def cell(s,n): 
        s=re.sub(r'\s+',' ',str(s)).replace('|','\\|'); return s if len(s)<=n else s[:n-1]+'…'
    rows.append("| `%s` | %s | %s | %s | %s |" % (name, m.get('property'), cell(m.get('summary',''),260), cell(m.get('needs_to_manifest',''),200), cell(m.get('caught_by_quick_checks','')+' — '+m.get('note',''),330)))
missed=[r for r in rows if 'MISSED' in r or 'missed at first' in r]
sec = """## 7. Seeded changes (independent sub-agents) and what catches them

Each change below was written by a fresh sub-agent that saw only the text of one property and its own scratch worktree of
/repo (nothing from /verif). I confirmed every one myself with `/verif/evalmut.sh`: `git apply` to /repo, `go build ./...`,
the complete existing suite stays green (the pre-existing test-build failure of `pkg/util/json` without `-tags testing`
aside), the agent's demonstration fails with the change and passes without it, then the *quick* tier of the target check
(and others where noted) was run against the changed tree and /repo restored. Kept under `/verif/seeded/<name>/`
(`patch.diff`, `demo_test.go`, `meta.json`). Round 1 asked for realistic changes needing something specific to manifest;
round 2 (names with `r2`) showed the agent the round-1 list and asked for different sites and narrower triggers;
round 3 (`r3`) showed both earlier lists and asked for indirect routes: shared helpers far from the anchored files, state
carried between calls, feature combinations, configuration-dependent paths; round 4 (`r4`) asked the agent to split the
statement into clauses, pick clauses no earlier change had attacked and break them the way maintenance does (memoisation keyed
by too little, pooling, early exits, refactorings, over-broad hardening, swapped decoders); round 5 (`r5`) gave the agent a catalogue of mistake classes from
studies of real Go code (slice aliasing, range / shadowing slips, integer conversions, byte vs rune, operator slips, switch
slips, nil vs empty, comparators, map order, early returns) and asked for classes not used before; round 6 (`r6`) asked for an inventory of the public routes to the behaviour
(constructors, options, modes, alternative entry points, optional members) and a mistake on a route an ordinary test is least likely to travel; round 7 (`r7`) asked for
changes outside the anchored files (helper packages, option plumbing) whose violation needs two independent ordinary conditions to coincide; round 8 (`r8`) asked the agent to imagine a model-based test harness
for the property and to hide the change in one of its likely blind spots (unmodelled result members, list order, Go / JSON types, echoed values, side effects on
arguments, long histories, operations after refused or degraded ones, permissive and restrictive configurations, second calls); round 9 (`r9`) asked for clean-up commits
("remove redundant check", "use the stdlib helper", "drop the defensive copy", "merge duplicate paths") where the removed code was not redundant after all; round 10 (`r10`) asked for
well-meant additions (caches and fast paths, tolerances and fall-backs, new options and supported values, extra limits, logging) that leave every existing check in place; round 11 (`r11`) asked for
modernisation / migration commits meant to change nothing (standard-library helpers for hand-written loops, other data types, another API of the same family, generics, reordered steps); round 12 (`r12`) asked for spec-alignment / interop
commits (somebody re-read an RFC, DID Core or the reference implementation and "fixed" the library to match a misread clause); round 13 (`r13`, one change each for twelve properties) asked for
error-handling and defaults commits ("skip bad entries instead of failing", "treat missing as empty", "log and continue"); round 14 (`r14`, four changes: C06, C09, C14, C20; a short round run in the last session to re-test independence: the agents got the bare statement and quantifier only, no earlier lists or angles) - all four were caught by the first run of their own quick check without any change to the harness; round 15 (`r15`: C04, C12, C16, C18; bare statement plus a request for multi-step sequences, two cooperating sites or rare-but-legal inputs) - again all four caught at first run (a commitment cache keyed without the RSA members, a replace value aliased into the working document plus an in-place key filter, short secp256k1 coordinates accepted, de-duplication of adjacent published operations only); round 16 (`r16`: C01, C07, C11, C17; same brief as round 15) - all four caught at first run (an empty document no longer copied before patching, so a later non-applicable patch leaves a partial document; the key re-use rule evaluated with the first configured algorithm only; a `from` pointer with text before the first `/` accepted on move; initial state compared as decoded bytes, letting line breaks and trailing bits through). Across rounds 14-16 twelve independent changes were tried against an unchanged harness and none was missed. One round-11 proposal for C18 was not kept (an Ed25519 JWK whose `x` is not 32 octets long: the unchanged tree pads or truncates it, the change refuses the document; the statement says nothing about
malformed key material, and refusing is the better answer). Two round-9 proposals for C20 were confirmed but not kept, because they
manifest only when two concurrent calls share an input object (one version list handed to several `verprovider.New` calls, documents sharing
the backing array of a relationship list) and the statement speaks of concurrent calls on distinct inputs; a trial version of the
check that shared such inputs also showed that the unchanged tree is not race-free then (a third-party BLS library normalises the
caller's key object in place while serializing it), which is outside the statement for the same reason. `/verif/regress_seeded.sh` re-applies every kept
change and re-runs the quick tier of its property, so a later edit of a check cannot silently lose one.

**%d changes kept; %d were missed at first and led to a stronger check** (all are caught now):

%s

What the misses had in common, and the general lesson applied across checks:

* *value classes missing from a generator* (large integers in C03, forbidden characters `[ \\\\ ] ^ \\`` in C13, boundary-length
  ids in C14, prefix-related member names in C19): generators now enumerate the complement of the allowed set / draw from
  the shared directed classes instead of a hand-picked sample;
* *an observation treated as "not demanded"* although the unchanged tree does enforce it (C06 non-canonical hash
  spellings): demanded now, because the statement ("succeeds exactly when the hash was computed from…") covers it;
* *freshly built component per case, result compared at once* (C18/C20 shared context slice): components are reused across
  cases and every retained result is verified again after later calls;
* *nothing was ever asked twice* (rounds 3-4: memos keyed by too little, pooled structs, caches filled before a check): the
  history runner re-applies operations to the same state, parsers see each request in both modes, one JWS / JWK object /
  decoder variable is used for two different things in a row, and related inputs (mirror point, relabelled curve, re-typed
  anchor origin, nonce-only successor) follow each other inside one process;
* *inputs built from Go values only* (swapped JSON decoders, UseNumber, duplicate members, trailing data): raw JSON text routes
  (re-spelled numbers and escapes, duplicate / case-variant member names, trailing bytes, white space) next to the value routes;
* *limits and ranges sampled in the comfortable middle* (sizes, lengths, times, codes): exact-limit configurations derived from
  the input itself, complete sweeps of small spaces (multihash codes, bytes after a backslash), whole-range integers
  (negative and zero times, 2^63 neighbours, lengths beyond 2^8 and 2^16), largest accepted documents;
* *only the shipped configuration* (four key types, one hash algorithm per chain, default validators): all five key types,
  algorithm migration inside a chain, hostile request-time validators, windows in every combination;
* *only the main entry point was asked* (round 6): the same question is now put by every public route - batch and non-batch
  parsing, ParseOperation, the anchored form, zero-value and constructed validators, delta validation under several
  configurations, appliers written as struct literals, NewJWS with its header and serialization options, re-spelled and
  type-less requests to the document handler;
* *blind spots of a model-based harness* (round 8): the anchoring envelope says something else than the request, configurations
  at both ends (nothing allowed; nonce sizes up to 128), documents with thousands of small containers, Go-typed values
  (string models, []string lists), results edited by the caller and asked for again, states transformed twice, bytes parsed
  only after everything else was serialized, operations listed as unpublished while they are applied, earlier operations anchored
  later, operations after a degraded recover, optional members added (not just replaced) by the corruption engine, and a
  first-use storm as the first case of every worker process;
* *a second layer that looked redundant was the only one that held* (round 9: clean-ups): the applier's own delta validation, the
  width checks next to an on-curve test, the defensive copy behind an accessor, the escape branch "the parser already refuses",
  the emptiness check "the constructors already make". Each constraint is now also asked through the route that skips the other
  layer: empty / null / misplaced value lists of every action as failure classes, non-text JWK members, whole-document JSON
  pointers, wrong-width keys against a genuine signature, accessor results overwritten by the caller, text with control and
  non-BMP characters wherever text is hashed, whole artefacts (not only their members) replaced by hostile values;
* *something remembered under a key that omits what matters* (round 10: additions - caches, pools, fast paths, tolerances): the
  answer to B depends on whether A was asked before. Monitors now ask in pairs inside one process: batch-mode look-up then
  request-time parse, in-window application then the same operation re-anchored outside its window, genuine key then the same
  coordinates with the boundary moved, a point then its mirror point, a text as also-known-as entry then as service endpoint, a
  transformation that fails half-way then an ordinary one, a buffer hashed, edited in place and hashed again, twin creates that
  differ in one optional member, 40 M same-length documents against anything keyed by a short digest, and a volume case that
  overflows any bounded memory while several goroutines use it;
* *the new construct differs from the old one in a corner* (round 11: modernisations): `Decoder.Decode` / `More` vs `Unmarshal`
  (trailing data), `binary.Uvarint` vs a strict varint reader, `unicode.IsControl` vs `< 0x20`, `%%q` vs JSON quoting,
  `slices.DeleteFunc` on the caller's list, `url.URL` values as map keys, a set where a list was counted, `TrimLeft` with a
  cutset, `time.Duration` arithmetic, `min`/`max` clamps, a digest picked by label instead of by curve. The generators now carry
  the corners themselves: signed payloads with data before / behind the object, every control character and DEL / C1 in hashed
  text, non-minimal varint headers, value lists with entries of another JSON type, URIs with every component, purposes with
  repeats beyond five, suffixes decorated with letters of the namespace, deltas of 2^34 s and more, also-known-as lists with a
  repeated URI, member names that are merely unusual, scheme-less endpoints, short coordinates with a line break in their
  text, curve names in another letter case against a genuine signature, stray members of other operation types in signed
  data, signers under another algorithm label;
* *a rule of another layer or of another document applied here* (round 12: spec alignments): URIs normalised, padding tolerated,
  members dropped or required because another specification or implementation says so. Inputs now deviate from the
  normalised form on purpose: endpoints with capitals in scheme and host, escaped reserved characters, lower-case hex and
  default ports; member names that mean something to JavaScript (`__proto__`, `constructor`) or look like array indexes
  (`007`); numbers beyond 2^53 in patch values and window bounds (exact digits); mantissas of more than 20 digits with an
  upper-case exponent sign; keys signed in the RFC 8037 spelling (no empty `y`) or with `kid` / `use`; namespaces of three and
  four segments; network segments in long-form DIDs; payloads that are JSON text but not canonical; points with a zero
  coordinate; signatures with one octet more; pointers in URI-fragment form; a top-level `controller`; key material under the
  names other suites use; a window length of zero in the shared applier; and a lock-up detector around every stress run;
* *an error that used to abort is swallowed* (round 13: leniency commits): the inputs that make exactly one sub-step fail are now
  generated on purpose - optional members of the wrong JSON type, patch-list entries without members, anchor-origin texts no URI
  parser takes, value members under names that merely resemble the right one, padded coordinate texts, relationship entries
  with the relationship left out;
* *a hang ended as "inconclusive"* (C20 recursive read lock): lock-ups of the registries are detected inside the case with the
  goroutine dump as witness, and a C20 case timeout is a violation.

| name | property | change | needs to manifest | caught by (quick tier) — note |
|---|---|---|---|---|
%s
""" % (len(rows), len(missed), "\n".join("* "+r.split('|')[1].strip()+" — "+r.split('|')[5].strip() for r in missed), "\n".join(rows))
p='/verif/DESIGN.md'
s=open(p).read()
i=s.find('## 7. Seeded changes')
if i>=0: s=s[:i]
s=s.rstrip()+"\n\n---------------------------------------------------------------------------------------------------\n\n"+sec if i<0 else s+sec
open(p,'w').write(s)
print("section 7 written:",len(rows),"rows")
