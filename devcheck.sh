#!/bin/bash
# ./devcheck.sh [-p patch.diff] <ID> [tier]  - development aid, not a registered check: runs one check against a scratch copy of
# /repo's HEAD (optionally with a patch applied) under /var/tmp/vdev, so that checks can be developed while /repo itself is
# occupied (evalmut / regress_seeded apply seeded changes to /repo). Never touches /repo, /verif/evidence or /verif/replays.
set -u
export GOFLAGS=-mod=mod GOPROXY=off GOSUMDB=off GOTOOLCHAIN=local
D=${VDEV:-/var/tmp/vdev}
patch=""
if [ "${1:-}" = "-p" ]; then patch=$(readlink -f "$2"); shift 2; fi
ID=$1; TIER=${2:-quick}
rm -rf $D/repo; mkdir -p $D/repo $D/v/work $D/v/evidence $D/v/replays
git -C /repo archive HEAD | tar -x -C $D/repo
if [ -n "$patch" ]; then (cd $D/repo && git init -q . 2>/dev/null; git apply "$patch") || { echo "patch does not apply"; exit 3; }; fi
cp /verif/KNOWN_FINDINGS.txt $D/v/KNOWN_FINDINGS.txt
sed "s|=> /repo|=> $D/repo|" /verif/harness/go.mod > $D/harness.mod
cp /verif/harness/go.sum $D/harness.sum
cd /verif/harness
go build -modfile=$D/harness.mod -tags verif -o $D/verif ./cmd/verif || exit 2
export VERIF_DIR=$D/v VERIF_BIN=$D/verif
case "$ID:$TIER" in C20:*|C19:thorough)
  go build -race -modfile=$D/harness.mod -tags verif -o $D/verif-race ./cmd/verif || exit 2
  export VERIF_BIN_RACE=$D/verif-race;;
esac
cd $D/v && exec $D/verif run "$ID" "$TIER"
