#!/bin/bash
# ./evalmut.sh <mutation dir (contains patch.diff, meta.json, demo)> [check ids...]
# Confirms a seeded change (applies, builds, suite green, demo fails with / passes without) and runs checks against it.
# /repo is restored afterwards in every case.
set -u
M=$(readlink -f "$1"); shift
export GOFLAGS=-mod=mod GOPROXY=off GOSUMDB=off GOTOOLCHAIN=local
cd /repo || exit 2
[ -z "$(git status --porcelain)" ] || { echo "REPO-DIRTY"; exit 2; }
EB=$(mktemp -d /var/tmp/evalmut.evid.XXXXXX); cp -a /verif/evidence/. "$EB"/   # checks run here see a changed tree: their evidence must not replace the committed one
restore() { cd /repo; git checkout -q -- . ; git clean -fdq pkg >/dev/null 2>&1; rm -rf /verif/evidence; mkdir -p /verif/evidence; cp -a "$EB"/. /verif/evidence/; rm -rf "$EB"; }
trap restore EXIT
prop=$(jq -r .property "$M/meta.json")
loc=$(jq -r '.demo_location // empty' "$M/meta.json")
cmd=$(jq -r '.demo_command // empty' "$M/meta.json")
# keep only the `go test ...` / `go run ...` part (agents often prefix a cp from their worktree); quote-aware split
cmd=$(python3 - "$cmd" <<'PY'
import sys,re
c=sys.argv[1]
parts=[];cur='';q=None;i=0
while i<len(c):
    ch=c[i]
    if q:
        cur+=ch
        if ch==q: q=None
    elif ch in '"\'':
        q=ch;cur+=ch
    elif c.startswith('&&',i):
        parts.append(cur);cur='';i+=1
    elif ch==';':
        parts.append(cur);cur=''
    else:
        cur+=ch
    i+=1
parts.append(cur)
for p in parts:
    p=p.strip()
    m=re.search(r'(go (test|run)\b.*)',p)
    if m:
        x=m.group(1)
        x=re.sub(r'\s+\(the demo.*$','',x)
        print(x);break
PY
)
demo() { # runs the demo in /repo, returns its exit code
  if [ -f "$M/demo_test.go" ] && [ -n "$loc" ]; then
    cp "$M/demo_test.go" "/repo/$loc/zz_seeded_demo_test.go"
    (cd /repo && eval "$cmd" >/tmp/evalmut.demo.log 2>&1); rc=$?
    rm -f "/repo/$loc/zz_seeded_demo_test.go"
    return $rc
  elif [ -n "$cmd" ]; then
    (cd /repo && eval "$cmd" >/tmp/evalmut.demo.log 2>&1); return $?
  fi
  return 99
}
demo; clean_rc=$?
git apply --check "$M/patch.diff" 2>/dev/null || { echo "RESULT $prop $(basename $(dirname $M))/$(basename $M) patch-does-not-apply"; exit 1; }
git apply "$M/patch.diff"
go build ./... >/tmp/evalmut.build.log 2>&1 || { echo "RESULT $prop build-fails"; exit 1; }
suite=ok
go test -vet=off -count=1 ./... 2>&1 | grep -v "no test files" | grep -v "pkg/util/json" | grep -v "^FAIL$" | grep -qv "^ok" && suite=FAILS
demo; mut_rc=$?
echo "CONFIRM property=$prop dir=$M demo_clean_rc=$clean_rc demo_mutated_rc=$mut_rc suite=$suite"
ids=${@:-$prop}
caught=""
for id in $ids; do
  out=$(cd /verif && ./check $id quick 2>&1); e=$?
  fps=$(echo "$out" | grep 'violation fingerprints' | cut -c1-300)
  echo "CHECK $id exit=$e $fps"
  [ $e -eq 1 ] && caught="$caught $id"
done
echo "RESULT property=$prop dir=$M caught_by=[$caught ] demo_clean_rc=$clean_rc demo_mutated_rc=$mut_rc suite=$suite"
