#!/bin/bash
# stops a running mutation sweep (driver + lane processes); development aid
for p in $(pgrep -f "python3 mutsweep.py --"); do kill "$p"; done
sleep 1
for p in $(pgrep -f "^/(var/)?tmp/v?mut[a-z]*/lane[0-9]+/verif"); do kill -9 "$p"; done
for p in $(pgrep -f "^bash -c ulimit.*tmp/v?mut"); do kill -9 "$p"; done
exit 0
