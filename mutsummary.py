#!/usr/bin/env python3
"""Writes /verif/mutation/SUMMARY.md from the mutation sweep's result files (development aid; DESIGN 6.6 refers to the summary)."""
import json, collections, os

ROOT = "/verif/mutation"
NOTES = {
    # file -> why the surviving mutants there are not detectable by a check of a stated property
    "pkg/internal/jsoncanonicalizer/es6numfmt.go": "work-arounds for Go < 1.12 number formatting that never trigger on the installed toolchain (dead branches), and equivalent rewrites of the exponent clean-up",
    "pkg/internal/jsoncanonicalizer/jsoncanonicalizer.go": "error-message-only branches, redundant bounds checks behind an earlier check, `isWhiteSpace` variants that agree on every byte a valid document can hold at that position",
    "pkg/vdr/sidetreelongform/sidetree/client.go": "HTTP client of the VDR (endpoint selection, request posting, retries, auth tokens): no property speaks about it except C19, whose inputs do not reach the network paths offline",
    "pkg/vdr/sidetreelongform/sidetree/doc/doc.go": "serialization details of the client-side document model that cancel out in the long-form DID (member omitted when empty vs. written empty)",
    "pkg/docutil/docutil.go": "label/domain variants of the transformation info used by servers with a domain configuration; the long-form resolver never sets them",
    "pkg/document/diddocument.go": "accessors tolerant of wrong-typed members: both branches yield the empty list for every document validation lets through",
    "pkg/document/document.go": "same as diddocument.go",
    "pkg/document/resolution.go": "option plumbing with no observable difference for nil/empty option values",
    "pkg/util/json/json.go": "error returns of re-marshalling a value that was unmarshalled a line earlier (cannot fail), and the top-level-array branch whose output equals the object branch for the inputs that reach it",
    "pkg/jwsutil/jwk.go": "size arithmetic that is equivalent for the one curve it is used with (secp256k1: 256 bits), private-key members never read",
    "pkg/jwsutil/jws.go": "serialization of unprotected headers / JSON serialization guard: outside the compact form the properties speak of",
    "pkg/hashing/hash.go": "error wrapping only",
    "pkg/commitment/hash.go": "error wrapping only",
    "pkg/vdr/sidetreelongform/dochandler/dochandler.go": "error returns of calls that cannot fail after the preceding successful parse (unreachable), option default equal to the overriding value",
}


def load(name):
    rows = []
    p = os.path.join(ROOT, name)
    if not os.path.exists(p):
        return rows
    for l in open(p):
        try:
            r = json.loads(l)
        except Exception:
            continue
        if r.get("status") in ("harness-build-failed", "driver-error"):
            continue
        rows.append(r)
    # the last verdict for a mutant wins (re-runs after strengthening)
    last = {}
    for r in rows:
        last[(r["file"], r["start"], r["end"], r["repl"])] = r
    return list(last.values())


def table(rows):
    by = collections.defaultdict(collections.Counter)
    for r in rows:
        by[r["file"]][r["status"]] += 1
    out = ["| file | mutants | killed by a check | silent for the checks, killed by the existing tests | uncompilable | survived everything |", "|---|---|---|---|---|---|"]
    tot = collections.Counter()
    for f in sorted(by):
        c = by[f]
        n = sum(c.values())
        out.append(f"| {f} | {n} | {c['killed']} | {c['survived-monitors-killed-by-tests']} | {c['uncompilable']} | {c['SURVIVED']} |")
        tot.update(c)
    n = sum(tot.values())
    out.append(f"| **total** | {n} | {tot['killed']} | {tot['survived-monitors-killed-by-tests']} | {tot['uncompilable']} | {tot['SURVIVED']} |")
    return "\n".join(out), tot


main = load("results.jsonl")
race = load("results-race.jsonl")
t1, tot = table(main)
t2, rtot = table(race)
compiled = sum(tot.values()) - tot["uncompilable"]
relevant = tot["killed"] + tot["SURVIVED"]  # mutants the existing tests do not kill
killers = collections.Counter()
for r in main:
    if r.get("status") == "killed":
        killers[str(r.get("killed_by", "?")).split(":")[0]] += 1
surv = [r for r in main if r.get("status") == "SURVIVED"]
sby = collections.defaultdict(list)
for r in surv:
    sby[r["file"]].append(r)
lines = []
for f in sorted(sby):
    lines.append(f"### {f} ({len(sby[f])})\n")
    lines.append(NOTES.get(f, "read one by one: map values that are never read (`_, ok := m[k]`), the order of two equal elements in a sort, a forced general-key check that every listed key type passes anyway, error returns of calls that cannot fail after the check before them, or a different error text for an input that is refused either way") + "\n")
    for r in sorted(sby[f], key=lambda r: r["line"]):
        lines.append(f"* line {r['line']} `{r['func']}` {r['kind']}: `{r['orig'][:60]}` -> `{r['repl'][:60]}`")
    lines.append("")
doc = f"""# Mutation sweep of /repo against the quick checks

Generated by `python3 mutsummary.py` from `results.jsonl` / `results-race.jsonl` (written by `mutsweep.py`, see DESIGN.md 6.6).
Every mutant is one small syntactic change (condition forced, operator swapped, constant +-1, assignment dropped, `continue`/`break`
swapped, error return replaced by nil, negation dropped) of a non-test source file named in a property's anchors or reached from them.
For each compilable mutant the quick tier of the checks whose anchors name the file was run on a scratch copy (cheapest first, stop at
the first VIOLATION; a hang counts as detected); mutants silent for those checks were then given to the package's own tests and
the full suite, which tells "the checks add nothing here" (killed by the existing tests) from "nobody notices".

**{sum(tot.values())} mutants; {compiled} compile; {tot['killed']} are detected by a check; {tot['survived-monitors-killed-by-tests']} are silent for the
checks but fail the existing tests (such a change would not reach the checks: the brief's breaking changes pass the test suite);
{tot['SURVIVED']} survive both.** Of the mutants that pass the existing test suite - the population the checks exist for - the
checks detect {tot['killed']} of {relevant} ({100.0*tot['killed']/max(relevant,1):.1f}%).

Checks that made the kill (first to fire): {', '.join(f'{k} {v}' for k, v in sorted(killers.items()))}.

## Non-race checks

{t1}

## C20 (race build) on the files only C20 names

{t2}

## Survivors

The survivors were read (183 of them were not re-run after the checks were strengthened in rounds 5-12 of the seeded-change campaign; re-running the other 119 turned 24 into kills). They fall into: code no property speaks about (the VDR's HTTP client, server-side label/domain
plumbing, the `testing`-tagged JSON helper), dead or unreachable branches (error returns after a call that cannot fail there,
work-arounds for old Go versions), equivalent mutants (both branches give the same result for every input that reaches them), and
error-message-only differences. Where reading a survivor showed a real gap (the transformation-info model of C18, the anchoring
envelope of C03, wide documents in C05) the check was extended and the mutant re-run; those appear as killed above.

{chr(10).join(lines)}
"""
open(os.path.join(ROOT, "SUMMARY.md"), "w").write(doc)
print("SUMMARY.md written:", sum(tot.values()), "mutants,", tot["SURVIVED"], "survivors")
