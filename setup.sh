#!/bin/bash
# Run once after a fresh restore, offline: warm-builds both harness binaries from files on disk.
set -e
cd "$(dirname "$0")"
export GOFLAGS=-mod=mod GOPROXY=off GOSUMDB=off GOTOOLCHAIN=local
mkdir -p bin work evidence replays
cp -f /repo/go.sum harness/go.sum
./check build
echo "setup ok: $(bin/verif list | tr '\n' ' ')"
