#!/bin/bash
# ./regress_seeded.sh [seeded ids...] - re-applies every kept seeded change to /repo (temporarily), runs the quick check of
# its property and reports whether it is still caught. /repo is restored after each one. Development aid, not a registered check.
cd /verif
ids=${@:-$(ls seeded)}
trap 'git -C /repo checkout -- . ; git -C /repo clean -fdq' EXIT
missed=0
rm -rf /tmp/evid.bak; cp -a evidence /tmp/evid.bak
for d in $ids; do
  [ -f seeded/$d/patch.diff ] || continue
  prop=${d%%-*}
  if [ -n "$(git -C /repo status --short)" ]; then echo "ABORT: /repo not clean"; exit 3; fi
  if ! git -C /repo apply /verif/seeded/$d/patch.diff 2>/dev/null; then echo "$d APPLY-FAILED"; continue; fi
  out=$(./check $prop quick 2>&1); e=$?
  git -C /repo checkout -- . ; git -C /repo clean -fdq
  if [ $e -eq 1 ] && echo "$out" | grep -q "^VIOLATION property=$prop"; then echo "$d caught"; else echo "$d MISSED exit=$e"; missed=$((missed+1)); fi
done
echo "missed=$missed"
./check build >/dev/null 2>&1
rm -rf evidence; mv /tmp/evid.bak evidence
