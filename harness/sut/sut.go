// Package sut wires the code under test (sidetree-go from /repo's working tree).
package sut

import (
	"encoding/json"
	"sync"

	"github.com/trustbloc/sidetree-go/pkg/api/protocol"
	"github.com/trustbloc/sidetree-go/pkg/document"
	"github.com/trustbloc/sidetree-go/pkg/patch"
	"github.com/trustbloc/sidetree-go/pkg/versions/1_0/doccomposer"
	"github.com/trustbloc/sidetree-go/pkg/versions/1_0/operationapplier"
	"github.com/trustbloc/sidetree-go/pkg/versions/1_0/operationparser"

	"verifharness/oracle"
)

// Proto is the permissive protocol configuration used by most monitors: both
// hash algorithms, all eight patch actions, all operation key types.
func Proto() protocol.Protocol {
	return protocol.Protocol{
		GenesisTime:                  0,
		MultihashAlgorithms:          []uint{18, 19},
		MaxOperationCount:            10000,
		MaxOperationSize:             200000,
		MaxOperationHashLength:       100,
		MaxDeltaSize:                 100000,
		MaxCasURILength:              500,
		CompressionAlgorithm:         "GZIP",
		MaxChunkFileSize:             10000000,
		MaxProvisionalIndexFileSize:  1000000,
		MaxCoreIndexFileSize:         1000000,
		MaxProofFileSize:             2500000,
		Patches:                      []string{"replace", "add-public-keys", "remove-public-keys", "add-services", "remove-services", "ietf-json-patch", "add-also-known-as", "remove-also-known-as"},
		SignatureAlgorithms:          []string{"EdDSA", "ES256", "ES384", "ES256K"},
		KeyAlgorithms:                []string{"Ed25519", "P-256", "P-384", "secp256k1"},
		MaxOperationTimeDelta:        600,
		NonceSize:                    16,
		MaxMemoryDecompressionFactor: 3,
	}
}

// Stack is a parser + composer + applier sharing one configuration.
type Stack struct {
	P        protocol.Protocol
	Parser   *operationparser.Parser
	Composer *doccomposer.DocumentComposer
	Applier  *operationapplier.Applier
}

func NewStack(p protocol.Protocol, opts ...operationparser.Option) *Stack {
	parser := operationparser.New(p, opts...)
	dc := doccomposer.New()
	return &Stack{P: p, Parser: parser, Composer: dc, Applier: operationapplier.New(p, parser, dc)}
}

var (
	stackMu    sync.Mutex
	stackCache = map[string]*Stack{}
)

// SharedStack returns one long-lived stack per protocol configuration (per worker process), so that the same parser /
// composer / applier instances serve many unrelated cases: state wrongly carried from one call to the next becomes visible.
func SharedStack(p protocol.Protocol) *Stack {
	b, _ := json.Marshal(p)
	stackMu.Lock()
	defer stackMu.Unlock()
	if s, ok := stackCache[string(b)]; ok {
		return s
	}
	if len(stackCache) > 512 {
		stackCache = map[string]*Stack{}
	}
	s := NewStack(p)
	stackCache[string(b)] = s
	return s
}

// ToPatches converts generic patches to the library's patch type by the
// route the library itself uses for incoming requests (JSON decoding).
func ToPatches(generic []interface{}) ([]patch.Patch, error) {
	b, err := json.Marshal(generic)
	if err != nil {
		return nil, err
	}
	var out []patch.Patch
	if err := json.Unmarshal(b, &out); err != nil {
		return nil, err
	}
	return out, nil
}

// ToPatch converts one generic patch.
func ToPatch(generic map[string]interface{}) (patch.Patch, error) {
	b, err := json.Marshal(generic)
	if err != nil {
		return nil, err
	}
	var out patch.Patch
	if err := json.Unmarshal(b, &out); err != nil {
		return nil, err
	}
	return out, nil
}

// ToDoc converts a generic document to document.Document via JSON (plain
// decoding: numbers become float64 exactly as in the library).
func ToDoc(generic map[string]interface{}) (document.Document, error) {
	b, err := json.Marshal(generic)
	if err != nil {
		return nil, err
	}
	return document.FromBytes(b)
}

// FromDoc converts a library document (or any value) to generic JSON.
func FromDoc(doc interface{}) (map[string]interface{}, error) {
	g, err := oracle.Generic(doc)
	if err != nil {
		return nil, err
	}
	if g == nil {
		return nil, nil
	}
	m, _ := g.(map[string]interface{})
	return m, nil
}
