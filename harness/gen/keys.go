// Package gen holds the deterministic generators shared by the monitors.
package gen

import (
	"crypto"
	"crypto/ecdsa"
	"crypto/ed25519"
	"crypto/elliptic"
	"crypto/sha256"
	"crypto/sha512"
	"encoding/json"
	"math/big"

	"github.com/btcsuite/btcd/btcec/v2"

	"verifharness/fw"
	"verifharness/oracle"
)

// Key types (JWK curve names).
const (
	Ed25519   = "Ed25519"
	P256      = "P-256"
	P384      = "P-384"
	P521      = "P-521"
	Secp256k1 = "secp256k1"
)

var AllKeyTypes = []string{Ed25519, P256, P384, P521, Secp256k1}

// SigningKeyTypes are the types the shipped protocol configuration allows for operation keys.
var SigningKeyTypes = []string{Ed25519, P256, P384, Secp256k1}

// Key is a key pair with its harness-side JWK view.
type Key struct {
	Type  string
	Ed    ed25519.PrivateKey
	EC    *ecdsa.PrivateKey
	Nonce string
}

func Curve(typ string) elliptic.Curve {
	switch typ {
	case P256:
		return elliptic.P256()
	case P384:
		return elliptic.P384()
	case P521:
		return elliptic.P521()
	case Secp256k1:
		return btcec.S256()
	}
	return nil
}

// CurveBytes is the fixed coordinate width of a curve.
func CurveBytes(typ string) int {
	switch typ {
	case P256, Secp256k1, Ed25519:
		return 32
	case P384:
		return 48
	case P521:
		return 66
	}
	return 0
}

// NewKey derives a key pair deterministically from the stream.
func NewKey(r *fw.Rand, typ string) *Key {
	if typ == Ed25519 {
		return &Key{Type: typ, Ed: ed25519.NewKeyFromSeed(r.Bytes(32))}
	}
	c := Curve(typ)
	n := c.Params().N
	d := new(big.Int).SetBytes(r.Bytes(CurveBytes(typ) + 8))
	d.Mod(d, new(big.Int).Sub(n, big.NewInt(1)))
	d.Add(d, big.NewInt(1))
	x, y := c.ScalarBaseMult(d.Bytes())
	return &Key{Type: typ, EC: &ecdsa.PrivateKey{PublicKey: ecdsa.PublicKey{Curve: c, X: x, Y: y}, D: d}}
}

// WithNonce returns a copy of the key carrying a nonce of n random bytes.
func (k *Key) WithNonce(r *fw.Rand, n int) *Key {
	c := *k
	c.Nonce = oracle.B64(r.Bytes(n))
	for n > 0 && c.Nonce == k.Nonce {
		// one-byte nonces collide once in 256 draws: the copy is meant to be a different key
		c.Nonce = oracle.B64(r.Bytes(n))
	}
	return &c
}

func (k *Key) Public() crypto.PublicKey {
	if k.Type == Ed25519 {
		return k.Ed.Public().(ed25519.PublicKey)
	}
	return &k.EC.PublicKey
}

func pad(b []byte, n int) []byte {
	if len(b) >= n {
		return b
	}
	out := make([]byte, n)
	copy(out[n-len(b):], b)
	return out
}

// XY returns the fixed-width coordinates (Ed25519: x = public key, y empty).
func (k *Key) XY() (x, y []byte) {
	if k.Type == Ed25519 {
		return []byte(k.Ed.Public().(ed25519.PublicKey)), nil
	}
	w := CurveBytes(k.Type)
	return pad(k.EC.X.Bytes(), w), pad(k.EC.Y.Bytes(), w)
}

// JWK is the JWK as sidetree-go's operation key model serializes it:
// crv, kty, x, y always present (y empty for Ed25519), nonce when set.
func (k *Key) JWK() map[string]interface{} {
	x, y := k.XY()
	m := map[string]interface{}{"crv": k.Type, "x": oracle.B64(x)}
	if k.Type == Ed25519 {
		m["kty"] = "OKP"
		m["y"] = ""
	} else {
		m["kty"] = "EC"
		m["y"] = oracle.B64(y)
	}
	if k.Nonce != "" {
		m["nonce"] = k.Nonce
	}
	return m
}

// PlainJWK is the conventional public JWK (no empty y) used inside documents.
func (k *Key) PlainJWK() map[string]interface{} {
	m := k.JWK()
	if k.Type == Ed25519 {
		delete(m, "y")
	}
	delete(m, "nonce")
	return m
}

// Alg is the JWS algorithm name for the key.
func (k *Key) Alg() string {
	switch k.Type {
	case Ed25519:
		return "EdDSA"
	case P256:
		return "ES256"
	case P384:
		return "ES384"
	case P521:
		return "ES512"
	case Secp256k1:
		return "ES256K"
	}
	return ""
}

func hashFor(typ string, msg []byte) []byte {
	switch typ {
	case P384:
		h := sha512.Sum384(msg)
		return h[:]
	case P521:
		h := sha512.Sum512(msg)
		return h[:]
	}
	h := sha256.Sum256(msg)
	return h[:]
}

// Sign signs msg with Go's crypto directly (fixed-width r||s for EC keys).
func (k *Key) Sign(r *fw.Rand, msg []byte) []byte {
	if k.Type == Ed25519 {
		return ed25519.Sign(k.Ed, msg)
	}
	// crypto/ecdsa deliberately reads zero or one byte more from its random source from call to call: it gets a stream of its own,
	// seeded with one draw, so that the case's stream advances by the same amount in every run (replays reproduce the case)
	rr, ss, err := ecdsa.Sign(fw.NewRand(r.U64()), k.EC, hashFor(k.Type, msg))
	if err != nil {
		panic("gen: ecdsa sign: " + err.Error())
	}
	w := CurveBytes(k.Type)
	return append(pad(rr.Bytes(), w), pad(ss.Bytes(), w)...)
}

// CompactJWS assembles header.payload.signature with the given protected headers.
func CompactJWS(r *fw.Rand, headers map[string]interface{}, payload []byte, k *Key) string {
	hb, _ := json.Marshal(headers)
	input := oracle.B64(hb) + "." + oracle.B64(payload)
	sig := k.Sign(r, []byte(input))
	return input + "." + oracle.B64(sig)
}

// Commitment / Reveal of the key for a multihash code (reference formulas).
func (k *Key) Commitment(code uint64) string {
	s, err := oracle.Commitment(code, k.JWK())
	if err != nil {
		panic(err)
	}
	return s
}

func (k *Key) Reveal(code uint64) string {
	s, err := oracle.RevealValue(code, k.JWK())
	if err != nil {
		panic(err)
	}
	return s
}

// NewKeyLeadingZero draws keys until one has a coordinate starting with a zero byte (probability about 1/64 per draw
// for the 256- and 384-bit curves, 1/2 for P-521); ok=false when none was found within the budget. Ed25519: x only.
func NewKeyLeadingZero(r *fw.Rand, typ string, budget int) (*Key, bool) {
	for i := 0; i < budget; i++ {
		k := NewKey(r, typ)
		x, y := k.XY()
		if x[0] == 0 || (len(y) > 0 && y[0] == 0) {
			return k, true
		}
	}
	return NewKey(r, typ), false
}

// Mirror returns the public key (x, p - y): a different valid key on the same curve sharing the x coordinate.
// Its private part is n - d, so it can sign as well. nil for Ed25519.
func (k *Key) Mirror() *Key {
	if k.Type == Ed25519 {
		return nil
	}
	c := k.EC.Curve
	p := c.Params().P
	y := new(big.Int).Sub(p, k.EC.Y)
	d := new(big.Int).Sub(c.Params().N, k.EC.D)
	return &Key{Type: k.Type, Nonce: k.Nonce, EC: &ecdsa.PrivateKey{PublicKey: ecdsa.PublicKey{Curve: c, X: new(big.Int).Set(k.EC.X), Y: y}, D: d}}
}
