package gen

import (
	"encoding/json"
	"fmt"
	"math"
	"math/big"
	"strconv"
	"strings"
	"unicode/utf16"

	"verifharness/fw"
)

// SpellOpts controls re-serialization of a generic JSON value.
type SpellOpts struct {
	Shuffle    bool // random member order at every depth
	Whitespace bool // random insignificant whitespace
	Escapes    bool // random \uXXXX / short escapes in strings
	Numbers    bool // random number spellings
}

var AllSpell = SpellOpts{Shuffle: true, Whitespace: true, Escapes: true, Numbers: true}

// Spell writes v (generic JSON) as a random but value-preserving JSON text.
func Spell(r *fw.Rand, v interface{}, o SpellOpts) []byte {
	var sb strings.Builder
	spell(r, &sb, v, o)
	return []byte(sb.String())
}

func ws(r *fw.Rand, sb *strings.Builder, o SpellOpts) {
	if !o.Whitespace {
		return
	}
	for r.Chance(1, 4) {
		sb.WriteByte(" \t\n\r"[r.Intn(4)])
	}
}

func spell(r *fw.Rand, sb *strings.Builder, v interface{}, o SpellOpts) {
	ws(r, sb, o)
	switch t := v.(type) {
	case nil:
		sb.WriteString("null")
	case bool:
		if t {
			sb.WriteString("true")
		} else {
			sb.WriteString("false")
		}
	case string:
		SpellString(r, sb, t, o.Escapes)
	case json.Number:
		f, err := strconv.ParseFloat(string(t), 64)
		if err != nil || !o.Numbers {
			sb.WriteString(string(t))
		} else {
			sb.WriteString(SpellNumber(r, f))
		}
	case float64:
		if o.Numbers {
			sb.WriteString(SpellNumber(r, t))
		} else {
			sb.WriteString(strconv.FormatFloat(t, 'g', -1, 64))
		}
	case int:
		if o.Numbers {
			sb.WriteString(SpellNumber(r, float64(t)))
		} else {
			sb.WriteString(strconv.Itoa(t))
		}
	case int64:
		if o.Numbers {
			sb.WriteString(SpellNumber(r, float64(t)))
		} else {
			sb.WriteString(strconv.FormatInt(t, 10))
		}
	case []interface{}:
		sb.WriteByte('[')
		for i, e := range t {
			if i > 0 {
				sb.WriteByte(',')
			}
			spell(r, sb, e, o)
			ws(r, sb, o)
		}
		ws(r, sb, o)
		sb.WriteByte(']')
	case map[string]interface{}:
		keys := make([]string, 0, len(t))
		for k := range t {
			keys = append(keys, k)
		}
		// deterministic base order, then optional shuffle
		sortStrings(keys)
		if o.Shuffle {
			p := r.Perm(len(keys))
			sh := make([]string, len(keys))
			for i, j := range p {
				sh[i] = keys[j]
			}
			keys = sh
		}
		sb.WriteByte('{')
		for i, k := range keys {
			if i > 0 {
				sb.WriteByte(',')
			}
			ws(r, sb, o)
			SpellString(r, sb, k, o.Escapes)
			ws(r, sb, o)
			sb.WriteByte(':')
			spell(r, sb, t[k], o)
			ws(r, sb, o)
		}
		ws(r, sb, o)
		sb.WriteByte('}')
	default:
		b, _ := json.Marshal(v)
		sb.Write(b)
	}
	ws(r, sb, o)
}

func sortStrings(a []string) {
	for i := 1; i < len(a); i++ {
		for j := i; j > 0 && a[j] < a[j-1]; j-- {
			a[j], a[j-1] = a[j-1], a[j]
		}
	}
}

// SpellString writes a JSON string literal for s; with escapes on, characters
// are randomly written literally, as \uXXXX (surrogate pairs above the BMP,
// random hex case) or with their short escape.
func SpellString(r *fw.Rand, sb *strings.Builder, s string, escapes bool) {
	sb.WriteByte('"')
	for _, c := range s {
		mustEscape := c < 0x20 || c == '"' || c == '\\'
		if !mustEscape && !(escapes && r.Chance(1, 5)) {
			sb.WriteRune(c)
			continue
		}
		short := ""
		switch c {
		case '"':
			short = `\"`
		case '\\':
			short = `\\`
		case '/':
			short = `\/`
		case '\b':
			short = `\b`
		case '\f':
			short = `\f`
		case '\n':
			short = `\n`
		case '\r':
			short = `\r`
		case '\t':
			short = `\t`
		}
		if short != "" && (!escapes || r.Chance(1, 2)) {
			sb.WriteString(short)
			continue
		}
		upper := escapes && r.Bool()
		hex := func(u uint16) {
			if upper {
				fmt.Fprintf(sb, `\u%04X`, u)
			} else {
				fmt.Fprintf(sb, `\u%04x`, u)
			}
		}
		if c >= 0x10000 {
			hi, lo := utf16.EncodeRune(c)
			hex(uint16(hi))
			hex(uint16(lo))
		} else {
			hex(uint16(c))
		}
	}
	sb.WriteByte('"')
}

// SpellNumber returns a random JSON spelling that parses to exactly f.
func SpellNumber(r *fw.Rand, f float64) string {
	cands := []string{strconv.FormatFloat(f, 'g', -1, 64), strconv.FormatFloat(f, 'e', -1, 64),
		strconv.FormatFloat(f, 'E', -1, 64), strconv.FormatFloat(f, 'e', 20, 64)}
	a := math.Abs(f)
	if a < 1e25 && (a > 1e-25 || a == 0) {
		cands = append(cands, strconv.FormatFloat(f, 'f', -1, 64))
	}
	if f == math.Trunc(f) && a < 1e15 {
		i := strconv.FormatInt(int64(f), 10)
		cands = append(cands, i, i+".0", i+".000", i+"e0", i+"E+0", i+"0e-1")
	}
	// decimals with more digits than needed whose tail is perturbed: they are different texts that still round to f
	if a != 0 && r.Chance(1, 3) {
		long := strconv.FormatFloat(f, 'e', 24, 64) // d.dddd…e±xx with 25 significant digits (exact expansion, padded)
		if i := strings.IndexByte(long, 'e'); i > 8 {
			b := []byte(long)
			pos := i - 1 - r.Intn(5)
			if b[pos] >= '0' && b[pos] <= '9' {
				b[pos] = '0' + (b[pos]-'0'+byte(1+r.Intn(8)))%10
				cands = append(cands, string(b))
			}
		}
		if f == math.Trunc(f) && a >= 1<<53 && a < 1e19 {
			// integer literals next to f that are not exactly representable (e.g. 9007199254740993)
			n := new(big.Int)
			new(big.Float).SetFloat64(f).Int(n)
			for _, d := range []int64{1, -1, 3, -3} {
				cands = append(cands, new(big.Int).Add(n, big.NewInt(d)).String())
			}
		}
	}
	// long mantissas (more than 20 digits, zero-padded or exact) with an exponent part, in both letter cases of the exponent sign
	if a != 0 {
		for _, prec := range []int{21, 25, 30} {
			cands = append(cands, strconv.FormatFloat(f, 'E', prec, 64))
		}
		if f == math.Trunc(f) && a < 1e15 {
			i := strconv.FormatInt(int64(f), 10)
			cands = append(cands, i+".000000000000000000000E0", i+"000000000000000000000000E-24", i+".0000000000000000000000e+0")
		}
	}
	if f == 0 {
		cands = append(cands, "0", "0.0", "0e5", "-0", "-0.0")
		if math.Signbit(f) {
			cands = []string{"-0", "-0.0", "-0e1"}
		}
	}
	for tries := 0; tries < 8; tries++ {
		c := cands[r.Intn(len(cands))]
		// Go prints exponents as e+06; JSON allows that. Strip "+" sometimes.
		if r.Chance(1, 3) {
			c = strings.Replace(c, "e+", "e", 1)
			c = strings.Replace(c, "E+", "E", 1)
		}
		if !validJSONNumber(c) {
			continue
		}
		back, err := strconv.ParseFloat(c, 64)
		if err == nil && back == f && math.Signbit(back) == math.Signbit(f) {
			return c
		}
	}
	return strconv.FormatFloat(f, 'g', -1, 64)
}

func validJSONNumber(s string) bool {
	var v interface{}
	return json.Unmarshal([]byte(s), &v) == nil
}

// interesting runes for strings and member names
var specialRunes = []rune{0, 1, 7, 8, 9, 10, 11, 12, 13, 0x1b, 0x1f, 0x20, '"', '\\', '/', 0x7f, 0x80, 0xff,
	0x2028, 0x2029, 0xd7ff, 0xe000, 0xfffd, 0xfffe, 0xffff, 0x10000, 0x10ffff, 0x1f600, 0x1d11e, 0xfb00, 0xfb33, '<', '>', '&', 0x20ac, 0xdf, 0x3b1}

// RandRune draws a Unicode scalar value with emphasis on the hazardous ones.
func RandRune(r *fw.Rand) rune {
	switch r.Intn(8) {
	case 0, 1:
		return specialRunes[r.Intn(len(specialRunes))]
	case 2:
		return rune(r.Intn(0x20))
	case 3, 4:
		return rune(0x20 + r.Intn(0x5f))
	case 5:
		for {
			c := rune(r.Intn(0x10000))
			if c < 0xd800 || c > 0xdfff {
				return c
			}
		}
	case 6:
		return rune(0x10000 + r.Intn(0x100000))
	}
	return rune(0xe000 + r.Intn(0x2000)) // private use / high BMP: sorts after surrogates in code points, before in UTF-16
}

// RandString draws a string of up to maxLen runes.
func RandString(r *fw.Rand, maxLen int) string {
	n := r.Intn(maxLen + 1)
	rs := make([]rune, n)
	for i := range rs {
		rs[i] = RandRune(r)
	}
	return string(rs)
}

// RandValue draws an arbitrary I-JSON value (numbers as float64).
func RandValue(r *fw.Rand, depth int) interface{} {
	k := r.Intn(8)
	if depth <= 0 && k >= 6 {
		k = r.Intn(6)
	}
	switch k {
	case 0:
		return nil
	case 1:
		return r.Bool()
	case 2:
		if r.Chance(1, 40) {
			return RandString(r, fw.Pick(r, []int{63, 64, 65, 255, 256, 257, 1000, 5000})) // around typical buffer sizes
		}
		return RandString(r, 8)
	case 3:
		return RandDouble(r)
	case 4:
		return float64(r.Intn(2001) - 1000)
	case 5:
		return RandString(r, 2)
	case 6:
		n := r.Intn(5)
		if r.Chance(1, 25) {
			n = r.Range(10, 120)
		}
		l := make([]interface{}, n)
		for i := range l {
			if n > 8 {
				l[i] = RandValue(r, 0)
			} else {
				l[i] = RandValue(r, depth-1)
			}
		}
		return l
	}
	return RandObject(r, depth)
}

// RandObject draws an object whose member names stress UTF-16 ordering.
func RandObject(r *fw.Rand, depth int) map[string]interface{} {
	n := r.Intn(6)
	if r.Chance(1, 25) {
		n = r.Range(8, 70) // occasionally wide objects: member sorting beyond a handful of names
	}
	m := make(map[string]interface{}, n)
	prefix := ""
	if r.Chance(1, 3) {
		prefix = RandString(r, 2)
	}
	for i := 0; i < n; i++ {
		name := prefix + RandString(r, 3)
		if r.Chance(1, 10) {
			name = ""
		}
		if r.Chance(1, 12) {
			// names that mean something to other languages' object models: ordinary member names in JSON
			name = fw.Pick(r, []string{"__proto__", "constructor", "prototype", "toString", "hasOwnProperty", "__defineGetter__", "length", "undefined", "null", "NaN", "$ref", "@type", "0", "-1", "007"})
		}
		m[name] = RandValue(r, depth-1)
	}
	return m
}

var pow10tab = func() []float64 {
	var t []float64
	for e := -323; e <= 308; e++ {
		f, _ := strconv.ParseFloat("1e"+strconv.Itoa(e), 64)
		t = append(t, f)
	}
	return t
}()

// RandDouble draws a finite double from one of the directed classes; the class name is returned by RandDoubleClass.
func RandDouble(r *fw.Rand) float64 {
	f, _ := RandDoubleClass(r)
	return f
}

func RandDoubleClass(r *fw.Rand) (float64, string) {
	neg := func(f float64) float64 {
		if r.Chance(1, 4) {
			return -f
		}
		return f
	}
	nudge := func(f float64) float64 {
		bits := math.Float64bits(f)
		d := uint64(r.Intn(5))
		if r.Bool() {
			bits += d
		} else if bits > d {
			bits -= d
		}
		g := math.Float64frombits(bits)
		if math.IsInf(g, 0) || math.IsNaN(g) {
			return f
		}
		return g
	}
	switch r.Intn(12) {
	case 0, 1, 2:
		return r.F64Bits(), "random-bits"
	case 3:
		return neg(math.Float64frombits(uint64(r.U64() >> 12))), "subnormal"
	case 4:
		return neg(nudge(math.Ldexp(1, r.Range(-1074, 1023)))), "pow2-neighbour"
	case 5:
		return neg(nudge(pow10tab[r.Intn(len(pow10tab))])), "pow10-neighbour"
	case 6:
		base := fw.Pick(r, []float64{1e21, 1e-6, 1e-7, 1e20, 1e22, 1e-5})
		return neg(nudge(base)), "switch-point"
	case 7:
		// integers in [1e11, 1e21) with trailing zeros
		digits := r.Range(1, 6)
		zeros := r.Range(11-digits, 20-digits)
		if zeros < 0 {
			zeros = 0
		}
		m := float64(r.Range(1, int(math.Pow10(digits))-1))
		f, _ := strconv.ParseFloat(strconv.FormatFloat(m, 'f', 0, 64)+"e"+strconv.Itoa(zeros), 64)
		if r.Chance(1, 3) {
			f = nudge(f)
		}
		return neg(f), "int-trailing-zeros"
	case 8:
		return neg(float64(int64(1)<<53) + float64(r.Range(-40, 40))), "2^53-neighbourhood"
	case 9:
		return neg(float64(r.Intn(1 << 30))), "small-int"
	case 10:
		// short decimals
		f, _ := strconv.ParseFloat(fmt.Sprintf("%d.%de%d", r.Intn(10), r.Intn(1000), r.Range(-30, 30)), 64)
		return neg(f), "short-decimal"
	}
	if r.Bool() {
		return math.Copysign(0, -1), "zero"
	}
	return fw.Pick(r, []float64{0, math.MaxFloat64, math.SmallestNonzeroFloat64, 5e-324, 1.7976931348623157e308, 4.9e-324, 123456789012345680000, 0.000001, 1e21, 999999999999999900000}), "extreme"
}

// EscapeNonASCII rewrites a JSON text so that each character outside ASCII (these occur inside strings only) is, with probability
// num/den, written as \uXXXX - a surrogate pair beyond the basic plane - in random hex case. The value of the text is unchanged and
// it grows by a few bytes only.
func EscapeNonASCII(r *fw.Rand, text []byte, num, den int) []byte {
	var sb strings.Builder
	for _, c := range string(text) {
		if c < 0x80 || !r.Chance(num, den) {
			sb.WriteRune(c)
			continue
		}
		f := `\u%04x`
		if r.Bool() {
			f = `\u%04X`
		}
		if c >= 0x10000 {
			hi, lo := utf16.EncodeRune(c)
			fmt.Fprintf(&sb, f, hi)
			fmt.Fprintf(&sb, f, lo)
		} else {
			fmt.Fprintf(&sb, f, c)
		}
	}
	return []byte(sb.String())
}
