package gen

import (
	"encoding/json"

	"verifharness/fw"
	"verifharness/oracle"
)

// OpSpec describes one Sidetree operation request built by hand (reference
// JCS / multihash / JWS assembly, no sidetree-go builder involved). Zero
// override fields mean "derive the honest value".
type OpSpec struct {
	Type string // create | update | recover | deactivate
	Code uint64 // multihash code used for every hash of this operation
	// RevealCode, when non-zero, is the code of the reveal value: the algorithm of the commitment being opened, which an
	// earlier operation may have made under another algorithm than this operation's own hashes
	RevealCode uint64
	Suffix     string // didSuffix (non-create)

	Patches            []interface{}
	UpdateCommitment   string      // next update commitment (delta.updateCommitment)
	RecoveryCommitment string      // next recovery commitment (create: suffix data, recover: signed data)
	AnchorOrigin       interface{} // optional
	CreateType         string      // optional suffixData.type
	AnchorFrom         int64
	AnchorUntil        int64
	Signer             *Key // signs update / recover / deactivate

	// overrides
	PayloadKey         map[string]interface{}     // JWK placed in the signed data (default Signer.JWK())
	Reveal             *string                    // default reveal(PayloadKey)
	DeltaHash          *string                    // default hash(delta)
	PostBuildDeltaHash func(honest string) string // derive the recorded delta hash from the honest one
	Headers            map[string]interface{}     // default {"alg": Signer.Alg()}
	SignedSuffix       *string                    // deactivate: default Suffix
	OmitDelta          bool
	RequestDelta       interface{}                      // delta placed in the request instead of the honest one (hash stays honest)
	PayloadEdit        func(p map[string]interface{})   // edit signed payload before signing
	RawPayload         func(b []byte) []byte            // rewrite the serialized signed payload before signing (texts the value route cannot produce)
	PostJWS            func(jws string) string          // tamper after signing
	RequestEdit        func(req map[string]interface{}) // edit the request object before serialization
	SuffixDataEdit     func(sd map[string]interface{})  // create: edit suffix data before hashing
	RawRequest         func(b []byte) []byte            // tamper with the final bytes
}

// Built is the result of building an OpSpec.
type Built struct {
	Request    []byte
	ReqObj     map[string]interface{}
	Delta      map[string]interface{}
	SuffixData map[string]interface{} // create
	Payload    map[string]interface{} // signed data model
	JWS        string
	DeltaHash  string
	Reveal     string
	Suffix     string // unique suffix (create: computed with Code)
}

func S(s string) *string { return &s }

// Build assembles the request.
func (s *OpSpec) Build(r *fw.Rand) *Built {
	b := &Built{}
	delta := map[string]interface{}{"updateCommitment": s.UpdateCommitment, "patches": s.Patches}
	if s.UpdateCommitment == "" {
		delta = map[string]interface{}{"patches": s.Patches}
	}
	b.Delta = delta
	if s.PostBuildDeltaHash != nil && s.Type != "deactivate" {
		b.DeltaHash = s.PostBuildDeltaHash(oracle.MustModelHash(s.Code, delta))
	} else if s.DeltaHash != nil {
		b.DeltaHash = *s.DeltaHash
	} else if s.Type != "deactivate" {
		b.DeltaHash = oracle.MustModelHash(s.Code, delta)
	}
	req := map[string]interface{}{"type": s.Type}
	if s.Type == "create" {
		sd := map[string]interface{}{"deltaHash": b.DeltaHash, "recoveryCommitment": s.RecoveryCommitment}
		if s.AnchorOrigin != nil {
			sd["anchorOrigin"] = s.AnchorOrigin
		}
		if s.CreateType != "" {
			sd["type"] = s.CreateType
		}
		if s.SuffixDataEdit != nil {
			s.SuffixDataEdit(sd)
		}
		b.SuffixData = sd
		req["suffixData"] = sd
		b.Suffix = oracle.MustModelHash(s.Code, sd)
	} else {
		b.Suffix = s.Suffix
		req["didSuffix"] = s.Suffix
		pk := s.PayloadKey
		if pk == nil {
			pk = s.Signer.JWK()
		}
		if s.Reveal != nil {
			b.Reveal = *s.Reveal
		} else {
			rc := s.Code
			if s.RevealCode != 0 {
				rc = s.RevealCode
			}
			rv, err := oracle.RevealValue(rc, structJWK(pk))
			if err != nil {
				panic(err)
			}
			b.Reveal = rv
		}
		req["revealValue"] = b.Reveal
		payload := map[string]interface{}{}
		switch s.Type {
		case "update":
			payload["updateKey"] = pk
			payload["deltaHash"] = b.DeltaHash
		case "recover":
			payload["recoveryKey"] = pk
			payload["deltaHash"] = b.DeltaHash
			payload["recoveryCommitment"] = s.RecoveryCommitment
			if s.AnchorOrigin != nil {
				payload["anchorOrigin"] = s.AnchorOrigin
			}
		case "deactivate":
			payload["recoveryKey"] = pk
			if s.SignedSuffix != nil {
				payload["didSuffix"] = *s.SignedSuffix
			} else {
				payload["didSuffix"] = s.Suffix
			}
		}
		if s.AnchorFrom != 0 {
			payload["anchorFrom"] = s.AnchorFrom
		}
		if s.AnchorUntil != 0 {
			payload["anchorUntil"] = s.AnchorUntil
		}
		if s.PayloadEdit != nil {
			s.PayloadEdit(payload)
		}
		b.Payload = payload
		hdr := s.Headers
		if hdr == nil {
			hdr = map[string]interface{}{"alg": s.Signer.Alg()}
		}
		pb := oracle.MustJCS(payload)
		if s.RawPayload != nil {
			pb = s.RawPayload(pb)
		}
		b.JWS = CompactJWS(r, hdr, pb, s.Signer)
		if s.PostJWS != nil {
			b.JWS = s.PostJWS(b.JWS)
		}
		req["signedData"] = b.JWS
	}
	if s.Type != "deactivate" && !s.OmitDelta {
		if s.RequestDelta != nil {
			req["delta"] = s.RequestDelta
		} else {
			req["delta"] = delta
		}
	}
	if s.RequestEdit != nil {
		s.RequestEdit(req)
	}
	b.ReqObj = req
	b.Request = oracle.MustJCS(req)
	if s.RawRequest != nil {
		b.Request = s.RawRequest(b.Request)
	}
	return b
}

// structJWK normalises a JWK object to the members sidetree-go's key model
// keeps (crv, kty, x, y always; n, e, nonce when non-empty) - the form whose
// canonical JSON is hashed for reveal values and commitments.
func structJWK(j map[string]interface{}) map[string]interface{} {
	out := map[string]interface{}{}
	for _, k := range []string{"crv", "kty", "x", "y"} {
		s, _ := j[k].(string)
		out[k] = s
	}
	for _, k := range []string{"n", "e", "nonce"} {
		if s, _ := j[k].(string); s != "" {
			out[k] = s
		}
	}
	return out
}

// StructJWK is exported for monitors.
func StructJWK(j map[string]interface{}) map[string]interface{} { return structJWK(j) }

// ToJSON marshals a generic value with encoding/json (struct-order irrelevant for maps).
func ToJSON(v interface{}) []byte {
	b, err := json.Marshal(v)
	if err != nil {
		panic(err)
	}
	return b
}

// Chain models the key material of one DID over its lifetime.
type Chain struct {
	Code       uint64
	KeyType    string
	UpdateKey  *Key // key whose commitment is currently installed as update commitment
	RecoverKey *Key
	Suffix     string
}

// NewChainCreate builds a valid create spec and the chain state after it.
func NewChainCreate(r *fw.Rand, code uint64, keyType string, patches []interface{}) (*OpSpec, *Chain) {
	ch := &Chain{Code: code, KeyType: keyType, UpdateKey: NewKey(r, keyType), RecoverKey: NewKey(r, keyType)}
	s := &OpSpec{Type: "create", Code: code, Patches: patches,
		UpdateCommitment: ch.UpdateKey.Commitment(code), RecoveryCommitment: ch.RecoverKey.Commitment(code)}
	return s, ch
}

// NextUpdate builds a valid update signed by the current update key and
// returns the next update key (installed by the caller if the op is accepted).
func (ch *Chain) NextUpdate(r *fw.Rand, patches []interface{}) (*OpSpec, *Key) {
	next := NewKey(r, ch.KeyType)
	s := &OpSpec{Type: "update", Code: ch.Code, Suffix: ch.Suffix, Patches: patches,
		UpdateCommitment: next.Commitment(ch.Code), Signer: ch.UpdateKey}
	return s, next
}

// NextRecover builds a valid recover signed by the current recovery key.
func (ch *Chain) NextRecover(r *fw.Rand, patches []interface{}) (*OpSpec, *Key, *Key) {
	nextU := NewKey(r, ch.KeyType)
	nextR := NewKey(r, ch.KeyType)
	s := &OpSpec{Type: "recover", Code: ch.Code, Suffix: ch.Suffix, Patches: patches,
		UpdateCommitment: nextU.Commitment(ch.Code), RecoveryCommitment: nextR.Commitment(ch.Code), Signer: ch.RecoverKey}
	return s, nextU, nextR
}

// NextDeactivate builds a valid deactivate signed by the current recovery key.
func (ch *Chain) NextDeactivate() *OpSpec {
	return &OpSpec{Type: "deactivate", Code: ch.Code, Suffix: ch.Suffix, Signer: ch.RecoverKey}
}
