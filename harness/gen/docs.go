package gen

import (
	"fmt"
	"strings"

	"verifharness/fw"
	"verifharness/oracle"
)

// Document key types known to the patch validator.
const (
	TBls     = "Bls12381G2Key2020"
	TJwk2020 = "JsonWebKey2020"
	TSecp    = "EcdsaSecp256k1VerificationKey2019"
	TX25519  = "X25519KeyAgreementKey2019"
	TEd2018  = "Ed25519VerificationKey2018"
	TEd2020  = "Ed25519VerificationKey2020"
)

var DocKeyTypes = []string{TBls, TJwk2020, TSecp, TX25519, TEd2018, TEd2020}

var Purposes = []string{"authentication", "assertionMethod", "keyAgreement", "capabilityDelegation", "capabilityInvocation"}

// PurposeAllowed is the documented key type × purpose table.
func PurposeAllowed(typ, purpose string) bool {
	known := false
	for _, t := range DocKeyTypes {
		if t == typ {
			known = true
		}
	}
	if !known {
		return false
	}
	if purpose == "keyAgreement" {
		return typ == TBls || typ == TJwk2020 || typ == TSecp || typ == TX25519
	}
	for _, p := range Purposes {
		if p == purpose {
			return typ != TX25519
		}
	}
	return false
}

const b58Alphabet = "123456789ABCDEFGHJKLMNPQRSTUVWXYZabcdefghijkmnopqrstuvwxyz"

// B58 encodes bytes as base58 (bitcoin alphabet), own implementation.
func B58(b []byte) string {
	zeros := 0
	for zeros < len(b) && b[zeros] == 0 {
		zeros++
	}
	digits := []int{}
	for _, c := range b {
		carry := int(c)
		for i := range digits {
			carry += digits[i] << 8
			digits[i] = carry % 58
			carry /= 58
		}
		for carry > 0 {
			digits = append(digits, carry%58)
			carry /= 58
		}
	}
	var sb strings.Builder
	for i := 0; i < zeros; i++ {
		sb.WriteByte('1')
	}
	for i := len(digits) - 1; i >= 0; i-- {
		sb.WriteByte(b58Alphabet[digits[i]])
	}
	return sb.String()
}

// DocKey builds a document public key. material: "jwk" or "b58".
func DocKey(r *fw.Rand, id, typ string, purposes []string, material string) map[string]interface{} {
	k := map[string]interface{}{"id": id, "type": typ}
	if len(purposes) > 0 {
		ps := make([]interface{}, len(purposes))
		for i, p := range purposes {
			ps[i] = p
		}
		k["purposes"] = ps
	}
	switch material {
	case "b58":
		k["publicKeyBase58"] = B58(r.Bytes(32))
	default:
		k["publicKeyJwk"] = jwkForDocType(r, typ)
	}
	return k
}

func jwkForDocType(r *fw.Rand, typ string) map[string]interface{} {
	switch typ {
	case TEd2018, TEd2020:
		j := NewKey(r, Ed25519).PlainJWK()
		if r.Chance(1, 5) {
			j["y"] = "" // the form the library's own key model serializes for OKP keys
		}
		return j
	case TSecp:
		j := NewKey(r, Secp256k1).PlainJWK()
		if r.Chance(1, 4) {
			j["crv"] = "P-256K" // the older name of the curve, still in circulation
		}
		return j
	case TX25519:
		return map[string]interface{}{"kty": "OKP", "crv": "X25519", "x": oracle.B64(r.Bytes(32))}
	case TBls:
		return map[string]interface{}{"kty": "EC", "crv": "BLS12381_G2", "x": oracle.B64(r.Bytes(96))}
	}
	if r.Chance(1, 10) {
		// a complete RSA public key is a valid JsonWebKey2020 value too
		return map[string]interface{}{"kty": "RSA", "n": oracle.B64(r.Bytes(256)), "e": "AQAB"}
	}
	j := NewKey(r, fw.Pick(r, []string{Ed25519, P256, P384, Secp256k1})).PlainJWK()
	// JWKs may legitimately carry further members; they are key material and must survive every stage
	if r.Chance(1, 4) {
		for _, m := range pickDistinct(r, []string{"kid", "alg", "use", "key_ops", "d", "x5t"}, r.Range(1, 3)) {
			switch m {
			case "key_ops":
				j[m] = []interface{}{"verify"}
			case "d":
				j[m] = oracle.B64(r.Bytes(32))
			default:
				j[m] = "v-" + m
			}
		}
	}
	if r.Chance(1, 10) {
		j[fw.Pick(r, []string{"kid", "x5u", "ext"})] = nil // a member whose value is null is still a member
	}
	return j
}

// RandPurposes draws a valid purpose subset (possibly empty = general key) for typ.
func RandPurposes(r *fw.Rand, typ string) []string {
	var allowed []string
	for _, p := range Purposes {
		if PurposeAllowed(typ, p) {
			allowed = append(allowed, p)
		}
	}
	n := r.Intn(len(allowed) + 1)
	perm := r.Perm(len(allowed))
	var out []string
	for i := 0; i < n; i++ {
		out = append(out, allowed[perm[i]])
	}
	// a purpose may legitimately be listed twice (the validator only bounds the count)
	if len(out) >= 1 && len(out) <= 4 && r.Chance(1, 8) {
		out = append(out, out[r.Intn(len(out))])
	}
	return out
}

// RandDocKey draws a valid document key with the given id.
func RandDocKey(r *fw.Rand, id string) map[string]interface{} {
	typ := fw.Pick(r, DocKeyTypes)
	material := "jwk"
	if typ != TJwk2020 && r.Chance(1, 3) {
		material = "b58"
	}
	return DocKey(r, id, typ, RandPurposes(r, typ), material)
}

var svcTypes = []string{"LinkedDomains", "DIDCommMessaging", "hub", "CredentialRepository", "x", "ThirtyCharacterLongServiceType"}

// RandService draws a valid service.
func RandService(r *fw.Rand, id string) map[string]interface{} {
	s := map[string]interface{}{"id": id, "type": fw.Pick(r, svcTypes)}
	switch r.Intn(5) {
	case 0, 1:
		s["serviceEndpoint"] = fmt.Sprintf("https://svc%d.example.com/%d", r.Intn(50), r.Intn(1000))
		if r.Chance(1, 4) {
			// URIs as people write them, not as a normaliser would: capitals in scheme and host, escaped reserved characters and
			// lower-case hex in the path, a default port, a trailing number sign - kept as given
			s["serviceEndpoint"] = fw.Pick(r, []string{"https://Hub.Example.COM/Inbox", "HTTPS://svc.example.com/a", "https://example.com/files/a%2Fb", "https://example.com/%e2%82%ac", "https://example.com:443/x",
				"https://example.com/x#", "https://example.com/a%20b%20c", "https://EXAMPLE.com/%7Euser"}) + fmt.Sprint(r.Intn(10))
		}
	case 2:
		s["serviceEndpoint"] = []interface{}{fmt.Sprintf("https://a%d.example.com", r.Intn(50)), fmt.Sprintf("did:example:%d", r.Intn(1000))}
		if r.Chance(1, 3) {
			s["serviceEndpoint"] = []interface{}{fmt.Sprintf("https://Agent%d.Example.COM/In%%2Fbox", r.Intn(50)), fmt.Sprintf("did:example:%d", r.Intn(1000)), "HTTPS://b.example.com"}
		}
	case 3:
		s["serviceEndpoint"] = map[string]interface{}{"uri": fmt.Sprintf("https://o%d.example.com", r.Intn(50)), "accept": []interface{}{"didcomm/v2"}}
	case 4:
		s["serviceEndpoint"] = []interface{}{map[string]interface{}{"uri": fmt.Sprintf("https://l%d.example.com", r.Intn(50)), "routingKeys": []interface{}{"did:example:1#k"}}}
		if r.Bool() {
			// a list mixing URI strings and endpoint objects
			s["serviceEndpoint"] = append([]interface{}{fmt.Sprintf("https://m%d.example.com", r.Intn(50))}, s["serviceEndpoint"].([]interface{})...)
		}
	}
	if r.Chance(1, 3) {
		s["priority"] = r.Intn(5)
	}
	if r.Chance(1, 4) {
		s["recipientKeys"] = []interface{}{"did:example:123#key-1"}
	}
	if r.Chance(1, 6) {
		// empty containers are values like any other: they stay what they are ([] is not null, {} is not absent)
		switch r.Intn(4) {
		case 0:
			s["routingKeys"] = []interface{}{}
		case 1:
			s["properties"] = map[string]interface{}{}
		case 2:
			s["accept"] = []interface{}{}
			s["tags"] = []interface{}{[]interface{}{}, map[string]interface{}{}}
		case 3:
			if m, ok := s["serviceEndpoint"].(map[string]interface{}); ok && r.Bool() {
				m["routingKeys"] = nil
				s["note"] = nil
			} else if ok {
				m["routingKeys"] = []interface{}{}
			} else {
				s["recipientKeys"] = []interface{}{}
			}
		}
	}
	return s
}

var (
	KeyIDPool = []string{"key1", "key2", "key-3", "k_4", "K5", "signing", "k", strings.Repeat("Kk-_0", 10)} // incl. lengths 1 and 50
	SvcIDPool = []string{"svc1", "svc2", "hub-3", "s_4", "s", strings.Repeat("S9_-s", 10)}                  // incl. lengths 1 and 50
	// incl. pairs that differ as strings but normalise to the same URI (scheme case, percent-encoding): set semantics are by string
	URIPool = []string{"https://alice.example.com", "did:example:alice", "did:example:bob", "did:web:example.com", "urn:uuid:6d1d6e4c", "urn:uuid:7e2e7f5d", "mailto:alice@example.com",
		// longer than any id may be: URIs have no length limit
		"https://profiles.example.com/users/alice/public/identities/2024/primary?view=full&lang=en", "did:example:" + strings.Repeat("z", 70), "https://a.example/path?q=1", "http://blog.example.org/",
		"HTTPS://alice.example.com", "https://blog.example/caf%C3%A9", "https://blog.example/café"}
)

// uriClass groups pool URIs that normalise to the same URI: one patch (or one document list) may contain at most one of them,
// because validation treats them as duplicates; across patches they are different strings.
var uriClass = map[string]int{"https://alice.example.com": 1, "HTTPS://alice.example.com": 1, "https://blog.example/caf%C3%A9": 2, "https://blog.example/café": 2}

// PickURIs draws up to n distinct, pairwise non-equivalent URIs from the pool.
func PickURIs(r *fw.Rand, n int) []string {
	perm := r.Perm(len(URIPool))
	seen := map[int]bool{}
	var out []string
	for _, i := range perm {
		if len(out) >= n {
			break
		}
		u := URIPool[i]
		if c := uriClass[u]; c != 0 {
			if seen[c] {
				continue
			}
			seen[c] = true
		}
		out = append(out, u)
	}
	return out
}

func pickDistinct(r *fw.Rand, pool []string, n int) []string {
	if n > len(pool) {
		n = len(pool)
	}
	perm := r.Perm(len(pool))
	out := make([]string, n)
	for i := 0; i < n; i++ {
		out[i] = pool[perm[i]]
	}
	return out
}

func toIface(ss []string) []interface{} {
	out := make([]interface{}, len(ss))
	for i, s := range ss {
		out[i] = s
	}
	return out
}

// Patch constructors (generic JSON).
func PAddKeys(keys ...map[string]interface{}) map[string]interface{} {
	l := make([]interface{}, len(keys))
	for i, k := range keys {
		l[i] = k
	}
	return map[string]interface{}{"action": "add-public-keys", "publicKeys": l}
}

func PRemoveKeys(ids ...string) map[string]interface{} {
	return map[string]interface{}{"action": "remove-public-keys", "ids": toIface(ids)}
}

func PAddServices(svcs ...map[string]interface{}) map[string]interface{} {
	l := make([]interface{}, len(svcs))
	for i, k := range svcs {
		l[i] = k
	}
	return map[string]interface{}{"action": "add-services", "services": l}
}

func PRemoveServices(ids ...string) map[string]interface{} {
	return map[string]interface{}{"action": "remove-services", "ids": toIface(ids)}
}

func PAddAka(uris ...string) map[string]interface{} {
	return map[string]interface{}{"action": "add-also-known-as", "uris": toIface(uris)}
}

func PRemoveAka(uris ...string) map[string]interface{} {
	return map[string]interface{}{"action": "remove-also-known-as", "uris": toIface(uris)}
}

func PReplace(keys, svcs []interface{}) map[string]interface{} {
	d := map[string]interface{}{}
	if keys != nil {
		d["publicKeys"] = keys
	}
	if svcs != nil {
		d["services"] = svcs
	}
	return map[string]interface{}{"action": "replace", "document": d}
}

func PJSON(ops ...interface{}) map[string]interface{} {
	return map[string]interface{}{"action": "ietf-json-patch", "patches": ops}
}

// AllActions lists the eight patch actions.
var AllActions = []string{"replace", "add-public-keys", "remove-public-keys", "add-services", "remove-services",
	"ietf-json-patch", "add-also-known-as", "remove-also-known-as"}

// ListLen draws a list length: mostly 1..max, occasionally a longer list (up to the pool size) so that the fifth
// and later entries of a patch value are exercised too.
func ListLen(r *fw.Rand, max, pool int) int {
	if r.Chance(1, 10) {
		return r.Range(min(5, pool), pool)
	}
	return r.Range(1, max)
}

// RandKeys draws n valid keys with distinct ids from the pool.
func RandKeys(r *fw.Rand, n int) []interface{} {
	var out []interface{}
	for _, id := range pickDistinct(r, KeyIDPool, n) {
		out = append(out, RandDocKey(r, id))
	}
	return out
}

func RandServices(r *fw.Rand, n int) []interface{} {
	var out []interface{}
	for _, id := range pickDistinct(r, SvcIDPool, n) {
		out = append(out, RandService(r, id))
	}
	return out
}

// RandSimplePatch draws a valid patch of one of the seven non-ietf actions.
func RandSimplePatch(r *fw.Rand) map[string]interface{} {
	switch r.Intn(9) {
	case 0, 1:
		return map[string]interface{}{"action": "add-public-keys", "publicKeys": RandKeys(r, ListLen(r, 3, len(KeyIDPool)))}
	case 2:
		return PRemoveKeys(pickDistinct(r, KeyIDPool, ListLen(r, 3, len(KeyIDPool)))...)
	case 3, 4:
		return map[string]interface{}{"action": "add-services", "services": RandServices(r, ListLen(r, 2, len(SvcIDPool)))}
	case 5:
		return PRemoveServices(pickDistinct(r, SvcIDPool, ListLen(r, 2, len(SvcIDPool)))...)
	case 6:
		return PAddAka(PickURIs(r, ListLen(r, 3, 6))...)
	case 7:
		return PRemoveAka(PickURIs(r, ListLen(r, 2, 6))...)
	}
	var keys, svcs []interface{}
	if r.Chance(4, 5) {
		keys = RandKeys(r, r.Range(1, 3))
	}
	if r.Chance(3, 5) {
		svcs = RandServices(r, r.Range(1, 2))
	}
	if keys == nil && svcs == nil {
		keys = RandKeys(r, 1)
	}
	if r.Chance(1, 12) {
		// long lists: more entries than any sample a log line or a pre-sized buffer would hold
		n := r.Range(11, 14)
		if r.Bool() {
			keys = nil
			for i := 0; i < n; i++ {
				keys = append(keys, RandDocKey(r, fmt.Sprintf("bulk%d", i)))
			}
		} else {
			svcs = nil
			for i := 0; i < n; i++ {
				svcs = append(svcs, RandService(r, fmt.Sprintf("bulksvc%d", i)))
			}
		}
	}
	return PReplace(keys, svcs)
}

// MemberNames are ordinary free member names used by ietf-json-patch generators.
var MemberNames = []string{"foo", "bar", "controller", "x", "meta", "tags", "a~b", "c/d", "publicKeys2", "svc", "nested"}

// RandJSONValue draws a small JSON value (ints only, so that number spelling is stable).
func RandJSONValue(r *fw.Rand, depth int) interface{} {
	k := r.Intn(7)
	if depth <= 0 && k >= 5 {
		k = r.Intn(5)
	}
	switch k {
	case 0:
		return r.Intn(2000) - 1000
	case 1:
		return fw.Pick(r, []string{"", "v", "hello", "ü", "a b", "0", "a\\u003cb", "<tag>&amp;", "q\"uote", "back\\slash", "line\nbreak", "\\u0026", "tab\there", "100%"})
	case 2:
		return r.Bool()
	case 3:
		return nil
	case 4:
		return float64(r.Intn(100)) + 0.5
	case 5:
		n := r.Intn(4)
		l := make([]interface{}, n)
		for i := range l {
			l[i] = RandJSONValue(r, depth-1)
		}
		return l
	}
	n := r.Intn(4)
	m := map[string]interface{}{}
	for i := 0; i < n; i++ {
		m[fw.Pick(r, []string{"a", "b", "c", "d", "k~", "s/l"})] = RandJSONValue(r, depth-1)
	}
	return m
}

// pathsOf enumerates pointers of existing locations (excluding the root), with
// container flags, skipping the protected members.
type loc struct {
	Ptr   string
	Toks  []string
	IsArr bool
	IsObj bool
	Len   int
	InArr bool // the location is an array element
}

func collectLocs(v interface{}, toks []string, inArr bool, out *[]loc, skipTop map[string]bool) {
	if len(toks) > 0 {
		l := loc{Toks: append([]string{}, toks...), InArr: inArr}
		var sb strings.Builder
		for _, t := range toks {
			sb.WriteByte('/')
			sb.WriteString(oracle.EscapeToken(t))
		}
		l.Ptr = sb.String()
		switch t := v.(type) {
		case []interface{}:
			l.IsArr = true
			l.Len = len(t)
		case map[string]interface{}:
			l.IsObj = true
			l.Len = len(t)
		}
		*out = append(*out, l)
	}
	switch t := v.(type) {
	case map[string]interface{}:
		keys := make([]string, 0, len(t))
		for k := range t {
			keys = append(keys, k)
		}
		oracle.SortUTF16(keys)
		for _, k := range keys {
			if len(toks) == 0 && skipTop[k] {
				continue
			}
			collectLocs(t[k], append(toks, k), false, out, skipTop)
		}
	case []interface{}:
		for i, e := range t {
			collectLocs(e, append(toks, fmt.Sprint(i)), true, out, skipTop)
		}
	}
}

var protectedTop = map[string]bool{"publicKey": true, "service": true}

func startsProtected(name string) bool {
	return strings.HasPrefix(name, "publicKey") || strings.HasPrefix(name, "service")
}

// RandValidJSONPatch draws a list of 1..maxOps RFC 6902 operations that are
// valid on doc (applied in sequence), never touching or naming the protected
// members (or any top-level name beginning with them), never using the root
// pointer, and - unless allowAliasRisk - never modifying below a location that
// an earlier `copy` of a container shares (json-patch v4.1.0 aliases copies).
func RandValidJSONPatch(r *fw.Rand, doc map[string]interface{}, maxOps int, allowAliasRisk bool) (ops []interface{}, copiedContainer bool) {
	cur := oracle.DeepCopy(doc)
	n := r.Range(1, maxOps)
	for len(ops) < n {
		var locs []loc
		collectLocs(cur, nil, false, &locs, protectedTop)
		var op map[string]interface{}
		freshName := func() string {
			for i := 0; i < 20; i++ {
				nm := fw.Pick(r, MemberNames)
				if !startsProtected(nm) {
					return nm
				}
			}
			return "foo"
		}
		// destination for add-like ops: new member of an object, or array slot
		destination := func() string {
			var conts []loc
			for _, l := range locs {
				if l.IsArr || l.IsObj {
					conts = append(conts, l)
				}
			}
			if len(conts) == 0 || r.Chance(1, 2) {
				return "/" + oracle.EscapeToken(freshName())
			}
			c := fw.Pick(r, conts)
			if c.IsArr {
				if r.Chance(1, 3) {
					return c.Ptr + "/-"
				}
				return fmt.Sprintf("%s/%d", c.Ptr, r.Intn(c.Len+1))
			}
			return c.Ptr + "/" + oracle.EscapeToken(fw.Pick(r, []string{"a", "b", "n1", "k~", "s/l", "z"}))
		}
		kind := r.Intn(6)
		if len(locs) == 0 {
			kind = 0
		}
		switch kind {
		case 0:
			op = map[string]interface{}{"op": "add", "path": destination(), "value": RandJSONValue(r, 2)}
		case 1:
			op = map[string]interface{}{"op": "remove", "path": fw.Pick(r, locs).Ptr}
		case 2:
			op = map[string]interface{}{"op": "replace", "path": fw.Pick(r, locs).Ptr, "value": RandJSONValue(r, 2)}
		case 3:
			from := fw.Pick(r, locs)
			dst := destination()
			op = map[string]interface{}{"op": "move", "from": from.Ptr, "path": dst}
		case 4:
			from := fw.Pick(r, locs)
			dst := destination()
			if !allowAliasRisk && (from.IsArr || from.IsObj) {
				// copying a container: only as the final operation
				if len(ops) != n-1 {
					continue
				}
			}
			if strings.HasPrefix(dst, from.Ptr+"/") {
				continue // copy into own subtree: C19 class, not generated here
			}
			if from.IsArr || from.IsObj {
				copiedContainer = true
			}
			op = map[string]interface{}{"op": "copy", "from": from.Ptr, "path": dst}
		case 5:
			l := fw.Pick(r, locs)
			v, _ := oracle.ApplyRFC6902(cur, []interface{}{}, oracle.Quirks{})
			_ = v
			toks, _ := oracle.ParsePointer(l.Ptr)
			val := lookup(cur, toks)
			op = map[string]interface{}{"op": "test", "path": l.Ptr, "value": oracle.DeepCopy(val)}
		}
		nx, err := oracle.ApplyRFC6902(cur, []interface{}{op}, oracle.Quirks{})
		if err != nil {
			continue // not valid on the current document: draw again
		}
		if _, ok := nx.(map[string]interface{}); !ok {
			continue
		}
		cur = nx
		ops = append(ops, op)
	}
	return ops, copiedContainer
}

func lookup(v interface{}, toks []string) interface{} {
	for _, t := range toks {
		switch c := v.(type) {
		case map[string]interface{}:
			v = c[t]
		case []interface{}:
			i := 0
			fmt.Sscan(t, &i)
			if i < len(c) {
				v = c[i]
			} else {
				return nil
			}
		}
	}
	return v
}
