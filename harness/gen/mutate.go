package gen

import (
	"encoding/json"
	"fmt"
	"strconv"

	"verifharness/fw"
	"verifharness/oracle"
)

// path element into a generic JSON value
type pstep struct {
	key string
	idx int
	arr bool
}

func leafPaths(v interface{}, cur []pstep, out *[][]pstep) {
	switch t := v.(type) {
	case map[string]interface{}:
		*out = append(*out, append([]pstep{}, cur...))
		keys := make([]string, 0, len(t))
		for k := range t {
			keys = append(keys, k)
		}
		sortStrings(keys)
		for _, k := range keys {
			leafPaths(t[k], append(cur, pstep{key: k}), out)
		}
	case []interface{}:
		*out = append(*out, append([]pstep{}, cur...))
		for i, e := range t {
			leafPaths(e, append(cur, pstep{idx: i, arr: true}), out)
		}
	default:
		*out = append(*out, append([]pstep{}, cur...))
	}
}

func getAt(v interface{}, p []pstep) interface{} {
	for _, s := range p {
		if s.arr {
			v = v.([]interface{})[s.idx]
		} else {
			v = v.(map[string]interface{})[s.key]
		}
	}
	return v
}

func setAt(root interface{}, p []pstep, nv interface{}) interface{} {
	if len(p) == 0 {
		return nv
	}
	parent := getAt(root, p[:len(p)-1])
	last := p[len(p)-1]
	if last.arr {
		parent.([]interface{})[last.idx] = nv
	} else {
		parent.(map[string]interface{})[last.key] = nv
	}
	return root
}

func pathString(p []pstep) string {
	s := ""
	for _, e := range p {
		if e.arr {
			s += "[" + strconv.Itoa(e.idx) + "]"
		} else {
			s += "." + e.key
		}
	}
	if s == "" {
		return "(root)"
	}
	return s
}

// MutateValue returns a deep copy of v with exactly one point changed (a
// scalar altered, a member added/removed/renamed, an element added/removed/
// swapped) such that the result is a different JSON value, plus a description.
// ok=false if no mutation could be produced.
func MutateValue(r *fw.Rand, v interface{}) (interface{}, string, bool) {
	for tries := 0; tries < 20; tries++ {
		c := oracle.DeepCopy(v)
		var paths [][]pstep
		leafPaths(c, nil, &paths)
		p := paths[r.Intn(len(paths))]
		cur := getAt(c, p)
		desc := ""
		switch t := cur.(type) {
		case map[string]interface{}:
			switch r.Intn(3) {
			case 0:
				name := "added" + strconv.Itoa(r.Intn(100))
				t[name] = r.Intn(10)
				desc = "add member " + name
			case 1:
				for k := range t {
					delete(t, k)
					desc = "remove member " + k
					break
				}
			default:
				for k, val := range t {
					delete(t, k)
					t[k+"x"] = val
					desc = "rename member " + k
					break
				}
			}
		case []interface{}:
			if len(p) == 0 && len(t) == 0 {
				c = []interface{}{nil}
				desc = "add element"
				break
			}
			switch r.Intn(3) {
			case 0:
				c = setAt(c, p, append(t, nil))
				desc = "append element"
			case 1:
				if len(t) > 0 {
					c = setAt(c, p, append([]interface{}{}, t[1:]...))
					desc = "drop first element"
				}
			default:
				if len(t) > 1 {
					t[0], t[len(t)-1] = t[len(t)-1], t[0]
					desc = "swap elements"
				}
			}
		case string:
			if len(p) == 0 {
				continue
			}
			if len(t) > 0 && r.Bool() {
				b := []rune(t)
				i := r.Intn(len(b))
				if b[i] == 'A' {
					b[i] = 'B'
				} else {
					b[i] = 'A'
				}
				c = setAt(c, p, string(b))
				desc = "change one character"
			} else {
				c = setAt(c, p, t+"x")
				desc = "append character"
			}
		case nil:
			if len(p) == 0 {
				continue
			}
			c = setAt(c, p, false)
			desc = "null -> false"
		case bool:
			if len(p) == 0 {
				continue
			}
			c = setAt(c, p, !t)
			desc = "flip bool"
		default:
			if len(p) == 0 {
				continue
			}
			f, ok := numOf(cur)
			if !ok {
				continue
			}
			c = setAt(c, p, f+1)
			desc = "number + 1"
		}
		if desc == "" {
			continue
		}
		if oracle.JSONEqual(c, v) {
			continue
		}
		return c, fmt.Sprintf("%s at %s", desc, pathString(p)), true
	}
	return nil, "", false
}

func numOf(v interface{}) (float64, bool) {
	switch t := v.(type) {
	case float64:
		return t, true
	case int:
		return float64(t), true
	case int64:
		return float64(t), true
	case json.Number:
		f, err := strconv.ParseFloat(string(t), 64)
		return f, err == nil
	}
	return 0, false
}

// Path addresses a position inside a generic JSON value.
type Path []pstep

// AllPaths lists every position (containers and leaves, root included).
func AllPaths(v interface{}) []Path {
	var raw [][]pstep
	leafPaths(v, nil, &raw)
	out := make([]Path, len(raw))
	for i, p := range raw {
		out[i] = Path(p)
	}
	return out
}

// ReplaceAt returns a deep copy of v with the value at p replaced by nv.
func ReplaceAt(v interface{}, p Path, nv interface{}) interface{} {
	c := oracle.DeepCopy(v)
	return setAt(c, []pstep(p), oracle.DeepCopy(nv))
}

// RemoveAt returns a deep copy of v with the member / element at p removed (nil for the root).
func RemoveAt(v interface{}, p Path) interface{} {
	if len(p) == 0 {
		return nil
	}
	c := oracle.DeepCopy(v)
	parent := getAt(c, []pstep(p[:len(p)-1]))
	last := p[len(p)-1]
	if last.arr {
		l := parent.([]interface{})
		nl := append(append([]interface{}{}, l[:last.idx]...), l[last.idx+1:]...)
		return setAt(c, []pstep(p[:len(p)-1]), nl)
	}
	delete(parent.(map[string]interface{}), last.key)
	return c
}

// ValueAt returns the value at p.
func ValueAt(v interface{}, p Path) interface{} { return getAt(v, []pstep(p)) }
