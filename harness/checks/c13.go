package checks

import (
	"fmt"
	"github.com/trustbloc/sidetree-go/pkg/patch"
	"strings"

	"github.com/trustbloc/sidetree-go/pkg/versions/1_0/docvalidator/didvalidator"
	"github.com/trustbloc/sidetree-go/pkg/versions/1_0/docvalidator/docvalidator"
	"github.com/trustbloc/sidetree-go/pkg/versions/1_0/operationparser/patchvalidator"

	"verifharness/fw"
	"verifharness/gen"
	"verifharness/oracle"
	"verifharness/sut"
)

func init() {
	fw.Register(&fw.Check{
		ID:          "C13",
		Rule:        "cases: a finite labelled matrix, enumerated completely: for each action a valid patch in several shapes and one mutation per documented constraint (id lengths 0/1/50/51 and every forbidden character class for keys, services and remove lists; duplicate ids; missing type; both/neither of JWK and base58; JWK without kty/crv/x, RSA without n/e; JsonWebKey2020 with base58; each forbidden extra member; purposes empty/unknown/six; the full 6 key types x 5 purposes matrix plus general keys and an unknown type; service type lengths 0/30/31; endpoint missing, empty, invalid URI, list whose k-th string entry (k=1..3) is invalid; also-known-as unparsable/duplicate; empty remove lists; replace documents with a foreign member or an invalid key/service), every key/service mutation in both the add-* and the replace context; original documents with/without id and @context; plus random valid patches that must all pass. The label (not a re-parse) gives the expected verdict. distinct = distinct labelled case names + shapes of random valid patches.",
		Assumptions: []string{"rule table transcribed from the property statement and the documented key-type/purpose table"},
		Exhaustive:  func(string) bool { return true },
		Require:     []string{"labelled-valid", "labelled-invalid", "matrix", "random-valid", "original-documents"},
		Run:         runC13,
	})
}

type labelled struct {
	name  string
	patch map[string]interface{}
	valid bool
}

func cloneMap(m map[string]interface{}) map[string]interface{} {
	return oracle.DeepCopy(m).(map[string]interface{})
}

func strOf(n int, ch string) string { return strings.Repeat(ch, n) }

// baseKey is a valid JsonWebKey2020 key with one purpose.
func baseKey(r *fw.Rand, id string) map[string]interface{} {
	return gen.DocKey(r, id, gen.TJwk2020, []string{"authentication"}, "jwk")
}

func baseService(id string) map[string]interface{} {
	return map[string]interface{}{"id": id, "type": "LinkedDomains", "serviceEndpoint": "https://example.com/endpoint"}
}

type mut struct {
	name  string
	valid bool
	f     func(m map[string]interface{})
}

var idMutations = []struct {
	name  string
	id    string
	valid bool
}{
	{"id-empty", "", false}, {"id-1-char", "a", true}, {"id-50-chars", strOf(50, "a"), true}, {"id-51-chars", strOf(51, "a"), false},
	{"id-all-allowed-classes", "Az09_-", true}, {"id-space", "a b", false}, {"id-dot", "a.b", false}, {"id-hash", "#key", false},
	{"id-colon", "a:b", false}, {"id-slash", "a/b", false}, {"id-non-ascii", "kéy", false}, {"id-trailing-newline", "key\n", false},
	{"id-leading-newline", "\nkey", false}, {"id-tab", "a\tb", false}, {"id-plus", "a+b", false}, {"id-equals", "a=b", false}, {"id-percent", "a%20b", false},
	{"id-nul", "a\x00b", false}, {"id-50-mixed", strOf(25, "A_") /* 50 */, true}, {"id-51-mixed", strOf(25, "A_") + "-", false},
}

// over-long ids of every size class, in particular lengths that are small again modulo 2^8 / 2^16
func init() {
	for _, n := range []int{52, 64, 100, 255, 256, 257, 280, 306, 307, 511, 512, 540, 1024, 4096, 65535, 65536, 65537, 65566, 65586} {
		idMutations = append(idMutations, struct {
			name  string
			id    string
			valid bool
		}{fmt.Sprintf("id-%d-chars", n), strOf(n, "a"), false})
	}
}

// every ASCII character outside [A-Za-z0-9_-] (and a few non-ASCII ones) must be refused inside an id
func init() {
	for ch := 0; ch < 128; ch++ {
		c := byte(ch)
		if (c >= 'A' && c <= 'Z') || (c >= 'a' && c <= 'z') || (c >= '0' && c <= '9') || c == '_' || c == '-' {
			continue
		}
		idMutations = append(idMutations, struct {
			name  string
			id    string
			valid bool
		}{fmt.Sprintf("id-char-0x%02x", ch), "a" + string(rune(ch)) + "b", false})
	}
	for _, rn := range []rune{0x80, 0xe9, 0x2028, 0xff21, 0x1f600} {
		idMutations = append(idMutations, struct {
			name  string
			id    string
			valid bool
		}{fmt.Sprintf("id-char-U+%04X", rn), "a" + string(rn), false})
	}
}

func keyMutations(r *fw.Rand) []mut {
	ms := []mut{}
	for _, im := range idMutations {
		im := im
		ms = append(ms, mut{"key-" + im.name, im.valid, func(m map[string]interface{}) { m["id"] = im.id }})
	}
	rsaJWK := map[string]interface{}{"kty": "RSA", "n": "sXchDaQebHnPiGvyDOAT4saGEUetSyo9MKLOoWFsueri23bOdgWp4Dy1WlUzewbgBHod5pcM9H95GQRV3JDXboIRROSBigeC5yjU1hGzHHyXss8UDprecbAYxknTcQkhslANGRUZmdTOQ5qTRsLAt6BTYuyvVRdhS8exSZEy_c4gs_7svlJJQ4H9_NxsiIoLwAEk7-Q3UXERGYw_75IDrGA84-lA_-Ct4eTlXHBIY2EaV7t7LjJaynVJCpkv4LKjTTAumiGUIuQhrNhZLuF_RJLqHpM2kgWFLU7-VTdL1VbC2tejvcI2BlMkEpk1BzBZI0KQB0GaDWFLN-aEAw3vRw", "e": "AQAB"}
	ms = append(ms,
		mut{"key-missing-id", false, func(m map[string]interface{}) { delete(m, "id") }},
		mut{"key-missing-type", false, func(m map[string]interface{}) { delete(m, "type") }},
		mut{"key-type-empty", false, func(m map[string]interface{}) { m["type"] = "" }},
		mut{"key-type-unknown", false, func(m map[string]interface{}) { m["type"] = "FooVerificationKey2099" }},
		mut{"key-type-lower-case", false, func(m map[string]interface{}) { m["type"] = "jsonwebkey2020" }},
		mut{"key-type-trailing-space", false, func(m map[string]interface{}) { m["type"] = "JsonWebKey2020 " }},
		mut{"key-purpose-wrong-case", false, func(m map[string]interface{}) { m["purposes"] = []interface{}{"Authentication"} }},
		mut{"key-purpose-trailing-space", false, func(m map[string]interface{}) { m["purposes"] = []interface{}{"authentication "} }},
		mut{"key-purposes-duplicate-within-five", true, func(m map[string]interface{}) {
			m["purposes"] = []interface{}{"authentication", "assertionMethod", "authentication"}
		}},
		mut{"key-purposes-five-known-plus-a-repeat", false, func(m map[string]interface{}) {
			m["type"] = gen.TJwk2020
			m["purposes"] = []interface{}{"authentication", "assertionMethod", "keyAgreement", "capabilityInvocation", "capabilityDelegation", "authentication"}
		}},
		mut{"key-purposes-seven-with-repeats", false, func(m map[string]interface{}) {
			m["type"] = gen.TJwk2020
			m["purposes"] = []interface{}{"authentication", "authentication", "authentication", "assertionMethod", "assertionMethod", "keyAgreement", "keyAgreement"}
		}},
		mut{"key-type-unknown-no-purposes", false, func(m map[string]interface{}) { m["type"] = "FooVerificationKey2099"; delete(m, "purposes") }},
		mut{"key-both-jwk-and-base58", false, func(m map[string]interface{}) { m["publicKeyBase58"] = gen.B58(r.Bytes(32)) }},
		mut{"key-neither-jwk-nor-base58", false, func(m map[string]interface{}) { delete(m, "publicKeyJwk") }},
		// key material under a name other verification-method formats use, instead of JWK / base58
		mut{"key-ed2020-only-multibase-material", false, func(m map[string]interface{}) {
			m["type"] = gen.TEd2020
			delete(m, "publicKeyJwk")
			m["publicKeyMultibase"] = "z6MkpTHR8VNsBxYAAWHut2Geadd9jSwuBV8xRoAnwWsdvktH"
		}},
		mut{"key-only-foreign-material-member", false, func(m map[string]interface{}) {
			delete(m, "publicKeyJwk")
			m[fw.Pick(r, []string{"publicKeyMultibase", "publicKeyHex", "publicKeyPem", "publicKeyBase64", "blockchainAccountId"})] = "zQ3shokFTS3brHcDQrn82RUDfCZESWL1ZdCEJwekUDPQiYBme"
		}},
		mut{"key-jwk2020-with-base58", false, func(m map[string]interface{}) { delete(m, "publicKeyJwk"); m["publicKeyBase58"] = gen.B58(r.Bytes(32)) }},
		mut{"key-ed2018-with-base58", true, func(m map[string]interface{}) {
			m["type"] = gen.TEd2018
			delete(m, "publicKeyJwk")
			m["publicKeyBase58"] = gen.B58(r.Bytes(32))
		}},
		mut{"key-base58-empty", false, func(m map[string]interface{}) {
			m["type"] = gen.TEd2018
			delete(m, "publicKeyJwk")
			m["publicKeyBase58"] = ""
		}},
		// (on an EC JWK: the base key may be an RSA one, which has neither crv nor x)
		mut{"key-jwk-without-kty", false, func(m map[string]interface{}) {
			m["publicKeyJwk"] = gen.NewKey(r, gen.P256).JWK()
			delete(m["publicKeyJwk"].(map[string]interface{}), "kty")
		}},
		mut{"key-jwk-without-crv", false, func(m map[string]interface{}) {
			m["publicKeyJwk"] = gen.NewKey(r, gen.P256).JWK()
			delete(m["publicKeyJwk"].(map[string]interface{}), "crv")
		}},
		mut{"key-jwk-without-x", false, func(m map[string]interface{}) {
			m["publicKeyJwk"] = gen.NewKey(r, gen.P256).JWK()
			delete(m["publicKeyJwk"].(map[string]interface{}), "x")
		}},
		mut{"key-jwk-empty-object", false, func(m map[string]interface{}) { m["publicKeyJwk"] = map[string]interface{}{} }},
		mut{"key-jwk-kty-null", false, func(m map[string]interface{}) {
			m["publicKeyJwk"] = gen.NewKey(r, gen.P256).JWK()
			m["publicKeyJwk"].(map[string]interface{})["kty"] = nil
		}},
		mut{"key-jwk-kty-not-a-string", false, func(m map[string]interface{}) {
			m["publicKeyJwk"] = gen.NewKey(r, gen.P256).JWK()
			m["publicKeyJwk"].(map[string]interface{})["kty"] = fw.Pick(r, []interface{}{1, true, []interface{}{"EC"}, map[string]interface{}{"kty": "EC"}})
		}},
		mut{"key-jwk-crv-not-a-string", false, func(m map[string]interface{}) {
			m["publicKeyJwk"] = gen.NewKey(r, gen.P256).JWK()
			m["publicKeyJwk"].(map[string]interface{})["crv"] = fw.Pick(r, []interface{}{nil, 256, []interface{}{}, map[string]interface{}{}})
		}},
		mut{"key-jwk-x-not-a-string", false, func(m map[string]interface{}) {
			m["publicKeyJwk"] = gen.NewKey(r, gen.P256).JWK()
			m["publicKeyJwk"].(map[string]interface{})["x"] = fw.Pick(r, []interface{}{nil, 12345, false, []interface{}{"AA"}, map[string]interface{}{"x": "AA"}})
		}},
		mut{"key-rsa-jwk-n-or-e-not-a-string", false, func(m map[string]interface{}) {
			j := cloneMap(rsaJWK)
			j[fw.Pick(r, []string{"n", "e"})] = fw.Pick(r, []interface{}{nil, 65537, []interface{}{}, map[string]interface{}{}})
			m["publicKeyJwk"] = j
		}},
		mut{"key-rsa-jwk", true, func(m map[string]interface{}) { m["publicKeyJwk"] = cloneMap(rsaJWK) }},
		mut{"key-rsa-jwk-without-n", false, func(m map[string]interface{}) { j := cloneMap(rsaJWK); delete(j, "n"); m["publicKeyJwk"] = j }},
		mut{"key-rsa-jwk-without-e", false, func(m map[string]interface{}) { j := cloneMap(rsaJWK); delete(j, "e"); m["publicKeyJwk"] = j }},
		mut{"key-purposes-empty-list", false, func(m map[string]interface{}) { m["purposes"] = []interface{}{} }},
		mut{"key-id-empty-with-kid-in-jwk", false, func(m map[string]interface{}) {
			m["id"] = ""
			if j, ok := m["publicKeyJwk"].(map[string]interface{}); ok {
				j["kid"] = "key1"
			}
		}},
		mut{"key-id-missing-with-kid-in-jwk", false, func(m map[string]interface{}) {
			delete(m, "id")
			if j, ok := m["publicKeyJwk"].(map[string]interface{}); ok {
				j["kid"] = "key1"
			}
		}},
		mut{"key-jwk-okp-without-crv", false, func(m map[string]interface{}) {
			m["type"] = gen.TEd2018
			m["publicKeyJwk"] = map[string]interface{}{"kty": "OKP", "x": "11qYAYKxCrfVS_7TyWQHOg7hcvPapiMlrwIaaPcHURo"}
		}},
		mut{"key-purposes-null", false, func(m map[string]interface{}) { m["purposes"] = nil }},
		mut{"key-purposes-not-a-list", false, func(m map[string]interface{}) { m["purposes"] = "authentication" }},
		mut{"key-extra-member-with-empty-name", false, func(m map[string]interface{}) { m[""] = "x" }},
		mut{"key-extra-member-with-empty-name-null", false, func(m map[string]interface{}) { m[""] = nil }},
		mut{"key-extra-member-blank-name", false, func(m map[string]interface{}) { m[" "] = 1 }},
		mut{"key-type-null", false, func(m map[string]interface{}) { m["type"] = nil }},
		mut{"key-jwk-null-with-jwk-type", false, func(m map[string]interface{}) { m["type"] = gen.TJwk2020; m["publicKeyJwk"] = nil }},
		mut{"key-purposes-unknown", false, func(m map[string]interface{}) { m["purposes"] = []interface{}{"signing"} }},
		mut{"key-purposes-unknown-second", false, func(m map[string]interface{}) { m["purposes"] = []interface{}{"authentication", "Authentication"} }},
		mut{"key-purposes-six", false, func(m map[string]interface{}) {
			m["purposes"] = []interface{}{"authentication", "assertionMethod", "keyAgreement", "capabilityDelegation", "capabilityInvocation", "authentication"}
		}},
		mut{"key-purposes-five", true, func(m map[string]interface{}) {
			m["purposes"] = []interface{}{"authentication", "assertionMethod", "keyAgreement", "capabilityDelegation", "capabilityInvocation"}
		}},
		mut{"key-no-purposes-general", true, func(m map[string]interface{}) { delete(m, "purposes") }},
	)
	for _, extra := range []string{"controller", "foo", "publicKeyMultibase", "publicKeyHex", "Purposes", "usage", "publicKeyPem"} {
		extra := extra
		ms = append(ms, mut{"key-extra-member-" + extra, false, func(m map[string]interface{}) { m[extra] = "x" }})
	}
	return ms
}

func serviceMutations() []mut {
	ms := []mut{}
	for _, im := range idMutations {
		im := im
		ms = append(ms, mut{"service-" + im.name, im.valid, func(m map[string]interface{}) { m["id"] = im.id }})
	}
	ok, bad := "https://ok.example/path", "not a uri"
	ms = append(ms,
		mut{"service-missing-id", false, func(m map[string]interface{}) { delete(m, "id") }},
		mut{"service-missing-type", false, func(m map[string]interface{}) { delete(m, "type") }},
		mut{"service-type-empty", false, func(m map[string]interface{}) { m["type"] = "" }},
		mut{"service-type-1", true, func(m map[string]interface{}) { m["type"] = "t" }},
		mut{"service-type-30", true, func(m map[string]interface{}) { m["type"] = strOf(30, "t") }},
		mut{"service-type-31", false, func(m map[string]interface{}) { m["type"] = strOf(31, "t") }},
		mut{"service-type-32", false, func(m map[string]interface{}) { m["type"] = strOf(32, "t") }},
		mut{"service-type-255", false, func(m map[string]interface{}) { m["type"] = strOf(255, "t") }},
		mut{"service-type-256", false, func(m map[string]interface{}) { m["type"] = strOf(256, "t") }},
		mut{"service-type-270", false, func(m map[string]interface{}) { m["type"] = strOf(270, "t") }},
		mut{"service-type-286", false, func(m map[string]interface{}) { m["type"] = strOf(286, "t") }},
		mut{"service-type-512", false, func(m map[string]interface{}) { m["type"] = strOf(512, "t") }},
		mut{"service-type-65536", false, func(m map[string]interface{}) { m["type"] = strOf(65536, "t") }},
		mut{"service-type-65546", false, func(m map[string]interface{}) { m["type"] = strOf(65546, "t") }},
		mut{"service-endpoint-missing", false, func(m map[string]interface{}) { delete(m, "serviceEndpoint") }},
		mut{"service-endpoint-null", false, func(m map[string]interface{}) { m["serviceEndpoint"] = nil }},
		mut{"service-endpoint-empty-string", false, func(m map[string]interface{}) { m["serviceEndpoint"] = "" }},
		mut{"service-endpoint-invalid-uri", false, func(m map[string]interface{}) { m["serviceEndpoint"] = bad }},
		mut{"service-endpoint-relative", false, func(m map[string]interface{}) { m["serviceEndpoint"] = "relative/path" }},
		mut{"service-endpoint-bad-host", false, func(m map[string]interface{}) { m["serviceEndpoint"] = "http://[::1" }},
		mut{"service-endpoint-did", true, func(m map[string]interface{}) { m["serviceEndpoint"] = "did:example:123456789abcdefghi" }},
		mut{"service-endpoint-urn", true, func(m map[string]interface{}) { m["serviceEndpoint"] = "urn:uuid:f81d4fae-7dec-11d0-a765-00a0c91e6bf6" }},
		mut{"service-endpoint-list-all-valid", true, func(m map[string]interface{}) { m["serviceEndpoint"] = []interface{}{ok, "did:example:1", ok + "/2"} }},
		mut{"service-endpoint-list-1st-invalid", false, func(m map[string]interface{}) { m["serviceEndpoint"] = []interface{}{bad, ok, ok} }},
		mut{"service-endpoint-list-2nd-invalid", false, func(m map[string]interface{}) { m["serviceEndpoint"] = []interface{}{ok, bad, ok} }},
		mut{"service-endpoint-list-3rd-invalid", false, func(m map[string]interface{}) { m["serviceEndpoint"] = []interface{}{ok, ok, bad} }},
		mut{"service-endpoint-list-2nd-empty", false, func(m map[string]interface{}) { m["serviceEndpoint"] = []interface{}{ok, ""} }},
		mut{"service-endpoint-list-object-then-invalid", false, func(m map[string]interface{}) {
			m["serviceEndpoint"] = []interface{}{map[string]interface{}{"uri": ok}, bad}
		}},
		mut{"service-endpoint-object", true, func(m map[string]interface{}) {
			m["serviceEndpoint"] = map[string]interface{}{"uri": ok, "routingKeys": []interface{}{"did:example:1#k"}}
		}},
		mut{"service-endpoint-list-of-objects", true, func(m map[string]interface{}) {
			m["serviceEndpoint"] = []interface{}{map[string]interface{}{"uri": ok}, map[string]interface{}{"uri": ok + "/b"}}
		}},
		mut{"service-extra-properties", true, func(m map[string]interface{}) {
			m["priority"] = 1
			m["recipientKeys"] = []interface{}{"did:example:1#k"}
		}},
	)
	return ms
}

func runC13(r *fw.Runner) {
	// keys in add-public-keys and replace contexts
	for _, ctx := range []string{"add-public-keys", "replace"} {
		ctx := ctx
		r.Case("keys-in-"+ctx, func(c *fw.Case) {
			var cases []labelled
			for _, m := range keyMutations(c.Rng) {
				k := baseKey(c.Rng, "key1")
				m.f(k)
				other := baseKey(c.Rng, "other")
				if ctx == "replace" {
					cases = append(cases, labelled{ctx + "/" + m.name, gen.PReplace([]interface{}{other, k}, []interface{}{baseService("svc1")}), m.valid})
				} else {
					cases = append(cases, labelled{ctx + "/" + m.name, gen.PAddKeys(other, k), m.valid})
				}
			}
			// duplicates
			k1, k2 := baseKey(c.Rng, "dup"), baseKey(c.Rng, "dup")
			if ctx == "replace" {
				cases = append(cases, labelled{ctx + "/key-duplicate-ids", gen.PReplace([]interface{}{k1, k2}, nil), false})
			} else {
				cases = append(cases, labelled{ctx + "/key-duplicate-ids", gen.PAddKeys(k1, baseKey(c.Rng, "mid"), k2), false})
			}
			// the duplicate at every pair of positions of lists of 3..5 ids in ascending, descending and mixed order
			for _, ids := range c13DuplicateIDLists() {
				var ks []interface{}
				var km []map[string]interface{}
				for _, id := range ids {
					k := baseKey(c.Rng, id)
					ks, km = append(ks, k), append(km, k)
				}
				name := ctx + "/key-duplicate-ids[" + strings.Join(ids, ",") + "]"
				if ctx == "replace" {
					cases = append(cases, labelled{name, gen.PReplace(ks, nil), false})
				} else {
					cases = append(cases, labelled{name, gen.PAddKeys(km...), false})
				}
			}
			c13Run(c, cases)
		})
		r.Case("matrix-in-"+ctx, func(c *fw.Case) {
			var cases []labelled
			types := append(append([]string{}, gen.DocKeyTypes...), "UnknownKeyType2000")
			for _, typ := range types {
				material := "jwk"
				mk := func(purposes []string) map[string]interface{} {
					k := gen.DocKey(c.Rng, "key1", typ, purposes, material)
					return k
				}
				for _, p := range gen.Purposes {
					valid := gen.PurposeAllowed(typ, p)
					k := mk([]string{p})
					name := fmt.Sprintf("%s/matrix/%s/%s", ctx, typ, p)
					c.Count("matrix", 1)
					if ctx == "replace" {
						cases = append(cases, labelled{name, gen.PReplace([]interface{}{k}, nil), valid})
					} else {
						cases = append(cases, labelled{name, gen.PAddKeys(k), valid})
					}
					// the purpose in second position after an allowed one
					if typ != "UnknownKeyType2000" {
						first := "keyAgreement"
						if !gen.PurposeAllowed(typ, first) || first == p {
							first = "authentication"
						}
						if gen.PurposeAllowed(typ, first) && first != p {
							k2 := mk([]string{first, p})
							c.Count("matrix", 1)
							if ctx == "replace" {
								cases = append(cases, labelled{name + "/second", gen.PReplace([]interface{}{k2}, nil), valid})
							} else {
								cases = append(cases, labelled{name + "/second", gen.PAddKeys(k2), valid})
							}
						}
					}
				}
				general := mk(nil)
				gvalid := typ != "UnknownKeyType2000"
				if ctx == "replace" {
					cases = append(cases, labelled{ctx + "/matrix/" + typ + "/general", gen.PReplace([]interface{}{general}, nil), gvalid})
				} else {
					cases = append(cases, labelled{ctx + "/matrix/" + typ + "/general", gen.PAddKeys(general), gvalid})
				}
				if typ != gen.TJwk2020 && typ != "UnknownKeyType2000" {
					b := gen.DocKey(c.Rng, "key1", typ, nil, "b58")
					if ctx == "replace" {
						cases = append(cases, labelled{ctx + "/matrix/" + typ + "/general-base58", gen.PReplace([]interface{}{b}, nil), true})
					} else {
						cases = append(cases, labelled{ctx + "/matrix/" + typ + "/general-base58", gen.PAddKeys(b), true})
					}
				}
			}
			c13Run(c, cases)
		})
	}
	for _, ctx := range []string{"add-services", "replace"} {
		ctx := ctx
		r.Case("services-in-"+ctx, func(c *fw.Case) {
			var cases []labelled
			for _, m := range serviceMutations() {
				s := baseService("svc1")
				m.f(s)
				other := baseService("other")
				if ctx == "replace" {
					cases = append(cases, labelled{ctx + "/" + m.name, gen.PReplace([]interface{}{baseKey(c.Rng, "key1")}, []interface{}{other, s}), m.valid})
				} else {
					cases = append(cases, labelled{ctx + "/" + m.name, gen.PAddServices(other, s), m.valid})
				}
			}
			s1, s2 := baseService("dup"), baseService("dup")
			if ctx == "replace" {
				cases = append(cases, labelled{ctx + "/service-duplicate-ids", gen.PReplace(nil, []interface{}{s1, s2}), false})
			} else {
				cases = append(cases, labelled{ctx + "/service-duplicate-ids", gen.PAddServices(s1, baseService("mid"), s2), false})
			}
			for _, ids := range c13DuplicateIDLists() {
				var ss []interface{}
				var sm []map[string]interface{}
				for _, id := range ids {
					sv := baseService(id)
					ss, sm = append(ss, sv), append(sm, sv)
				}
				name := ctx + "/service-duplicate-ids[" + strings.Join(ids, ",") + "]"
				if ctx == "replace" {
					cases = append(cases, labelled{name, gen.PReplace(nil, ss), false})
				} else {
					cases = append(cases, labelled{name, gen.PAddServices(sm...), false})
				}
			}
			c13Run(c, cases)
		})
	}
	r.Case("go-typed-values", func(c *fw.Case) { c13Typed(c) })
	r.Case("lists-and-uris", func(c *fw.Case) {
		var cases []labelled
		for _, act := range []string{"remove-public-keys", "remove-services"} {
			mk := func(ids ...string) map[string]interface{} {
				if act == "remove-public-keys" {
					return gen.PRemoveKeys(ids...)
				}
				return gen.PRemoveServices(ids...)
			}
			cases = append(cases, labelled{act + "/valid-1", mk("key1"), true}, labelled{act + "/valid-3", mk("a", "B_2", "c-3"), true},
				labelled{act + "/empty-list", map[string]interface{}{"action": act, "ids": []interface{}{}}, false},
				labelled{act + "/missing-ids", map[string]interface{}{"action": act}, false},
				labelled{act + "/ids-not-a-list", map[string]interface{}{"action": act, "ids": "key1"}, false},
				labelled{act + "/wrong-value-key", map[string]interface{}{"action": act, "uris": []interface{}{"key1"}}, false})
			for _, im := range idMutations {
				for pos := 0; pos < 3; pos++ {
					ids := []string{"ok1", "ok2", "ok3"}
					ids[pos] = im.id
					cases = append(cases, labelled{fmt.Sprintf("%s/%s-at-%d", act, im.name, pos+1), mk(ids...), im.valid})
				}
			}
		}
		for _, act := range []string{"add-also-known-as", "remove-also-known-as"} {
			mk := func(uris ...string) map[string]interface{} {
				l := make([]interface{}, len(uris))
				for i, u := range uris {
					l[i] = u
				}
				return map[string]interface{}{"action": act, "uris": l}
			}
			cases = append(cases, labelled{act + "/valid", mk("https://alice.example", "did:example:alice", "urn:x:y"), true},
				labelled{act + "/valid-single", mk("did:example:bob"), true},
				labelled{act + "/empty-list", mk(), false},
				labelled{act + "/missing-uris", map[string]interface{}{"action": act}, false},
				labelled{act + "/duplicate", mk("did:example:a", "did:example:b", "did:example:a"), false},
				labelled{act + "/duplicate-adjacent", mk("https://a.example", "https://a.example"), false},
				labelled{act + "/duplicate-non-ascii-path", mk("https://example.com/jürgen", "did:example:x", "https://example.com/jürgen"), false},
				labelled{act + "/duplicate-space-in-path", mk("https://example.com/a b", "https://example.com/a b"), false},
				labelled{act + "/duplicate-upper-case-scheme", mk("HTTPS://example.com/x", "HTTPS://example.com/x"), false},
				// every component a URI can have: user information, port, query, fragment, an IPv6 host, an opaque part
				labelled{act + "/duplicate-with-userinfo", mk("https://alice@social.example/profile", "https://alice@social.example/profile"), false},
				labelled{act + "/duplicate-with-user-and-password", mk("ftp://u:p@host.example/x", "did:example:z", "ftp://u:p@host.example/x"), false},
				labelled{act + "/duplicate-with-port-query-fragment", mk("https://h.example:8443/p?q=1&r=2#frag", "https://h.example:8443/p?q=1&r=2#frag"), false},
				labelled{act + "/duplicate-ipv6-host", mk("http://[2001:db8::1]:80/x", "http://[2001:db8::1]:80/x"), false},
				labelled{act + "/duplicate-opaque", mk("mailto:alice@example.com", "mailto:alice@example.com"), false},
				labelled{act + "/duplicate-empty-query", mk("https://a.example/x?", "https://a.example/x?"), false},
				labelled{act + "/same-but-userinfo", mk("https://alice@social.example/profile", "https://bob@social.example/profile", "https://social.example/profile"), true},
				labelled{act + "/non-ascii-path-once", mk("https://example.com/jürgen", "https://example.com/juergen"), true},
				labelled{act + "/bad-escape-1st", mk("https://a.example/%zz", "did:example:b"), false},
				labelled{act + "/bad-escape-2nd", mk("did:example:b", "https://a.example/%zz"), false},
				labelled{act + "/bad-escape-3rd", mk("did:example:b", "did:example:c", "https://a.example/%zz"), false},
				labelled{act + "/missing-scheme", mk("did:example:b", ":foo"), false},
				labelled{act + "/control-char", mk("did:example:b", "http://a.example/\x7f"), false},
				labelled{act + "/bad-host", mk("http://[::1"), false})
		}
		// value of the wrong kind
		cases = append(cases,
			labelled{"add-public-keys/empty-list", map[string]interface{}{"action": "add-public-keys", "publicKeys": []interface{}{}}, false},
			labelled{"add-public-keys/not-a-list", map[string]interface{}{"action": "add-public-keys", "publicKeys": map[string]interface{}{}}, false},
			labelled{"add-public-keys/missing-value", map[string]interface{}{"action": "add-public-keys"}, false},
			labelled{"add-services/empty-list", map[string]interface{}{"action": "add-services", "services": []interface{}{}}, false},
			labelled{"add-services/missing-value", map[string]interface{}{"action": "add-services"}, false},
			labelled{"replace/missing-document", map[string]interface{}{"action": "replace"}, false},
			labelled{"replace/document-not-object", map[string]interface{}{"action": "replace", "document": []interface{}{}}, false},
			labelled{"replace/foreign-member", map[string]interface{}{"action": "replace", "document": map[string]interface{}{"publicKeys": []interface{}{baseKey(c.Rng, "k")}, "alsoKnownAs": []interface{}{"did:example:x"}}}, false},
			labelled{"replace/foreign-member-publicKey", map[string]interface{}{"action": "replace", "document": map[string]interface{}{"publicKey": []interface{}{baseKey(c.Rng, "k")}}}, false},
			labelled{"replace/foreign-member-id-null", map[string]interface{}{"action": "replace", "document": map[string]interface{}{"publicKeys": []interface{}{baseKey(c.Rng, "k")}, "id": nil}}, false},
			labelled{"replace/foreign-member-context-null", map[string]interface{}{"action": "replace", "document": map[string]interface{}{"services": []interface{}{baseService("s1")}, "@context": nil}}, false},
			labelled{"replace/foreign-member-aka-null", map[string]interface{}{"action": "replace", "document": map[string]interface{}{"publicKeys": []interface{}{baseKey(c.Rng, "k")}, "alsoKnownAs": nil}}, false},
			labelled{"add-services/endpoint-list-object-then-bad-uri", gen.PAddServices(map[string]interface{}{"id": "s1", "type": "t", "serviceEndpoint": []interface{}{map[string]interface{}{"uri": "https://ok.example"}, "not a uri"}}), false},
			labelled{"add-services/endpoint-list-object-then-empty-string", gen.PAddServices(map[string]interface{}{"id": "s1", "type": "t", "serviceEndpoint": []interface{}{map[string]interface{}{"uri": "https://ok.example"}, ""}}), false},
			labelled{"add-services/endpoint-list-uri-object-uri", gen.PAddServices(map[string]interface{}{"id": "s1", "type": "t", "serviceEndpoint": []interface{}{"https://a.example", map[string]interface{}{"uri": "https://ok.example"}, "https://b.example"}}), true},
			labelled{"add-services/endpoint-fragment-bad-escape", gen.PAddServices(map[string]interface{}{"id": "s1", "type": "t", "serviceEndpoint": "https://example.com/path#%zz"}), false},
			labelled{"add-services/endpoint-fragment-ok", gen.PAddServices(map[string]interface{}{"id": "s1", "type": "t", "serviceEndpoint": "https://example.com/path#section-2"}), true},
			labelled{"add-services/endpoint-fragment-control-char", gen.PAddServices(map[string]interface{}{"id": "s1", "type": "t", "serviceEndpoint": "https://example.com/path#a\x7fb"}), false},
			labelled{"replace/foreign-member-with-empty-name", map[string]interface{}{"action": "replace", "document": map[string]interface{}{"publicKeys": []interface{}{baseKey(c.Rng, "k")}, "": []interface{}{}}}, false},
			labelled{"replace/only-keys", map[string]interface{}{"action": "replace", "document": map[string]interface{}{"publicKeys": []interface{}{baseKey(c.Rng, "k")}}}, true},
			labelled{"replace/only-services", map[string]interface{}{"action": "replace", "document": map[string]interface{}{"services": []interface{}{baseService("s1")}}}, true},
			labelled{"replace/empty-document", map[string]interface{}{"action": "replace", "document": map[string]interface{}{}}, true},
			labelled{"replace/foreign-member-id", map[string]interface{}{"action": "replace", "document": map[string]interface{}{"publicKeys": []interface{}{baseKey(c.Rng, "k")}, "id": "did:x:y"}}, false},
			labelled{"replace/keys-and-services", gen.PReplace([]interface{}{baseKey(c.Rng, "k1"), baseKey(c.Rng, "k2")}, []interface{}{baseService("s1")}), true},
			labelled{"replace/only-keys", gen.PReplace([]interface{}{baseKey(c.Rng, "k1")}, nil), true},
			labelled{"replace/only-services", gen.PReplace(nil, []interface{}{baseService("s1")}), true},
			labelled{"unknown-action", map[string]interface{}{"action": "rename-keys", "ids": []interface{}{"a"}}, false},
			labelled{"action-wrong-case", map[string]interface{}{"action": "Remove-Public-Keys", "ids": []interface{}{"a"}}, false},
			labelled{"action-trailing-space", map[string]interface{}{"action": "remove-public-keys ", "ids": []interface{}{"a"}}, false},
			labelled{"missing-action", map[string]interface{}{"ids": []interface{}{"a"}}, false},
		)
		c13Run(c, cases)
	})
	// one text judged under two rules one after the other: a URI reference is fine as an also-known-as entry and no service endpoint,
	// and the verdict under one rule is not carried over to the other
	r.Case("same-text-under-two-rules", func(c *fw.Case) {
		var cases []labelled
		for i, u := range []string{"example.com/profile", "not-a-uri", "#frag", "?q=1", "profile", "did", "a b"} {
			svc := gen.RandService(c.Rng, "svc1")
			svc["serviceEndpoint"] = u
			lst := gen.RandService(c.Rng, "svc2")
			lst["serviceEndpoint"] = []interface{}{"https://ok.example", u}
			cases = append(cases,
				labelled{fmt.Sprintf("also-known-as/uri-reference-%d", i), gen.PAddAka(u), true},
				labelled{fmt.Sprintf("add-services/endpoint-seen-as-also-known-as-%d", i), gen.PAddServices(svc), false},
				labelled{fmt.Sprintf("remove-also-known-as/uri-reference-%d", i), gen.PRemoveAka(u, "https://x.example"), true},
				labelled{fmt.Sprintf("add-services/endpoint-list-entry-seen-as-also-known-as-%d", i), gen.PAddServices(lst), false},
				labelled{fmt.Sprintf("replace/endpoint-seen-as-also-known-as-%d", i), gen.PReplace(nil, []interface{}{svc}), false})
		}
		for i, u := range []string{"http://a.example/b#c", "https://a.example/x?y#z"} {
			svc := gen.RandService(c.Rng, "svc1")
			svc["serviceEndpoint"] = u
			enc := strings.Replace(u, "#", "%23", 1)
			cases = append(cases,
				labelled{fmt.Sprintf("add-services/endpoint-with-fragment-%d", i), gen.PAddServices(svc), true},
				labelled{fmt.Sprintf("also-known-as/fragment-and-escaped-number-sign-%d", i), gen.PAddAka(u, enc), true},
				labelled{fmt.Sprintf("also-known-as/escaped-number-sign-and-fragment-%d", i), gen.PAddAka(enc, u), true})
		}
		c13Run(c, cases)
	})
	r.Case("original-documents", func(c *fw.Case) {
		dv, didv := docvalidator.New(), didvalidator.New()
		key := baseKey(c.Rng, "key1")
		docs := []struct {
			name         string
			doc          map[string]interface{}
			okDoc, okDID bool
		}{
			{"plain", map[string]interface{}{"publicKey": []interface{}{key}}, true, true},
			{"empty", map[string]interface{}{}, true, true},
			{"with-services", map[string]interface{}{"service": []interface{}{baseService("s")}, "foo": "bar"}, true, true},
			{"string-id", map[string]interface{}{"id": "did:example:123", "publicKey": []interface{}{key}}, false, false},
			{"short-id", map[string]interface{}{"id": "x"}, false, false},
			{"context-list", map[string]interface{}{"@context": []interface{}{"https://www.w3.org/ns/did/v1"}, "publicKey": []interface{}{key}}, true, false},
			{"context-two", map[string]interface{}{"@context": []interface{}{"https://www.w3.org/ns/did/v1", "https://w3id.org/security/v1"}}, true, false},
			{"id-and-context", map[string]interface{}{"id": "did:example:1", "@context": []interface{}{"https://www.w3.org/ns/did/v1"}}, false, false},
		}
		for _, d := range docs {
			// the canonical text and other texts of the same document: members reordered, blanks, every member name and text written
			// with \uXXXX escapes (a name is the name it decodes to)
			texts := [][]byte{oracle.MustJCS(d.doc), gen.Spell(c.Rng, oracle.MustGeneric(d.doc), gen.AllSpell), gen.Spell(c.Rng, oracle.MustGeneric(d.doc), gen.AllSpell)}
			esc := string(oracle.MustJCS(d.doc))
			for _, nm := range []string{"id", "@context", "publicKey", "service"} {
				e := ""
				for _, ch := range nm {
					e += fmt.Sprintf("\\u%04x", ch)
				}
				esc = strings.ReplaceAll(esc, `"`+nm+`":`, `"`+e+`":`)
				texts = append(texts, []byte(strings.ReplaceAll(string(oracle.MustJCS(d.doc)), `"`+nm+`":`, `"`+e[:6]+nm[1:]+`":`)))
			}
			texts = append(texts, []byte(esc))
			for ti, b := range texts {
				c.Count("original-documents", 2)
				c.Evals(2)
				c.Sig("orig", d.name, ti)
				if err := dv.IsValidOriginalDocument(b); (err == nil) != d.okDoc {
					c.Failf("original-document:"+d.name, map[string]interface{}{"document": string(b), "err": fmt.Sprint(err), "expected_valid": d.okDoc}, "generic validator: original document %q verdict wrong (err=%v)", d.name, err)
				}
				if err := didv.IsValidOriginalDocument(b); (err == nil) != d.okDID {
					c.Failf("original-did-document:"+d.name, map[string]interface{}{"document": string(b), "err": fmt.Sprint(err), "expected_valid": d.okDID}, "DID validator: original document %q verdict wrong (err=%v)", d.name, err)
				}
			}
		}
		c.Sample(map[string]interface{}{"document": docs[3].doc, "expected": "refused (carries an id)"})
	})
	for b := 0; b < r.N(25, 100); b++ {
		r.Case("random-valid", func(c *fw.Case) {
			for i := 0; i < 200; i++ {
				p := gen.RandSimplePatch(c.Rng)
				c.Count("random-valid", 1)
				lp, err := sut.ToPatch(p)
				if err != nil {
					c.Inconclusive("conversion")
					continue
				}
				var sb strings.Builder
				shape(p, &sb, 0)
				c.Sig("rv", p["action"], sb.String())
				c.Evals(1)
				if err := patchvalidator.Validate(lp); err != nil {
					c.Failf("valid-patch-refused", map[string]interface{}{"patch": p, "err": err.Error()}, "a valid %v patch was refused: %v", p["action"], err)
				}
				if i == 0 {
					c.Sample(p)
				}
			}
		})
	}
}

// c13Typed: patch values assembled in Go instead of decoded from JSON - a []string where the JSON model has a list of strings. Whatever
// the validator makes of the Go type, it does not accept content it would refuse as JSON.
func c13Typed(c *fw.Case) {
	for _, tc := range []struct {
		name string
		p    patch.Patch
	}{
		{"add-also-known-as/go-string-slice-with-bad-uri", patch.Patch{"action": patch.AddAlsoKnownAs, "uris": []string{":abc"}}},
		{"add-also-known-as/go-string-slice-duplicate", patch.Patch{"action": patch.AddAlsoKnownAs, "uris": []string{"https://a.example", "https://a.example"}}},
		{"remove-also-known-as/go-string-slice-with-bad-uri", patch.Patch{"action": patch.RemoveAlsoKnownAs, "uris": []string{"::", "https://a.example"}}},
		{"remove-public-keys/go-string-slice-bad-id", patch.Patch{"action": patch.RemovePublicKeys, "ids": []string{"bad id"}}},
		{"remove-services/go-string-slice-empty-id", patch.Patch{"action": patch.RemoveServiceEndpoints, "ids": []string{""}}},
	} {
		c.Count("labelled-invalid", 1)
		c.Count("go-typed-values", 1)
		c.Evals(1)
		c.Sig(tc.name)
		if err := patchvalidator.Validate(tc.p); err == nil {
			c.Failf("label:"+tc.name, map[string]interface{}{"case": tc.name, "patch": fmt.Sprintf("%#v", tc.p)}, "%s: a patch whose list is a Go []string with content that is refused as JSON was accepted", tc.name)
		}
	}
}

func c13Run(c *fw.Case, cases []labelled) {
	for i, lc := range cases {
		lp, err := sut.ToPatch(lc.patch)
		if err != nil {
			c.Inconclusive("conversion")
			continue
		}
		c.Evals(1)
		c.Sig(lc.name)
		if lc.valid {
			c.Count("labelled-valid", 1)
		} else {
			c.Count("labelled-invalid", 1)
		}
		verr := patchvalidator.Validate(lp)
		if (verr == nil) != lc.valid {
			exp := "refused"
			if lc.valid {
				exp = "accepted"
			}
			c.Failf("label:"+lc.name, map[string]interface{}{"case": lc.name, "patch": lc.patch, "expected": exp, "err": fmt.Sprint(verr)}, "%s: expected %s, validator said %v", lc.name, exp, verr)
		}
		if i == 3 {
			c.Sample(map[string]interface{}{"case": lc.name, "patch": lc.patch, "expected_valid": lc.valid})
		}
	}
}

// c13DuplicateIDLists lists id sequences of length 3..5 (ascending, descending, mixed order) in which the id at position j
// repeats the one at position i, for every i < j.
func c13DuplicateIDLists() [][]string {
	var out [][]string
	for _, base := range [][]string{{"a", "b", "c", "d", "e"}, {"e", "d", "c", "b", "a"}, {"key2", "key1", "signing", "auth", "Z"}, {"b", "d", "a", "e", "c"}} {
		for n := 3; n <= 5; n++ {
			for i := 0; i < n; i++ {
				for j := i + 1; j < n; j++ {
					ids := append([]string{}, base[:n]...)
					ids[j] = ids[i]
					out = append(out, ids)
				}
			}
		}
	}
	return out
}
