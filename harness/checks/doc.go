// Package checks holds one monitor per property (C01 … C20).
package checks
