package checks

import (
	"encoding/json"
	"fmt"
	"github.com/trustbloc/sidetree-go/pkg/api/operation"
	"github.com/trustbloc/sidetree-go/pkg/document"
	"math"
	"strings"

	"github.com/trustbloc/sidetree-go/pkg/api/protocol"

	"verifharness/fw"
	"verifharness/gen"
	"verifharness/oracle"
	"verifharness/sut"
)

func init() {
	fw.Register(&fw.Check{
		ID:          "C02",
		Rule:        "cases: a valid previous state (built by a valid create) and one update / recover / deactivate carrying exactly one labelled tampering: every bit of the decoded signature (all bits for one operation per key type and operation type, strided otherwise); each signed-payload field re-encoded with a changed value without re-signing; key substitution without re-signing / re-signed with honest reveal / re-signed with matching reveal (self-consistent => must be accepted); reveal substitution; delta substitution; typ/crit/b64/x5c headers with and without re-signing; alg none / unknown / other-allowed; truncated, padded, emptied, dropped and duplicated compact segments. Oracle: the conjunction sigValid & revealMatchesKey & headersOnlyAlgKid & algAllowed & (deltaBound | suffixEqual) known from the label decides refused / degraded / applied; the resulting state is compared in full with the C01 model. distinct = (operation type, key type, tampering class, outcome).",
		Assumptions: []string{"forgery resistance of the signature schemes (a tampered signature is invalid)", "harness state machine and patch model"},
		Require:     []string{"steps", "signature-bits", "outcome:refused:signature", "outcome:refused:parse", "outcome:degraded:delta-not-bound", "outcome:applied", "tampered-accepted-expected"},
		Workers:     func(string) int { return 15 },
		Run:         runC02,
	})
}

type tampering struct {
	name   string
	types  string
	mutate func(h *histCtx, s *opStep)
}

func editPayloadUnsigned(f func(p map[string]interface{})) func(string) string {
	return func(j string) string {
		t, _ := tamperSegment(j, 1, func(b []byte) []byte {
			var p map[string]interface{}
			if json.Unmarshal(b, &p) != nil {
				return b
			}
			f(p)
			return oracle.MustJCS(oracle.MustGeneric(p))
		})
		return t
	}
}

func replaceHeaderUnsigned(hdr map[string]interface{}) func(string) string {
	return func(j string) string {
		parts := strings.Split(j, ".")
		parts[0] = oracle.B64(gen.ToJSON(hdr))
		return strings.Join(parts, ".")
	}
}

func tweakB64(s string) string {
	if s == "" {
		return "A"
	}
	c := byte('A')
	if s[0] == 'A' {
		c = 'B'
	}
	return string(c) + s[1:]
}

func c02Tamperings() []tampering {
	ts := []tampering{
		// payload fields re-encoded without re-signing
		{"payload-deltaHash-changed-unsigned", "ur", func(h *histCtx, s *opStep) {
			s.Spec.PostJWS = editPayloadUnsigned(func(p map[string]interface{}) {
				p["deltaHash"] = oracle.MustModelHash(h.code, map[string]interface{}{"forged": h.r.Intn(1000)})
			})
			s.Facts.SigOK, s.Facts.DeltaBound = false, false
		}},
		{"payload-key-x-changed-unsigned", "urd", func(h *histCtx, s *opStep) {
			s.Spec.PostJWS = editPayloadUnsigned(func(p map[string]interface{}) {
				for _, k := range []string{"updateKey", "recoveryKey"} {
					if m, ok := p[k].(map[string]interface{}); ok {
						m["x"] = tweakB64(fmt.Sprint(m["x"]))
					}
				}
			})
			s.Facts.SigOK, s.Facts.ParseOK = false, false
		}},
		{"payload-recoveryCommitment-changed-unsigned", "r", func(h *histCtx, s *opStep) {
			forged := gen.NewKey(h.r, h.keyType).Commitment(h.code)
			s.Spec.PostJWS = editPayloadUnsigned(func(p map[string]interface{}) { p["recoveryCommitment"] = forged })
			s.Facts.SigOK = false
			s.Facts.RecoveryCommitment = forged
		}},
		{"payload-anchorOrigin-changed-unsigned", "r", func(h *histCtx, s *opStep) {
			s.Spec.PostJWS = editPayloadUnsigned(func(p map[string]interface{}) { p["anchorOrigin"] = "https://evil.example" })
			s.Facts.SigOK = false
			s.Facts.AnchorOrigin = "https://evil.example"
		}},
		{"payload-anchorUntil-extended-unsigned", "urd", func(h *histCtx, s *opStep) {
			s.Spec.AnchorFrom, s.Spec.AnchorUntil = int64(s.Anchor.Time)-1000, int64(s.Anchor.Time)-10
			s.Spec.PostJWS = editPayloadUnsigned(func(p map[string]interface{}) { p["anchorUntil"] = int64(s.Anchor.Time) + 1000 })
			s.Facts.SigOK = false
		}},
		{"payload-didSuffix-changed-unsigned", "d", func(h *histCtx, s *opStep) {
			s.Spec.PostJWS = editPayloadUnsigned(func(p map[string]interface{}) { p["didSuffix"] = "EiForged" })
			s.Facts.SigOK, s.Facts.SuffixMatch, s.Facts.ParseOK = false, false, false
		}},
		{"payload-member-added-unsigned", "urd", func(h *histCtx, s *opStep) {
			s.Spec.PostJWS = editPayloadUnsigned(func(p map[string]interface{}) { p["extra"] = 1 })
			s.Facts.SigOK = false
		}},
		// key substitution
		{"key-substituted-unsigned", "urd", func(h *histCtx, s *opStep) {
			other := gen.NewKey(h.r, h.keyType).JWK()
			s.Spec.PostJWS = editPayloadUnsigned(func(p map[string]interface{}) {
				for _, k := range []string{"updateKey", "recoveryKey"} {
					if _, ok := p[k]; ok {
						p[k] = other
					}
				}
			})
			s.Facts.SigOK, s.Facts.ParseOK = false, false
		}},
		{"key-substituted-resigned-honest-reveal", "urd", func(h *histCtx, s *opStep) {
			honest := s.Spec.Signer
			s.Spec.Signer = gen.NewKey(h.r, h.keyType)
			s.Spec.Reveal = gen.S(honest.Reveal(h.code))
			s.Facts.ParseOK = false
		}},
		{"key-substituted-resigned-matching-reveal", "urd", func(h *histCtx, s *opStep) {
			// self-consistent operation by a different key: the applier does not know the previous
			// commitment (the operation processor matches reveal values), so this must be ACCEPTED
			s.Spec.Signer = gen.NewKey(h.r, h.keyType)
		}},
		{"key-substituted-resigned-signed-data-names-its-own-reveal", "urd", func(h *histCtx, s *opStep) {
			// a foreign key signs, the request carries the honest (publicly known) reveal value, and the signed data
			// additionally states a revealValue / reveal_value member matching the foreign key: still refused
			honest := s.Spec.Signer
			other := gen.NewKey(h.r, h.keyType)
			s.Spec.Signer = other
			s.Spec.Reveal = gen.S(honest.Reveal(h.code))
			s.Spec.PayloadEdit = func(p map[string]interface{}) { p["revealValue"] = other.Reveal(h.code) }
			s.Facts.ParseOK = false
		}},
		{"jws-accepted-before-in-an-operation-of-another-type", "urd", func(h *histCtx, s *opStep) {
			// A foreign key A signs ONE signed-data object that serves two operations: one of A's own DID, in which A's key is the
			// key to verify under (accepted, and shown to the same applier first), and this operation of the victim's DID, where the
			// victim's key is named and the signature - A's - does not verify under it. Must be refused whatever was verified before.
			victim := s.Spec.Signer
			a := gen.NewKey(h.r, h.keyType)
			aSuffix := oracle.MustModelHash(h.code, map[string]interface{}{"attacker": h.r.Intn(1 << 30)})
			primeDelta := map[string]interface{}{"updateCommitment": gen.NewKey(h.r, h.keyType).Commitment(h.code), "patches": []interface{}{gen.PAddAka("did:example:primed")}}
			s.Spec.PayloadKey = victim.JWK()
			s.Spec.Signer = a
			target := s.Spec.Type
			s.Spec.PayloadEdit = func(p map[string]interface{}) {
				if target == "update" {
					p["recoveryKey"] = a.JWK()
					p["didSuffix"] = aSuffix
				} else {
					p["updateKey"] = a.JWK()
					if _, ok := p["deltaHash"]; !ok {
						p["deltaHash"] = oracle.MustModelHash(h.code, primeDelta)
					}
				}
			}
			s.Facts.SigOK = false
			s.PostBuild = func(h *histCtx, s *opStep) {
				if h.st == nil {
					return
				}
				req := map[string]interface{}{"didSuffix": aSuffix, "revealValue": a.Reveal(h.code), "signedData": s.Built.JWS}
				if target == "update" {
					req["type"] = "deactivate"
				} else {
					req["type"] = "update"
					req["delta"] = primeDelta
					if target == "recover" {
						req["delta"] = s.Built.Delta
					}
				}
				prime := &operation.AnchoredOperation{Type: operation.Type(req["type"].(string)), UniqueSuffix: aSuffix, OperationRequest: oracle.MustJCS(req), TransactionTime: 5, ProtocolVersion: 0}
				prev := &protocol.ResolutionModel{Doc: document.Document{}, UpdateCommitment: a.Commitment(h.code), RecoveryCommitment: a.Commitment(h.code)}
				if _, err := h.st.Applier.Apply(prime, prev); err != nil {
					h.c.Count("cross-type-replay:priming-operation-refused", 1)
				} else {
					h.c.Count("cross-type-replay:primed", 1)
				}
			}
		}},
		{"signed-data-carries-unused-members (valid)", "urd", func(h *histCtx, s *opStep) {
			// members of the signed-data models that the protocol does not use for this type must not matter
			s.Spec.PayloadEdit = func(p map[string]interface{}) {
				if _, ok := p["revealValue"]; !ok {
					p["revealValue"] = s.Spec.Signer.Reveal(h.code)
				}
			}
		}},
		{"alg-case-variant-resigned", "urd", func(h *histCtx, s *opStep) {
			s.Spec.Headers = map[string]interface{}{"alg": strings.ToLower(s.Spec.Signer.Alg())}
			s.Facts.ParseOK = false
		}},
		{"reveal-substituted", "urd", func(h *histCtx, s *opStep) {
			s.Spec.Reveal = gen.S(gen.NewKey(h.r, h.keyType).Reveal(h.code))
			s.Facts.ParseOK = false
		}},
		{"reveal-is-commitment", "urd", func(h *histCtx, s *opStep) {
			s.Spec.Reveal = gen.S(s.Spec.Signer.Commitment(h.code))
			s.Facts.ParseOK = false
		}},
		// delta substitution
		{"delta-substituted-patches", "ur", func(h *histCtx, s *opStep) {
			s.Spec.RequestDelta = map[string]interface{}{"updateCommitment": s.Spec.UpdateCommitment, "patches": []interface{}{gen.PAddKeys(gen.RandDocKey(h.r, "intruder"))}}
			s.Facts.DeltaBound = false
		}},
		{"delta-substituted-commitment", "ur", func(h *histCtx, s *opStep) {
			s.Spec.RequestDelta = map[string]interface{}{"updateCommitment": gen.NewKey(h.r, h.keyType).Commitment(h.code), "patches": s.Spec.Patches}
			s.Facts.DeltaBound = false
		}},
		{"delta-number-changed-to-neighbouring-double", "ur", func(h *histCtx, s *opStep) {
			// the signed delta holds a number, the delta sent holds the next representable double: another value, another hash
			x := fw.Pick(h.r, []float64{9223372036854775808.0, 1e19, 1e20, 123456789012345680000.0, 9007199254740992.0, 4.5, 1e-7, 0.1, 1e21, 3e300, 5e-324, 2251799813685248.5})
			y := math.Nextafter(x, math.Inf(1))
			mk := func(v float64) []interface{} {
				return append(append([]interface{}{}, s.Spec.Patches...), gen.PJSON(map[string]interface{}{"op": "add", "path": "/serial", "value": v}))
			}
			s.Spec.Patches = mk(x)
			s.Facts.Patches = s.Spec.Patches
			s.Spec.RequestDelta = map[string]interface{}{"updateCommitment": s.Spec.UpdateCommitment, "patches": mk(y)}
			s.Facts.DeltaBound = false
		}},
		{"delta-string-or-sign-changed", "ur", func(h *histCtx, s *opStep) {
			// the delta sent differs from the signed one in one character of a string (an astral character replaced by the BMP
			// character its low 16 bits denote, an escaped character changed) or in the sign of a number
			pairs := [][2]interface{}{{"q\"uote \U0001F600 end", "q\"uote \uf600 end"}, {"line\nbreak \U00010000", "line\nbreak \u0000"}, {"a<b>\U0001F601", "a<b>\uf601"},
				{-2.5e-7, 2.5e-7}, {-1e21, 1e21}, {-1500000000000.0, -1600000000000.0}, {-1500000000000.0, 1500000000000.0}, {"caf\u00e9", "cafe\u0301"}, {"\u2028", "("}, {"A", "a"}}
			pr := pairs[h.r.Intn(len(pairs))]
			mk := func(v interface{}) []interface{} {
				return append(append([]interface{}{}, s.Spec.Patches...), gen.PJSON(map[string]interface{}{"op": "add", "path": "/serial", "value": v}))
			}
			s.Spec.Patches = mk(pr[0])
			s.Facts.Patches = s.Spec.Patches
			s.Spec.RequestDelta = map[string]interface{}{"updateCommitment": s.Spec.UpdateCommitment, "patches": mk(pr[1])}
			s.Facts.DeltaBound = false
		}},
		{"delta-member-reordered-only", "ur", func(h *histCtx, s *opStep) {
			// same delta value (the request is canonicalized anyway): must stay ACCEPTED
			s.Spec.RequestDelta = map[string]interface{}{"patches": s.Spec.Patches, "updateCommitment": s.Spec.UpdateCommitment}
		}},
		// protected headers
		{"alg-none-unsigned", "urd", func(h *histCtx, s *opStep) {
			s.Spec.PostJWS = replaceHeaderUnsigned(map[string]interface{}{"alg": "none"})
			s.Facts.ParseOK, s.Facts.SigOK = false, false
		}},
		{"alg-none-empty-signature", "urd", func(h *histCtx, s *opStep) {
			s.Spec.PostJWS = func(j string) string {
				p := strings.Split(replaceHeaderUnsigned(map[string]interface{}{"alg": "none"})(j), ".")
				return p[0] + "." + p[1] + "."
			}
			s.Facts.ParseOK, s.Facts.SigOK = false, false
		}},
		{"alg-unknown-resigned", "urd", func(h *histCtx, s *opStep) {
			s.Spec.Headers = map[string]interface{}{"alg": "HS256"}
			s.Facts.ParseOK = false
		}},
		{"alg-other-allowed-resigned", "urd", func(h *histCtx, s *opStep) {
			// the property requires an allowed algorithm name, not one matching the key type: ACCEPTED
			alg := "ES256"
			if s.Spec.Signer.Alg() == "ES256" {
				alg = "EdDSA"
			}
			s.Spec.Headers = map[string]interface{}{"alg": alg}
		}},
		{"alg-other-allowed-unsigned", "urd", func(h *histCtx, s *opStep) {
			alg := "ES256"
			if s.Spec.Signer.Alg() == "ES256" {
				alg = "EdDSA"
			}
			s.Spec.PostJWS = replaceHeaderUnsigned(map[string]interface{}{"alg": alg})
			s.Facts.SigOK = false
		}},
		{"header-duplicate-alg-unsigned", "urd", func(h *histCtx, s *opStep) {
			// {"alg":"none","alg":"<signed value>"}: a decoder that lets the last duplicate win would rebuild the signed header
			alg := s.Spec.Signer.Alg()
			s.Spec.Headers = map[string]interface{}{"alg": alg}
			s.Spec.PostJWS = func(j string) string {
				parts := strings.Split(j, ".")
				parts[0] = oracle.B64([]byte(`{"alg":"` + fw.Pick(h.r, []string{"none", "HS256", "ES512", ""}) + `","alg":"` + alg + `"}`))
				return strings.Join(parts, ".")
			}
			s.Facts.SigOK, s.Facts.ParseOK = false, false
		}},
		{"header-duplicate-kid-unsigned", "urd", func(h *histCtx, s *opStep) {
			alg := s.Spec.Signer.Alg()
			s.Spec.Headers = map[string]interface{}{"alg": alg, "kid": "k1"}
			s.Spec.PostJWS = func(j string) string {
				parts := strings.Split(j, ".")
				parts[0] = oracle.B64([]byte(`{"alg":"` + alg + `","kid":"injected","kid":"k1"}`))
				return strings.Join(parts, ".")
			}
			s.Facts.SigOK, s.Facts.ParseOK = false, false
		}},
		{"header-trailing-data-unsigned", "urd", func(h *histCtx, s *opStep) {
			s.Spec.PostJWS = func(j string) string {
				parts := strings.Split(j, ".")
				raw, _ := oracle.B64DecodeStrict(parts[0])
				parts[0] = oracle.B64(append(raw, []byte(fw.Pick(h.r, []string{`{"alg":"none"}`, `}`, `x`, `,"alg":"none"`, ` {}`, `[]`}))...))
				return strings.Join(parts, ".")
			}
			s.Facts.SigOK, s.Facts.ParseOK = false, false
		}},
		{"kid-added-unsigned", "urd", func(h *histCtx, s *opStep) {
			s.Spec.Headers = map[string]interface{}{"alg": s.Spec.Signer.Alg()}
			s.Spec.PostJWS = replaceHeaderUnsigned(map[string]interface{}{"alg": s.Spec.Signer.Alg(), "kid": "injected"})
			s.Facts.SigOK = false
		}},
	}
	for _, extra := range []struct {
		k string
		v interface{}
	}{{"typ", "JWT"}, {"crit", []interface{}{"b64"}}, {"b64", false}, {"x5c", []interface{}{"MIIB"}}, {"jwk", map[string]interface{}{"kty": "OKP"}}, {"cty", "json"}} {
		extra := extra
		ts = append(ts,
			tampering{"header-" + extra.k + "-resigned", "urd", func(h *histCtx, s *opStep) {
				s.Spec.Headers = map[string]interface{}{"alg": s.Spec.Signer.Alg(), extra.k: extra.v}
				s.Facts.ParseOK = false
			}},
			tampering{"header-" + extra.k + "-unsigned", "urd", func(h *histCtx, s *opStep) {
				s.Spec.PostJWS = replaceHeaderUnsigned(map[string]interface{}{"alg": s.Spec.Signer.Alg(), extra.k: extra.v})
				s.Facts.ParseOK, s.Facts.SigOK = false, false
			}})
	}
	// compact-form surgery
	for seg, nm := range []string{"header", "payload", "signature"} {
		seg, nm := seg, nm
		ts = append(ts,
			tampering{nm + "-segment-truncated", "urd", func(h *histCtx, s *opStep) {
				s.Spec.PostJWS = func(j string) string {
					p := strings.Split(j, ".")
					p[seg] = p[seg][:len(p[seg])-1-h.r.Intn(3)]
					return strings.Join(p, ".")
				}
				s.Facts.ParseOK, s.Facts.SigOK = false, false
			}},
			tampering{nm + "-segment-padded-equals", "urd", func(h *histCtx, s *opStep) {
				s.Spec.PostJWS = func(j string) string {
					p := strings.Split(j, ".")
					p[seg] += "="
					return strings.Join(p, ".")
				}
				s.Facts.ParseOK, s.Facts.SigOK = false, false
			}},
			tampering{nm + "-segment-extended", "urd", func(h *histCtx, s *opStep) {
				s.Spec.PostJWS = func(j string) string {
					p := strings.Split(j, ".")
					p[seg] += "AAAA"
					return strings.Join(p, ".")
				}
				s.Facts.ParseOK, s.Facts.SigOK = false, false
			}},
			tampering{nm + "-segment-empty", "urd", func(h *histCtx, s *opStep) {
				s.Spec.PostJWS = func(j string) string {
					p := strings.Split(j, ".")
					p[seg] = ""
					return strings.Join(p, ".")
				}
				s.Facts.ParseOK, s.Facts.SigOK = false, false
			}})
	}
	ts = append(ts,
		tampering{"two-segments", "urd", func(h *histCtx, s *opStep) {
			s.Spec.PostJWS = func(j string) string { return j[:strings.LastIndex(j, ".")] }
			s.Facts.ParseOK, s.Facts.SigOK = false, false
		}},
		tampering{"four-segments", "urd", func(h *histCtx, s *opStep) {
			s.Spec.PostJWS = func(j string) string { return j + j[strings.LastIndex(j, "."):] }
			s.Facts.ParseOK, s.Facts.SigOK = false, false
		}},
		tampering{"signature-from-other-operation", "urd", func(h *histCtx, s *opStep) {
			// signature of the same key over a different payload
			other := gen.CompactJWS(h.r, map[string]interface{}{"alg": s.Spec.Signer.Alg()}, []byte(`{"other":true}`), s.Spec.Signer)
			s.Spec.PostJWS = func(j string) string { return j[:strings.LastIndex(j, ".")] + other[strings.LastIndex(other, "."):] }
			s.Facts.SigOK = false
		}},
		tampering{"signature-zeroed", "urd", func(h *histCtx, s *opStep) {
			s.Spec.PostJWS = func(j string) string {
				t, _ := tamperSegment(j, 2, func(b []byte) []byte { return make([]byte, len(b)) })
				return t
			}
			s.Facts.SigOK = false
		}},
		// one more octet behind the signature (a "recovery id" or anything else); listed twice so that the quick tier's alternation over
		// key types gives every key type one of the two
		tampering{"signature-one-octet-appended", "urd", func(h *histCtx, s *opStep) {
			s.Spec.PostJWS = func(j string) string {
				t, _ := tamperSegment(j, 2, func(b []byte) []byte { return append(b, fw.Pick(h.r, []byte{0, 1, 27, 28, 0x5a, 0xff})) })
				return t
			}
			s.Facts.SigOK = false
		}},
		tampering{"signature-one-octet-appended (other key types)", "urd", func(h *histCtx, s *opStep) {
			s.Spec.PostJWS = func(j string) string {
				t, _ := tamperSegment(j, 2, func(b []byte) []byte { return append(b, fw.Pick(h.r, []byte{0, 1, 27, 28, 0x5a, 0xff})) })
				return t
			}
			s.Facts.SigOK = false
		}},
		tampering{"untampered", "urd", func(h *histCtx, s *opStep) {}},
	)
	return ts
}

func runC02(r *fw.Runner) {
	ts := c02Tamperings()
	keyTypes := gen.SigningKeyTypes
	for ti, t := range ts {
		t := t
		for _, typ := range []byte(t.types) {
			typ := typ
			for ki, kt := range keyTypes {
				kt := kt
				reps := r.N(1, 6)
				if !r.Thorough && (ti+ki)%2 == 1 && kt != gen.Ed25519 {
					continue
				}
				for rep := 0; rep < reps; rep++ {
					r.Case("tamper-"+typeName(typ), func(c *fw.Case) {
						plan := []planEntry{{'c', "valid", nil}}
						if c.Rng.Bool() {
							plan = append(plan, planEntry{'u', "valid", nil})
						}
						plan = append(plan, planEntry{typ, t.name, func(h *histCtx, s *opStep) {
							before := s.Facts
							t.mutate(h, s)
							if !strings.Contains(t.name, "anchor") && h.r.Chance(1, 4) {
								// the same tampering on an operation that is, in addition, anchored before its window opens: a forged
								// operation is refused whatever else is the matter with it (no commitment advances on an unverified signature)
								s.Spec.AnchorFrom, s.Spec.AnchorUntil = int64(s.Anchor.Time)+1000, 0
								s.Facts.InWindow = false
								c.Count("tampered-and-out-of-window", 1)
							}
							if s.Facts.ParseOK == before.ParseOK && s.Facts.SigOK == before.SigOK && s.Facts.DeltaBound == before.DeltaBound && s.Facts.SuffixMatch == before.SuffixMatch {
								c.Count("tampered-accepted-expected", 1)
							}
						}})
						c.Sig(t.name, typ, kt)
						runHistory(c, plan, kt, uint64(18+c.Rng.Intn(2)), true, "C01")
					})
				}
			}
		}
	}
	// the shared labelled failure classes (reveal / header / key / hash-spelling / truncated-digest classes …) as tamperings too
	for _, typ := range []byte("urd") {
		typ := typ
		for ci, fc := range classesFor(typ) {
			fc := fc
			if fc.name == "unknown-operation-type" {
				continue
			}
			for ki, kt := range keyTypes {
				kt := kt
				if !r.Thorough && (ci+ki)%3 != 0 {
					continue
				}
				r.Case("class-"+typeName(typ), func(c *fw.Case) {
					c.Sig(fc.name, typ, kt)
					runHistory(c, []planEntry{{'c', "valid", nil}, {typ, fc.name, nil}}, kt, uint64(18+c.Rng.Intn(2)), true, "C01")
				})
			}
		}
	}
	// configurations at the restrictive end: an empty list of allowed signature / key algorithms allows none
	for _, typ := range []byte("urd") {
		typ := typ
		for ci, cfg := range []string{"no-signature-algorithms(nil)", "no-signature-algorithms(empty)", "no-key-algorithms(nil)", "no-key-algorithms(empty)"} {
			ci, cfg := ci, cfg
			r.Case("restrictive-configuration", func(c *fw.Case) {
				proto := histProto(true)
				switch ci {
				case 0:
					proto.SignatureAlgorithms = nil
				case 1:
					proto.SignatureAlgorithms = []string{}
				case 2:
					proto.KeyAlgorithms = nil
				case 3:
					proto.KeyAlgorithms = []string{}
				}
				c.Sig("restrictive", cfg, typ)
				c.Count("restrictive-configurations", 1)
				kt := fw.Pick(c.Rng, gen.SigningKeyTypes)
				runHistoryProto(c, []planEntry{{'c', "valid", nil}, {typ, cfg, func(h *histCtx, s *opStep) { s.Facts.ParseOK = false }}}, kt, 18, proto, true, "C01")
			})
		}
	}
	// every bit of the signature
	for _, typ := range []byte("urd") {
		typ := typ
		for _, kt := range keyTypes {
			kt := kt
			chunks := 4
			for ch := 0; ch < chunks; ch++ {
				ch := ch
				r.Case("signature-bits-"+typeName(typ), func(c *fw.Case) { c02AllBits(c, typ, kt, ch, chunks, r.Thorough) })
			}
		}
	}
}

// c02AllBits builds one valid operation and flips every bit (quick: every 3rd) of its decoded signature.
func c02AllBits(c *fw.Case, typ byte, keyType string, chunk, chunks int, all bool) {
	// the operation must be identical in every chunk: derive it from a chunk-independent stream
	r := fw.CaseRand(int64(fw.Hash64(fmt.Sprint(typ, keyType))), "C02bits", 0)
	proto := histProto(true)
	st := sut.NewStack(proto)
	h := &histCtx{r: r, proto: proto, code: 18, keyType: keyType, hasIETF: true}
	cs := planStep(h, 'c', "valid", 1000, nil, nil)
	prev, err := st.Applier.Apply(anchoredOf(cs, h.ch.Suffix), &protocol.ResolutionModel{})
	if err != nil {
		c.Failf("valid-create-refused", map[string]interface{}{"request": string(cs.Built.Request), "err": err.Error()}, "valid create refused: %v", err)
		return
	}
	s := planStep(h, typ, "valid", cs.Anchor.Time, nil, nil)
	anch := anchoredOf(s, h.ch.Suffix)
	if _, err := st.Applier.Apply(anch, prev); err != nil {
		c.Failf("valid-operation-refused", map[string]interface{}{"request": string(s.Built.Request), "err": err.Error()}, "valid %s refused: %v", typeName(typ), err)
		return
	}
	sigB64 := s.Built.JWS[strings.LastIndex(s.Built.JWS, ".")+1:]
	sig, _ := oracle.B64DecodeStrict(sigB64)
	nbits := len(sig) * 8
	snap := deepCopy(prev)
	stride := 1
	if !all {
		stride = 3
	}
	for bit := chunk * stride; bit < nbits; bit += chunks * stride {
		fb := append([]byte{}, sig...)
		fb[bit/8] ^= 1 << uint(7-bit%8)
		req := strings.Replace(string(s.Built.Request), sigB64, oracle.B64(fb), 1)
		a2 := anchoredOf(s, h.ch.Suffix)
		a2.OperationRequest = []byte(req)
		c.Count("signature-bits", 1)
		c.Count("steps", 1)
		c.Evals(1)
		got, err := st.Applier.Apply(a2, prev)
		if err == nil {
			c.Failf("tampered-signature-accepted", map[string]interface{}{"request": req, "original_request": string(s.Built.Request), "bit": bit, "key_type": keyType, "state": got},
				"%s with bit %d of the signature flipped changed the state", typeName(typ), bit)
			return
		}
	}
	if fmt.Sprint(snap) != fmt.Sprint(deepCopy(prev)) {
		c.Failf("previous-state-mutated", nil, "previous state changed during refused operations")
	}
	c.Sig("bits", typ, keyType, chunk)
	c.Sample(map[string]interface{}{"operation": typeName(typ), "key_type": keyType, "signature_bits": nbits, "request": string(s.Built.Request)})
}
