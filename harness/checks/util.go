package checks

import (
	"fmt"
	"reflect"

	"verifharness/oracle"
)

// deepCopy makes a structural deep copy of arbitrary Go values (maps, slices,
// pointers, structs, interfaces), preserving nil-ness and concrete types, so
// that reflect.DeepEqual before/after detects any in-place modification.
func deepCopy(v interface{}) interface{} {
	if v == nil {
		return nil
	}
	return deepCopyValue(reflect.ValueOf(v)).Interface()
}

func deepCopyValue(v reflect.Value) reflect.Value {
	switch v.Kind() {
	case reflect.Ptr:
		if v.IsNil() {
			return reflect.Zero(v.Type())
		}
		n := reflect.New(v.Type().Elem())
		n.Elem().Set(deepCopyValue(v.Elem()))
		return n
	case reflect.Interface:
		if v.IsNil() {
			return reflect.Zero(v.Type())
		}
		c := deepCopyValue(v.Elem())
		n := reflect.New(v.Type()).Elem()
		n.Set(c)
		return n
	case reflect.Map:
		if v.IsNil() {
			return reflect.Zero(v.Type())
		}
		n := reflect.MakeMapWithSize(v.Type(), v.Len())
		it := v.MapRange()
		for it.Next() {
			n.SetMapIndex(deepCopyValue(it.Key()), deepCopyValue(it.Value()))
		}
		return n
	case reflect.Slice:
		if v.IsNil() {
			return reflect.Zero(v.Type())
		}
		n := reflect.MakeSlice(v.Type(), v.Len(), v.Len())
		for i := 0; i < v.Len(); i++ {
			n.Index(i).Set(deepCopyValue(v.Index(i)))
		}
		return n
	case reflect.Array:
		n := reflect.New(v.Type()).Elem()
		for i := 0; i < v.Len(); i++ {
			n.Index(i).Set(deepCopyValue(v.Index(i)))
		}
		return n
	case reflect.Struct:
		n := reflect.New(v.Type()).Elem()
		for i := 0; i < v.NumField(); i++ {
			if n.Field(i).CanSet() {
				n.Field(i).Set(deepCopyValue(v.Field(i)))
			}
		}
		return n
	}
	return v
}

// describeDiff gives a short textual hint of where two JSON-able values differ.
func describeDiff(a, b interface{}) string {
	ga, err1 := oracle.Generic(a)
	gb, err2 := oracle.Generic(b)
	if err1 != nil || err2 != nil {
		return "values not JSON-serializable"
	}
	return diffGeneric(ga, gb, "")
}

func diffGeneric(a, b interface{}, path string) string {
	if oracle.JSONEqual(a, b) {
		return ""
	}
	switch x := a.(type) {
	case map[string]interface{}:
		y, ok := b.(map[string]interface{})
		if !ok {
			return fmt.Sprintf("%s: type differs", path)
		}
		for k, v := range x {
			w, ok := y[k]
			if !ok {
				return fmt.Sprintf("%s.%s: missing on the right", path, k)
			}
			if d := diffGeneric(v, w, path+"."+k); d != "" {
				return d
			}
		}
		for k := range y {
			if _, ok := x[k]; !ok {
				return fmt.Sprintf("%s.%s: missing on the left", path, k)
			}
		}
	case []interface{}:
		y, ok := b.([]interface{})
		if !ok {
			return fmt.Sprintf("%s: type differs", path)
		}
		if len(x) != len(y) {
			return fmt.Sprintf("%s: length %d vs %d", path, len(x), len(y))
		}
		for i := range x {
			if d := diffGeneric(x[i], y[i], fmt.Sprintf("%s[%d]", path, i)); d != "" {
				return d
			}
		}
	}
	return fmt.Sprintf("%s: %v vs %v", path, short(a), short(b))
}

func short(v interface{}) string {
	s := fmt.Sprintf("%v", v)
	if len(s) > 80 {
		return s[:80] + "…"
	}
	return s
}
