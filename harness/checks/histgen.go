package checks

import (
	"bytes"
	"errors"
	"fmt"
	"github.com/trustbloc/sidetree-go/pkg/jwsutil"
	"math"
	"reflect"
	"strconv"
	"strings"

	"github.com/trustbloc/sidetree-go/pkg/api/operation"
	"github.com/trustbloc/sidetree-go/pkg/api/protocol"
	"github.com/trustbloc/sidetree-go/pkg/versions/1_0/operationparser"

	"verifharness/fw"
	"verifharness/gen"
	"verifharness/oracle"
	"verifharness/sut"
)

// opStep is one generated operation of a history with its ground-truth labels.
type opStep struct {
	Class        string
	Spec         *gen.OpSpec
	Built        *gen.Built
	Facts        oracle.OpFacts
	Anchor       oracle.Anchor
	AnchoredType string
	nextU, nextR *gen.Key
	// EnvelopeAnchorOrigin, when set, is what the anchoring envelope (AnchoredOperation.AnchorOrigin) says instead of echoing the
	// request's own anchor origin: the envelope is not signed, the state follows the request
	EnvelopeAnchorOrigin interface{}
	PostBuild            func(h *histCtx, s *opStep) // runs after the request was assembled (e.g. to show the same JWS to the stack in another operation first)
}

// hostileValidators refuse every anchor origin and every time window (and count how often they are asked).
type hostileValidators struct{ calls int }

func (v *hostileValidators) Validate(interface{}) error {
	v.calls++
	return errors.New("anchor origin refused by harness")
}

type hostileTime struct{ v *hostileValidators }

func (t hostileTime) Validate(int64, int64) error {
	t.v.calls++
	return operationparser.ErrOperationExpired
}

type histCtx struct {
	r       *fw.Rand
	proto   protocol.Protocol
	ch      *gen.Chain
	code    uint64
	keyType string
	hasIETF bool
	st      *sut.Stack // the stack the history runs on (set by the history runner)
	c       *fw.Case
}

func histProto(withIETF bool) protocol.Protocol {
	p := sut.Proto()
	p.MaxDeltaSize = 6000
	p.MaxOperationSize = 60000
	if !withIETF {
		p.Patches = []string{"replace", "add-public-keys", "remove-public-keys", "add-services", "remove-services", "add-also-known-as", "remove-also-known-as"}
	}
	return p
}

type failClass struct {
	name   string
	types  string // subset of "curd"
	mutate func(h *histCtx, s *opStep)
}

// nonCanonicalSpelling returns another text that the lenient base64 decoder maps to the same bytes
// (non-zero spare bits in the last character where there are any, otherwise an embedded line break).
func nonCanonicalSpelling(r *fw.Rand, h string) string {
	const alpha = "ABCDEFGHIJKLMNOPQRSTUVWXYZabcdefghijklmnopqrstuvwxyz0123456789-_"
	if len(h)%4 != 0 && r.Bool() {
		spare := uint(2)
		if len(h)%4 == 2 {
			spare = 4
		}
		idx := strings.IndexByte(alpha, h[len(h)-1])
		alt := (idx &^ (1<<spare - 1)) | ((idx + 1) & (1<<spare - 1))
		if alt != idx {
			return h[:len(h)-1] + string(alpha[alt])
		}
	}
	i := 1 + r.Intn(len(h)-1)
	return h[:i] + "\n" + h[i:]
}

func unsupportedHash(r *fw.Rand) string { return oracle.B64(oracle.WrapDigest(0x16, r.Bytes(32))) }
func tooLongHash(r *fw.Rand) string     { return oracle.B64(oracle.WrapDigest(18, r.Bytes(80))) }

func flipSigBit(r *fw.Rand, jws string) string {
	t, _ := tamperSegment(jws, 2, func(b []byte) []byte { i := r.Intn(len(b) * 8); b[i/8] ^= 1 << uint(i%8); return b })
	return t
}

var failClasses = []failClass{
	{"malformed-json", "curd", func(h *histCtx, s *opStep) {
		s.Spec.RawRequest = func(b []byte) []byte { return b[:len(b)-1-h.r.Intn(len(b)/2)] }
		s.Facts.ParseOK = false
	}},
	{"missing-did-suffix", "urd", func(h *histCtx, s *opStep) {
		s.Spec.RequestEdit = func(m map[string]interface{}) { delete(m, "didSuffix") }
		s.Facts.ParseOK = false
	}},
	{"missing-signed-data", "urd", func(h *histCtx, s *opStep) {
		s.Spec.RequestEdit = func(m map[string]interface{}) { delete(m, "signedData") }
		s.Facts.ParseOK = false
	}},
	{"missing-reveal-value", "urd", func(h *histCtx, s *opStep) {
		s.Spec.RequestEdit = func(m map[string]interface{}) { delete(m, "revealValue") }
		s.Facts.ParseOK = false
	}},
	{"reveal-of-other-key", "urd", func(h *histCtx, s *opStep) {
		s.Spec.Reveal = gen.S(gen.NewKey(h.r, h.keyType).Reveal(h.code))
		s.Facts.ParseOK = false
	}},
	{"reveal-unsupported-algorithm", "urd", func(h *histCtx, s *opStep) {
		s.Spec.Reveal = gen.S(unsupportedHash(h.r))
		s.Facts.ParseOK = false
	}},
	{"signature-bit-flip", "urd", func(h *histCtx, s *opStep) {
		s.Spec.PostJWS = func(j string) string { return flipSigBit(h.r, j) }
		s.Facts.SigOK = false
	}},
	{"signature-re-encoded-at-another-width", "urd", func(h *histCtx, s *opStep) {
		// the same two integers written wider (zero bytes before each half / behind both) are not the signature that was made
		s.Spec.PostJWS = func(j string) string {
			t, _ := tamperSegment(j, 2, func(b []byte) []byte {
				half, k := len(b)/2, fw.Pick(h.r, []int{1, 1, 2, 16})
				switch h.r.Intn(6) {
				case 0:
					return append(b, make([]byte, 2*k)...)
				case 1:
					// one more octet behind the two integers (a recovery id, any other value), or in front of them
					return append(b, fw.Pick(h.r, []byte{0, 1, 27, 28, 0x5a, 0xff}))
				case 2:
					return append([]byte{fw.Pick(h.r, []byte{0, 0x30, 27})}, b...)
				}
				out := append(make([]byte, k), b[:half]...)
				out = append(out, make([]byte, k)...)
				return append(out, b[half:]...)
			})
			return t
		}
		s.Facts.SigOK = false
	}},
	{"signed-by-other-key", "urd", func(h *histCtx, s *opStep) {
		honest := s.Spec.Signer
		s.Spec.PayloadKey = honest.JWK()
		s.Spec.Signer = gen.NewKey(h.r, h.keyType)
		s.Facts.SigOK = false
	}},
	{"payload-reencoded-unsigned", "urd", func(h *histCtx, s *opStep) {
		s.Spec.PostJWS = func(j string) string {
			t, _ := tamperSegment(j, 1, func(b []byte) []byte { return append([]byte(" "), b...) })
			return t
		}
		s.Facts.SigOK = false
	}},
	{"extra-protected-header-typ", "urd", func(h *histCtx, s *opStep) {
		s.Spec.Headers = map[string]interface{}{"alg": s.Spec.Signer.Alg(), "typ": "JWT"}
		s.Facts.ParseOK = false
	}},
	{"extra-protected-header-b64", "urd", func(h *histCtx, s *opStep) {
		s.Spec.Headers = map[string]interface{}{"alg": s.Spec.Signer.Alg(), "b64": true}
		s.Facts.ParseOK = false
	}},
	{"extra-protected-header-crit", "urd", func(h *histCtx, s *opStep) {
		s.Spec.Headers = map[string]interface{}{"alg": s.Spec.Signer.Alg(), "kid": "k", "crit": []interface{}{"kid"}}
		s.Facts.ParseOK = false
	}},
	{"extra-protected-header-null-valued", "urd", func(h *histCtx, s *opStep) {
		s.Spec.Headers = map[string]interface{}{"alg": s.Spec.Signer.Alg(), fw.Pick(h.r, []string{"typ", "crit", "jku", "b64"}): nil}
		s.Facts.ParseOK = false
	}},
	{"protected-header-duplicate-member", "urd", func(h *histCtx, s *opStep) {
		// {"alg":"none","alg":"<signed value>"} / a repeated kid: a decoder that lets the last duplicate win rebuilds the signed header
		alg := s.Spec.Signer.Alg()
		s.Spec.Headers = map[string]interface{}{"alg": alg, "kid": "k1"}
		s.Spec.PostJWS = func(j string) string {
			parts := strings.Split(j, ".")
			parts[0] = oracle.B64([]byte(fw.Pick(h.r, []string{`{"alg":"none","alg":"` + alg + `","kid":"k1"}`, `{"alg":"` + alg + `","kid":"injected","kid":"k1"}`, `{"alg":"` + alg + `","kid":"k1","kid":"k1"}`,
				`{"typ":"JWT","alg":"` + alg + `","kid":"k1","typ":"JWT"}`})))
			return strings.Join(parts, ".")
		}
		s.Facts.SigOK, s.Facts.ParseOK = false, false
	}},
	{"protected-header-trailing-data", "urd", func(h *histCtx, s *opStep) {
		s.Spec.PostJWS = func(j string) string {
			parts := strings.Split(j, ".")
			raw, _ := oracle.B64DecodeStrict(parts[0])
			parts[0] = oracle.B64(append(raw, []byte(fw.Pick(h.r, []string{`{"alg":"none"}`, `}`, `x`, ` {}`, `[]`}))...))
			return strings.Join(parts, ".")
		}
		s.Facts.SigOK, s.Facts.ParseOK = false, false
	}},
	{"signed-payload-trailing-data", "urd", func(h *histCtx, s *opStep) {
		// correctly signed, but the signed payload is a JSON object followed by more bytes: not a JSON text, hence no signed data
		tail := fw.Pick(h.r, []string{"{}", " x", "]", "}", " {\"anchorUntil\":1}", "null", ",", "\n[]", "\x00"})
		s.Spec.RawPayload = func(b []byte) []byte { return append(append([]byte{}, b...), tail...) }
		s.Facts.ParseOK = false
	}},
	{"signed-payload-leading-data", "urd", func(h *histCtx, s *opStep) {
		lead := fw.Pick(h.r, []string{"{}", "x ", "[", "null ", "\ufeff"})
		s.Spec.RawPayload = func(b []byte) []byte { return append([]byte(lead), b...) }
		s.Facts.ParseOK = false
	}},
	{"reveal-truncated-digest", "urd", func(h *histCtx, s *opStep) {
		// a well-formed multihash of an allowed algorithm whose digest is a shortened prefix (down to length 0) is not the key's hash
		d, _ := oracle.DecodeEncodedMultihash(s.Spec.Signer.Reveal(h.code))
		n := fw.Pick(h.r, []int{0, 1, 4, 16, len(d.Digest) - 1})
		s.Spec.Reveal = gen.S(oracle.B64(oracle.WrapDigest(h.code, d.Digest[:n])))
		s.Facts.ParseOK = false
	}},
	{"reveal-noncanonical-spelling", "urd", func(h *histCtx, s *opStep) {
		s.Spec.Reveal = gen.S(nonCanonicalSpelling(h.r, s.Spec.Signer.Reveal(h.code)))
		s.Facts.ParseOK = false
	}},
	{"alg-none", "urd", func(h *histCtx, s *opStep) {
		s.Spec.Headers = map[string]interface{}{"alg": "none"}
		s.Facts.ParseOK = false
	}},
	{"alg-not-allowed", "urd", func(h *histCtx, s *opStep) {
		s.Spec.Headers = map[string]interface{}{"alg": "ES512"}
		s.Facts.ParseOK = false
	}},
	{"alg-empty", "urd", func(h *histCtx, s *opStep) {
		s.Spec.Headers = map[string]interface{}{"alg": ""}
		s.Facts.ParseOK = false
	}},
	{"alg-missing", "urd", func(h *histCtx, s *opStep) {
		s.Spec.Headers = map[string]interface{}{"kid": "key-1"}
		s.Facts.ParseOK = false
	}},
	{"alg-case-variant", "urd", func(h *histCtx, s *opStep) {
		// algorithm names are case-sensitive: "es256" / "eddsa" are not in the allowed list
		a := s.Spec.Signer.Alg()
		v := strings.ToLower(a)
		if h.r.Bool() {
			v = a[:1] + strings.ToLower(a[1:])
		}
		s.Spec.Headers = map[string]interface{}{"alg": v}
		s.Facts.ParseOK = false
	}},
	{"key-curve-case-variant", "urd", func(h *histCtx, s *opStep) {
		j := s.Spec.Signer.JWK()
		j["crv"] = strings.ToLower(fmt.Sprint(j["crv"]))
		if j["crv"] == s.Spec.Signer.JWK()["crv"] {
			j["crv"] = strings.ToUpper(fmt.Sprint(j["crv"]))
		}
		s.Spec.PayloadKey = j
		s.Facts.ParseOK = false
	}},
	{"key-rsa-without-curve", "urd", func(h *histCtx, s *opStep) {
		// an RSA key passes the JWK shape check but has no (allowed) curve
		s.Spec.PayloadKey = map[string]interface{}{"kty": "RSA", "n": oracle.B64(h.r.Bytes(256)), "e": "AQAB"}
		s.Facts.ParseOK = false
	}},
	{"key-kty-missing", "urd", func(h *histCtx, s *opStep) {
		j := s.Spec.Signer.JWK()
		delete(j, "kty")
		s.Spec.PayloadKey = j
		s.Facts.ParseOK = false
	}},
	{"key-curve-not-allowed", "urd", func(h *histCtx, s *opStep) {
		s.Spec.Signer = gen.NewKey(h.r, gen.P521)
		s.Spec.Headers = map[string]interface{}{"alg": "ES256"}
		s.Facts.ParseOK = false
	}},
	{"nonce-wrong-size", "urd", func(h *histCtx, s *opStep) {
		s.Spec.Signer = s.Spec.Signer.WithNonce(h.r, int(h.proto.NonceSize)+fw.Pick(h.r, []int{-1, 1}))
		s.Facts.ParseOK = false
	}},
	{"jws-two-segments", "urd", func(h *histCtx, s *opStep) {
		s.Spec.PostJWS = func(j string) string { return j[:strings.LastIndex(j, ".")] }
		s.Facts.ParseOK = false
	}},
	{"jws-empty-signature", "urd", func(h *histCtx, s *opStep) {
		s.Spec.PostJWS = func(j string) string { return j[:strings.LastIndex(j, ".")+1] }
		s.Facts.ParseOK = false
	}},
	{"signed-key-missing", "urd", func(h *histCtx, s *opStep) {
		s.Spec.PayloadEdit = func(p map[string]interface{}) { delete(p, "updateKey"); delete(p, "recoveryKey") }
		s.Facts.ParseOK = false
	}},
	{"signed-key-without-x", "urd", func(h *histCtx, s *opStep) {
		j := s.Spec.Signer.JWK()
		s.Spec.Reveal = gen.S(s.Spec.Signer.Reveal(h.code))
		s.Spec.PayloadEdit = func(p map[string]interface{}) {
			jj := oracle.DeepCopy(j).(map[string]interface{})
			delete(jj, "x")
			for _, k := range []string{"updateKey", "recoveryKey"} {
				if _, ok := p[k]; ok {
					p[k] = jj
				}
			}
		}
		s.Facts.ParseOK = false
	}},
	{"signed-delta-hash-unsupported-algorithm", "ur", func(h *histCtx, s *opStep) {
		s.Spec.DeltaHash = gen.S(unsupportedHash(h.r))
		s.Facts.ParseOK = false
	}},
	{"window-early", "urd", func(h *histCtx, s *opStep) {
		s.Spec.AnchorFrom = int64(s.Anchor.Time) + int64(h.r.Range(1, 500))
		if h.r.Bool() {
			s.Spec.AnchorUntil = s.Spec.AnchorFrom + int64(h.r.Range(0, 1000))
		}
		s.Facts.InWindow = false
	}},
	{"window-early-from-at-the-far-end", "urd", func(h *histCtx, s *opStep) {
		// a window that opens at the largest times the field can hold (its default end lies beyond the field): early, like any other
		// (integers of that size are not doubles: the exact digits are written into the serialized payload in place of a stand-in)
		from := math.MaxInt64 - int64(fw.Pick(h.r, []uint64{0, 1, h.proto.MaxOperationTimeDelta / 2, h.proto.MaxOperationTimeDelta, h.proto.MaxOperationTimeDelta + 1}))
		s.Spec.AnchorFrom = 1234567890123
		s.Spec.RawPayload = func(b []byte) []byte {
			return bytes.Replace(b, []byte(`"anchorFrom":1234567890123`), []byte(`"anchorFrom":`+strconv.FormatInt(from, 10)), 1)
		}
		if h.r.Chance(1, 3) {
			s.Spec.AnchorUntil = 1234567890124
			until := strconv.FormatInt(math.MaxInt64-int64(h.r.Intn(3)), 10)
			inner := s.Spec.RawPayload
			s.Spec.RawPayload = func(b []byte) []byte {
				return bytes.Replace(inner(b), []byte(`"anchorUntil":1234567890124`), []byte(`"anchorUntil":`+until), 1)
			}
		}
		s.Facts.InWindow = false
	}},
	{"window-late", "urd", func(h *histCtx, s *opStep) {
		s.Spec.AnchorUntil = int64(s.Anchor.Time) - int64(h.r.Range(1, 500))
		if h.r.Bool() {
			s.Spec.AnchorFrom = s.Spec.AnchorUntil - int64(h.r.Range(0, 1000))
		}
		s.Facts.InWindow = false
	}},
	{"window-default-expired", "urd", func(h *histCtx, s *opStep) {
		s.Spec.AnchorFrom = int64(s.Anchor.Time) - int64(h.proto.MaxOperationTimeDelta) - int64(h.r.Range(1, 300))
		s.Spec.AnchorUntil = 0
		s.Facts.InWindow = false
	}},
	{"delta-not-bound", "cur", func(h *histCtx, s *opStep) {
		other := map[string]interface{}{"updateCommitment": gen.NewKey(h.r, h.keyType).Commitment(h.code), "patches": s.Spec.Patches}
		if h.r.Bool() {
			other = map[string]interface{}{"updateCommitment": s.Spec.UpdateCommitment, "patches": []interface{}{gen.PAddKeys(gen.RandDocKey(h.r, "intruder"))}}
		}
		s.Spec.RequestDelta = other
		s.Facts.DeltaBound = false
	}},
	{"delta-hash-truncated-digest", "cur", func(h *histCtx, s *opStep) {
		s.Spec.DeltaHash = gen.S("pending")
		s.Spec.PostBuildDeltaHash = func(honest string) string {
			d, _ := oracle.DecodeEncodedMultihash(honest)
			n := fw.Pick(h.r, []int{0, 1, 8, len(d.Digest) - 1})
			return oracle.B64(oracle.WrapDigest(h.code, d.Digest[:n]))
		}
		s.Facts.DeltaBound = false
	}},
	{"delta-hash-noncanonical-spelling", "cur", func(h *histCtx, s *opStep) {
		s.Spec.DeltaHash = gen.S("pending")
		s.Spec.PostBuildDeltaHash = func(honest string) string { return nonCanonicalSpelling(h.r, honest) }
		s.Facts.DeltaBound = false
	}},
	{"delta-missing", "cur", func(h *histCtx, s *opStep) {
		s.Spec.OmitDelta = true
		s.Facts.DeltaBound = false
	}},
	{"delta-no-patches", "cur", func(h *histCtx, s *opStep) {
		s.Spec.Patches = []interface{}{}
		s.Facts.Patches = s.Spec.Patches
		s.Facts.DeltaBound = false // the library hashes its own re-encoding, which omits an empty patch list
		s.Facts.DeltaValid = false
	}},
	{"delta-unknown-action", "cur", func(h *histCtx, s *opStep) {
		s.Spec.Patches = []interface{}{map[string]interface{}{"action": "frobnicate", "ids": []interface{}{"a"}}}
		s.Facts.Patches = s.Spec.Patches
		s.Facts.DeltaValid = false
	}},
	{"delta-disabled-action", "cur", func(h *histCtx, s *opStep) {
		s.Spec.Patches = []interface{}{gen.PJSON(map[string]interface{}{"op": "add", "path": "/foo", "value": 1})}
		s.Facts.Patches = s.Spec.Patches
		s.Facts.DeltaValid = h.hasIETF
	}},
	{"delta-invalid-patch", "cur", func(h *histCtx, s *opStep) { invalidPatchDelta(h, s, h.r.Intn(invalidPatchVariants)) }},
	{"delta-update-commitment-unsupported-algorithm", "cur", func(h *histCtx, s *opStep) {
		s.Spec.UpdateCommitment = unsupportedHash(h.r)
		s.Facts.UpdateCommitment = s.Spec.UpdateCommitment
		s.Facts.DeltaValid = false
	}},
	{"delta-update-commitment-too-long", "cur", func(h *histCtx, s *opStep) {
		s.Spec.UpdateCommitment = tooLongHash(h.r)
		s.Facts.UpdateCommitment = s.Spec.UpdateCommitment
		s.Facts.DeltaValid = false
	}},
	{"delta-update-commitment-padded", "cur", func(h *histCtx, s *opStep) {
		// hashes are unpadded base64url: "<valid hash>=" / "==" is not a multihash string
		s.Spec.UpdateCommitment = s.Spec.UpdateCommitment + fw.Pick(h.r, []string{"=", "=="})
		s.Facts.UpdateCommitment = s.Spec.UpdateCommitment
		s.Facts.DeltaValid = false
	}},
	{"delta-update-commitment-reuses-signing-key-padded", "u", func(h *histCtx, s *opStep) {
		s.Spec.UpdateCommitment = s.Spec.Signer.Commitment(h.code) + "="
		s.Facts.UpdateCommitment = s.Spec.UpdateCommitment
		s.Facts.DeltaValid = false
	}},
	{"recovery-commitment-padded", "cr", func(h *histCtx, s *opStep) {
		s.Spec.RecoveryCommitment = s.Spec.RecoveryCommitment + fw.Pick(h.r, []string{"=", "=="})
		s.Facts.RecoveryCommitment = s.Spec.RecoveryCommitment
		s.Facts.ParseOK = false
	}},
	{"recovery-commitment-equals-update-commitment-padded", "cr", func(h *histCtx, s *opStep) {
		s.Spec.RecoveryCommitment = s.Spec.UpdateCommitment + "="
		s.Facts.RecoveryCommitment = s.Spec.RecoveryCommitment
		s.Facts.ParseOK = false
	}},
	{"recovery-commitment-reuses-signing-key-padded", "r", func(h *histCtx, s *opStep) {
		s.Spec.RecoveryCommitment = s.Spec.Signer.Commitment(h.code) + "="
		s.Facts.RecoveryCommitment = s.Spec.RecoveryCommitment
		s.Facts.ParseOK = false
	}},
	{"delta-hash-padded", "cur", func(h *histCtx, s *opStep) {
		s.Spec.PostBuildDeltaHash = func(honest string) string { return honest + "=" }
		s.Facts.ParseOK = false
	}},
	{"reveal-padded", "urd", func(h *histCtx, s *opStep) {
		s.Spec.Reveal = gen.S(s.Spec.Signer.Reveal(h.code) + "=")
		s.Facts.ParseOK = false
	}},
	{"nonce-not-base64url", "urd", func(h *histCtx, s *opStep) {
		// right length for the configured size, but not base64url text
		n := len(oracle.B64(make([]byte, h.proto.NonceSize)))
		k := *s.Spec.Signer
		good := oracle.B64(h.r.Bytes(int(h.proto.NonceSize)))
		switch h.r.Intn(5) {
		case 0:
			k.Nonce = strings.Repeat("!", n)
		case 1:
			k.Nonce = good[:n-2] + "+/"
		case 2:
			k.Nonce = good[:n/2] + "=" + good[n/2+1:]
		case 3:
			k.Nonce = good[:n-1] + " "
		default:
			k.Nonce = "plain text nonce, 22 ch"[:n]
		}
		s.Spec.Signer = &k
		s.Facts.ParseOK = false
	}},
	{"delta-too-large", "cur", func(h *histCtx, s *opStep) {
		var keys []interface{}
		for i := 0; i < 40; i++ {
			keys = append(keys, gen.DocKey(h.r, fmt.Sprintf("bulk%d", i), gen.TJwk2020, []string{"authentication"}, "jwk"))
		}
		s.Spec.Patches = []interface{}{map[string]interface{}{"action": "add-public-keys", "publicKeys": keys}}
		s.Facts.Patches = s.Spec.Patches
		s.Facts.DeltaValid = false
	}},
	{"delta-exactly-at-size-limit (valid)", "cur", func(h *histCtx, s *opStep) {
		// a delta whose canonical form is exactly MaxDeltaSize bytes is within the limit: everything stays valid
		mk := func(n int) []interface{} {
			return []interface{}{gen.PAddAka("did:example:" + strings.Repeat("a", n)), gen.PAddKeys(gen.DocKey(h.r, "sizekey", gen.TJwk2020, []string{"authentication"}, "b58jwk"))}
		}
		key := gen.DocKey(h.r, "sizekey", gen.TJwk2020, []string{"authentication"}, "jwk")
		build := func(n int) []interface{} {
			return []interface{}{gen.PAddAka("did:example:" + strings.Repeat("a", n)), gen.PAddKeys(key)}
		}
		_ = mk
		size := func(ps []interface{}) int {
			return len(oracle.MustJCS(map[string]interface{}{"updateCommitment": s.Spec.UpdateCommitment, "patches": ps}))
		}
		base := size(build(0))
		pad := int(h.proto.MaxDeltaSize) - base
		if pad < 0 {
			return // configuration too small for this class: leave the operation as it is (still valid)
		}
		s.Spec.Patches = build(pad)
		s.Facts.Patches = s.Spec.Patches
	}},
	{"delta-one-byte-over-size-limit", "cur", func(h *histCtx, s *opStep) {
		key := gen.DocKey(h.r, "sizekey", gen.TJwk2020, []string{"authentication"}, "jwk")
		build := func(n int) []interface{} {
			return []interface{}{gen.PAddAka("did:example:" + strings.Repeat("a", n)), gen.PAddKeys(key)}
		}
		base := len(oracle.MustJCS(map[string]interface{}{"updateCommitment": s.Spec.UpdateCommitment, "patches": build(0)}))
		pad := int(h.proto.MaxDeltaSize) - base + 1
		if pad < 0 {
			pad = 0
		}
		s.Spec.Patches = build(pad)
		s.Facts.Patches = s.Spec.Patches
		s.Facts.DeltaValid = false
	}},
	{"patches-inapplicable", "cur", func(h *histCtx, s *opStep) {
		s.Spec.Patches = []interface{}{gen.PAddKeys(gen.RandDocKey(h.r, "ok1")), gen.PJSON(map[string]interface{}{"op": "remove", "path": "/ghost" + fmt.Sprint(h.r.Intn(100))})}
		s.Facts.Patches = s.Spec.Patches
		s.Facts.DeltaValid = h.hasIETF // without ietf enabled the delta is invalid instead: same observable for create/recover, refusal for update
	}},
	{"patches-inapplicable-before-replace", "cur", func(h *histCtx, s *opStep) {
		// the failing patch is followed by patches that would succeed on their own, the last one discarding everything before it:
		// the delta as a whole is still inapplicable
		s.Spec.Patches = []interface{}{gen.PJSON(map[string]interface{}{"op": fw.Pick(h.r, []string{"remove", "test"}), "path": "/ghost" + fmt.Sprint(h.r.Intn(100)), "value": 1}),
			gen.PAddServices(gen.RandService(h.r, "svcA")),
			gen.PReplace([]interface{}{gen.RandDocKey(h.r, "rk1")}, []interface{}{gen.RandService(h.r, "rs1")})}
		if h.r.Bool() {
			s.Spec.Patches = append(s.Spec.Patches, gen.PAddKeys(gen.RandDocKey(h.r, "after1")))
		}
		s.Facts.Patches = s.Spec.Patches
		s.Facts.DeltaValid = h.hasIETF
	}},
	{"recovery-commitment-reuses-signing-key", "r", func(h *histCtx, s *opStep) {
		s.Spec.RecoveryCommitment = s.Spec.Signer.Commitment(h.code)
		s.Facts.RecoveryCommitment = s.Spec.RecoveryCommitment
		s.Facts.ParseOK = false
	}},
	{"recovery-commitment-unsupported-algorithm", "cr", func(h *histCtx, s *opStep) {
		s.Spec.RecoveryCommitment = unsupportedHash(h.r)
		s.Facts.RecoveryCommitment = s.Spec.RecoveryCommitment
		s.Facts.ParseOK = false
	}},
	{"recovery-commitment-too-long", "cr", func(h *histCtx, s *opStep) {
		s.Spec.RecoveryCommitment = tooLongHash(h.r)
		s.Facts.RecoveryCommitment = s.Spec.RecoveryCommitment
		s.Facts.ParseOK = false
	}},
	{"signed-suffix-mismatch", "d", func(h *histCtx, s *opStep) {
		s.Spec.SignedSuffix = gen.S(oracle.MustModelHash(h.code, map[string]interface{}{"other": h.r.Intn(1000)}))
		s.Facts.ParseOK = false
		s.Facts.SuffixMatch = false
	}},
	{"signed-suffix-qualified", "d", func(h *histCtx, s *opStep) {
		// the signed suffix ends with the operation's suffix but is not equal to it: a whole DID, a namespace-less tail, another DID's prefix
		sfx := s.Spec.Suffix
		other := oracle.MustModelHash(h.code, map[string]interface{}{"other": h.r.Intn(1000)})
		s.Spec.SignedSuffix = gen.S(fw.Pick(h.r, []string{"did:ion:" + sfx, "did:sidetree:" + sfx, ":" + sfx, other + ":" + sfx}))
		s.Facts.ParseOK = false
		s.Facts.SuffixMatch = false
	}},
	{"signed-suffix-decorated", "d", func(h *histCtx, s *opStep) {
		sfx := s.Spec.Suffix
		other := oracle.MustModelHash(h.code, map[string]interface{}{"other": h.r.Intn(1000)})
		s.Spec.SignedSuffix = gen.S(fw.Pick(h.r, []string{sfx + ":", sfx + ":" + other, " " + sfx, sfx + " ", sfx + "=", strings.ToLower(sfx), "#" + sfx, sfx + "?x", sfx + "#", "/" + sfx}))
		s.Facts.ParseOK = false
		s.Facts.SuffixMatch = false
	}},
	{"key-coordinate-leading-zero-stripped", "urd", func(h *histCtx, s *opStep) {
		// the signing key's JWK carries a coordinate one byte short (its leading zero byte removed): same integer, malformed key
		if h.keyType == gen.Ed25519 {
			s.Spec.Reveal = gen.S(gen.NewKey(h.r, h.keyType).Reveal(h.code)) // no coordinates to shorten: a plain reveal mismatch instead
			s.Facts.ParseOK = false
			return
		}
		k, ok := gen.NewKeyLeadingZero(h.r, h.keyType, 600)
		if !ok {
			s.Spec.Reveal = gen.S(gen.NewKey(h.r, h.keyType).Reveal(h.code))
			s.Facts.ParseOK = false
			return
		}
		j := k.JWK()
		x, y := k.XY()
		if x[0] == 0 {
			j["x"] = oracle.B64(x[1:])
		} else {
			j["y"] = oracle.B64(y[1:])
		}
		// a self-consistent operation by that key (the applier does not know the previous commitment): only the key encoding is wrong
		s.Spec.Signer = k
		s.Spec.PayloadKey = j
		s.Facts.SigOK = false
	}},
	{"key-coordinate-boundary-shifted-after-genuine-use", "urd", func(h *histCtx, s *opStep) {
		// the key pair has just verified a signature somewhere else in the process (well-formed JWK); this operation commits to, reveals
		// and is signed under the same coordinates with the boundary between x and y moved: a malformed key, whatever was seen before
		if h.keyType == gen.Ed25519 {
			s.Spec.Reveal = gen.S(gen.NewKey(h.r, h.keyType).Reveal(h.code))
			s.Facts.ParseOK = false
			return
		}
		k := gen.NewKey(h.r, h.keyType)
		msg := h.r.Bytes(20)
		jwsutil.VerifySignature(toLibJWK(k.JWK()), k.Sign(h.r, msg), msg)
		j := k.JWK()
		xs, ys := fmt.Sprint(j["x"]), fmt.Sprint(j["y"])
		n := fw.Pick(h.r, []int{4, 8, 1, 2})
		if h.r.Bool() {
			j["x"], j["y"] = xs+ys[:n], ys[n:]
		} else {
			j["x"], j["y"] = xs[:len(xs)-n], xs[len(xs)-n:]+ys
		}
		s.Spec.Signer = k
		s.Spec.PayloadKey = j
		s.Facts.SigOK = false
	}},
	{"reveal-mismatch-with-matching-signed-reveal-value", "urd", func(h *histCtx, s *opStep) {
		// the request names another key's reveal value; the signed data additionally carries the right one as an unused member
		honest := s.Spec.Signer.Reveal(h.code)
		s.Spec.Reveal = gen.S(gen.NewKey(h.r, h.keyType).Reveal(h.code))
		s.Spec.PayloadEdit = func(p map[string]interface{}) { p["revealValue"] = honest }
		s.Facts.ParseOK = false
	}},
	{"envelope-names-another-anchor-origin (valid: the request decides)", "cr", func(h *histCtx, s *opStep) {
		s.EnvelopeAnchorOrigin = fw.Pick(h.r, []interface{}{"https://envelope.example/other-origin", map[string]interface{}{"domain": "envelope.example"}, 7.0})
	}},
	{"signed-suffix-missing", "d", func(h *histCtx, s *opStep) {
		s.Spec.PayloadEdit = func(p map[string]interface{}) { delete(p, "didSuffix") }
		s.Facts.ParseOK = false
		s.Facts.SuffixMatch = false
	}},
	{"signed-suffix-empty", "d", func(h *histCtx, s *opStep) {
		s.Spec.SignedSuffix = gen.S("")
		s.Facts.ParseOK = false
		s.Facts.SuffixMatch = false
	}},
	{"create-missing-suffix-data", "c", func(h *histCtx, s *opStep) {
		s.Spec.RequestEdit = func(m map[string]interface{}) { delete(m, "suffixData") }
		s.Facts.ParseOK = false
	}},
	{"create-delta-hash-unsupported-algorithm", "c", func(h *histCtx, s *opStep) {
		s.Spec.DeltaHash = gen.S(unsupportedHash(h.r))
		s.Facts.ParseOK = false
	}},
	{"create-delta-hash-too-long", "c", func(h *histCtx, s *opStep) {
		s.Spec.DeltaHash = gen.S(tooLongHash(h.r))
		s.Facts.ParseOK = false
	}},
	{"unknown-operation-type", "curd", func(h *histCtx, s *opStep) {
		s.AnchoredType = fw.Pick(h.r, []string{"frobnicate", "", "Create", "UPDATE"})
		s.Facts.Type = s.AnchoredType
	}},
}

func classesFor(typ byte) []failClass {
	var out []failClass
	for _, fc := range failClasses {
		if strings.IndexByte(fc.types, typ) >= 0 {
			out = append(out, fc)
		}
	}
	return out
}

func typeName(t byte) string {
	switch t {
	case 'c':
		return "create"
	case 'u':
		return "update"
	case 'r':
		return "recover"
	case 'd':
		return "deactivate"
	}
	return "?"
}

func randAnchor(r *fw.Rand, prevTime uint64) oracle.Anchor {
	a := oracle.Anchor{Time: prevTime + uint64(r.Range(1, 100000)), Number: uint64(r.Intn(1000)), Proto: uint64(r.Intn(5)) * 100}
	a.CanonicalReference = fmt.Sprintf("uEi%s", oracle.B64(r.Bytes(9)))
	for i, n := 0, r.Intn(3); i < n; i++ {
		a.EquivalentReferences = append(a.EquivalentReferences, fmt.Sprintf("hl:uEi%s:ref%d", oracle.B64(r.Bytes(6)), i))
	}
	return a
}

func randAnchorOrigin(r *fw.Rand) interface{} {
	switch r.Intn(4) {
	case 0:
		return nil
	case 1:
		if r.Chance(1, 4) {
			return fw.Pick(r, []interface{}{[]interface{}{"a", map[string]interface{}{"b": 1}}, float64(r.Intn(100)), true, ""})
		}
		return map[string]interface{}{"domain": fmt.Sprintf("origin%d.example", r.Intn(100)), "n": r.Intn(10)}
	}
	return fmt.Sprintf("https://origin%d.example.com/services/orb", r.Intn(1000))
}

// simple patches for histories: the seven dedicated actions plus quirk-free ietf operations on free members.
func histPatches(h *histCtx, doc map[string]interface{}) []interface{} {
	r := h.r
	n := r.Range(1, 3)
	var out []interface{}
	for i := 0; i < n; i++ {
		if h.hasIETF && r.Chance(1, 4) {
			name := fw.Pick(r, []string{"foo", "bar", "meta"})
			val := fw.Pick(r, []interface{}{1, "v", map[string]interface{}{"a": []interface{}{1, 2}}, true,
				// values whose canonical form is easy to get wrong: member names ordered by UTF-16 units (BMP above the surrogates vs
				// astral), names related by prefix, numbers beyond 2^53 / 2^63, exponents, characters encoding/json escapes
				map[string]interface{}{"\uff21": 1, "\U0001F600": 2, "\ue000": 3, "\ud7ff": 4, "a": 5, "ab": 6, "": 7},
				map[string]interface{}{"big": 9223372036854775808.0, "bigger": 1e20, "huge": 1e21, "tiny": 1e-7, "odd": 9007199254740993.0, "neg": -2.5e-8},
				"<a&b>\u2028\u2029 \u007f \u00e9 \\u0041", []interface{}{nil, []interface{}{}, map[string]interface{}{}, -0.0},
				// one string holding both a character that JSON encoders escape and characters outside the BMP
				// every control character: the two-character escapes, the six-character ones with one and with two significant digits, DEL and C1
				"\u0000\u0001\u0007\b\t\n\u000b\f\r\u000e\u000f\u0010\u001f\u007f\u0080\u009f", map[string]interface{}{"ctl\u0003name": "\u000b", "c1\u0085": "\u009f", "dir": "C:\\temp\\", "end\\": "\\"},
				"q\"uote \U0001F600 new\nline \U00010000 & \U0010FFFF", map[string]interface{}{"na\"me\U0001F600": "v\\\U0001F601", "neg": -2.5e-7, "negbig": -1e21, "neglong": -1500000000000.0}})
			out = append(out, gen.PJSON(map[string]interface{}{"op": "add", "path": "/" + name, "value": val}))
			continue
		}
		out = append(out, gen.RandSimplePatch(r))
	}
	return out
}

// planStep builds the step for plan entry (typ, class) given the current chain and time.
func planStep(h *histCtx, typ byte, class string, prevTime uint64, modelDoc map[string]interface{}, extra func(h *histCtx, s *opStep)) *opStep {
	r := h.r
	s := &opStep{Class: class, Anchor: randAnchor(r, prevTime), AnchoredType: typeName(typ), Facts: oracle.ValidFacts(typeName(typ))}
	patches := histPatches(h, modelDoc)
	// "valid" means valid under this protocol: the canonical delta stays below the configured size limit
	for tries := 0; len(oracle.MustJCS(patches)) > int(h.proto.MaxDeltaSize)-400; tries++ {
		patches = histPatches(h, modelDoc)
		if tries > 6 {
			patches = []interface{}{gen.PAddAka("did:example:small")}
		}
	}
	switch typ {
	case 'c':
		spec, ch := gen.NewChainCreate(r, h.code, h.keyType, patches)
		if h.ch == nil {
			h.ch = ch
		} else {
			// a second create in the same history: keep the existing chain, the create carries fresh keys
			s.nextU, s.nextR = ch.UpdateKey, ch.RecoverKey
		}
		spec.AnchorOrigin = randAnchorOrigin(r)
		if r.Chance(1, 4) {
			spec.CreateType = fw.Pick(r, []string{"t" + fmt.Sprint(r.Intn(9)), "did-entity-type", "schema.org/Organization", "urn:example:iot-device", "type with blanks", "caf\u00e9", "1"})
		}
		s.Spec = spec
		s.nextU, s.nextR = ch.UpdateKey, ch.RecoverKey
	case 'u':
		if h.ch == nil {
			h.ch = &gen.Chain{Code: h.code, KeyType: h.keyType, UpdateKey: gen.NewKey(r, h.keyType), RecoverKey: gen.NewKey(r, h.keyType), Suffix: oracle.MustModelHash(h.code, map[string]interface{}{"x": r.Intn(1000)})}
		}
		s.Spec, s.nextU = h.ch.NextUpdate(r, patches)
	case 'r':
		if h.ch == nil {
			h.ch = &gen.Chain{Code: h.code, KeyType: h.keyType, UpdateKey: gen.NewKey(r, h.keyType), RecoverKey: gen.NewKey(r, h.keyType), Suffix: oracle.MustModelHash(h.code, map[string]interface{}{"x": r.Intn(1000)})}
		}
		s.Spec, s.nextU, s.nextR = h.ch.NextRecover(r, patches)
		s.Spec.AnchorOrigin = randAnchorOrigin(r)
	case 'd':
		if h.ch == nil {
			h.ch = &gen.Chain{Code: h.code, KeyType: h.keyType, UpdateKey: gen.NewKey(r, h.keyType), RecoverKey: gen.NewKey(r, h.keyType), Suffix: oracle.MustModelHash(h.code, map[string]interface{}{"x": r.Intn(1000)})}
		}
		s.Spec = h.ch.NextDeactivate()
	}
	// valid variations: keys with a correctly sized nonce, in-window bounds
	if typ != 'c' {
		if r.Chance(1, 4) {
			s.Spec.Signer = s.Spec.Signer.WithNonce(r, int(h.proto.NonceSize))
		}
		if r.Chance(1, 3) {
			// the key id header is free text as far as the protocol goes: plain ids, fragments, DID URLs, long values
			s.Spec.Headers = map[string]interface{}{"alg": s.Spec.Signer.Alg(), "kid": fw.Pick(r, []string{fmt.Sprintf("key-%d", r.Intn(10)), "#update-key", "did:example:123#key-1",
				"https://example.com/keys/1?x=y", strings.Repeat("k", 80), "key with blanks", "cl\u00e9-1", "1"})}
		}
		t := int64(s.Anchor.Time)
		switch r.Intn(6) {
		case 0:
			s.Spec.AnchorFrom, s.Spec.AnchorUntil = t-int64(r.Intn(50)), t+int64(r.Intn(50))
		case 1:
			s.Spec.AnchorFrom = t - int64(r.Intn(int(h.proto.MaxOperationTimeDelta)+1))
		case 2:
			s.Spec.AnchorUntil = t + int64(r.Intn(50))
		}
	}
	s.Facts.Patches = s.Spec.Patches
	s.Facts.UpdateCommitment = s.Spec.UpdateCommitment
	s.Facts.RecoveryCommitment = s.Spec.RecoveryCommitment
	s.Facts.AnchorOrigin = s.Spec.AnchorOrigin
	if class != "valid" && class != "wrong-state" {
		for _, fc := range failClasses {
			if fc.name == class {
				fc.mutate(h, s)
			}
		}
	}
	if extra != nil {
		extra(h, s)
	}
	s.Built = s.Spec.Build(r)
	if typ == 'c' && h.ch.Suffix == "" {
		h.ch.Suffix = s.Built.Suffix
	}
	if s.PostBuild != nil {
		s.PostBuild(h, s)
	}
	return s
}

// anchoredOf builds the library's AnchoredOperation for a step.
func anchoredOf(s *opStep, suffix string) *operation.AnchoredOperation {
	a := anchoredOfPlain(s, suffix)
	if s.EnvelopeAnchorOrigin != nil {
		a.AnchorOrigin = s.EnvelopeAnchorOrigin
	}
	return a
}

func anchoredOfPlain(s *opStep, suffix string) *operation.AnchoredOperation {
	return &operation.AnchoredOperation{
		Type:                 operation.Type(s.AnchoredType),
		UniqueSuffix:         suffix,
		OperationRequest:     append([]byte{}, s.Built.Request...),
		TransactionTime:      s.Anchor.Time,
		TransactionNumber:    s.Anchor.Number,
		ProtocolVersion:      s.Anchor.Proto,
		CanonicalReference:   s.Anchor.CanonicalReference,
		EquivalentReferences: append([]string(nil), s.Anchor.EquivalentReferences...),
		AnchorOrigin:         s.Spec.AnchorOrigin,
	}
}

func strSliceEq(a, b []string) bool {
	if len(a) != len(b) {
		return false
	}
	for i := range a {
		if a[i] != b[i] {
			return false
		}
	}
	return true
}

// compareState returns "" if the applier's state equals the model's, else a description.
func compareState(actual *protocol.ResolutionModel, m *oracle.State, pubs, unpubs []*operation.AnchoredOperation) string {
	if actual == nil {
		return "applier returned no state"
	}
	if (actual.Doc != nil) != m.Exists {
		return fmt.Sprintf("document existence: got %v want %v", actual.Doc != nil, m.Exists)
	}
	if m.Exists {
		gd, err := sut.FromDoc(actual.Doc)
		if err != nil {
			return "document not JSON"
		}
		if !oracle.DocEqual(gd, m.Doc) {
			return "Doc: " + describeDiff(oracle.NormalizeDoc(m.Doc), oracle.NormalizeDoc(gd))
		}
	}
	checks := []struct {
		name     string
		got, exp interface{}
	}{
		{"UpdateCommitment", actual.UpdateCommitment, m.UpdateCommitment},
		{"RecoveryCommitment", actual.RecoveryCommitment, m.RecoveryCommitment},
		{"Deactivated", actual.Deactivated, m.Deactivated},
		{"CreatedTime", actual.CreatedTime, m.CreatedTime},
		{"UpdatedTime", actual.UpdatedTime, m.UpdatedTime},
		{"LastOperationTransactionTime", actual.LastOperationTransactionTime, m.LastTime},
		{"LastOperationTransactionNumber", actual.LastOperationTransactionNumber, m.LastNumber},
		{"LastOperationProtocolVersion", actual.LastOperationProtocolVersion, m.LastProto},
		{"VersionID", actual.VersionID, m.VersionID},
		{"CanonicalReference", actual.CanonicalReference, m.CanonicalReference},
	}
	for _, ck := range checks {
		if ck.got != ck.exp {
			return fmt.Sprintf("%s: got %v want %v", ck.name, ck.got, ck.exp)
		}
	}
	if !strSliceEq(actual.EquivalentReferences, m.EquivalentReferences) {
		return fmt.Sprintf("EquivalentReferences: got %v want %v", actual.EquivalentReferences, m.EquivalentReferences)
	}
	ga, _ := oracle.Generic(actual.AnchorOrigin)
	ea, _ := oracle.Generic(m.AnchorOrigin)
	if !oracle.JSONEqual(ga, ea) {
		return fmt.Sprintf("AnchorOrigin: got %v want %v", ga, ea)
	}
	if !sameOps(actual.PublishedOperations, pubs) {
		return "PublishedOperations not carried over unchanged"
	}
	if !sameOps(actual.UnpublishedOperations, unpubs) {
		return "UnpublishedOperations not carried over unchanged"
	}
	return ""
}

func sameOps(a, b []*operation.AnchoredOperation) bool {
	if len(a) != len(b) {
		return false
	}
	for i := range a {
		if a[i] != b[i] {
			return false
		}
	}
	return true
}

func randOpList(r *fw.Rand) []*operation.AnchoredOperation {
	n := r.Intn(4)
	var out []*operation.AnchoredOperation
	for i := 0; i < n; i++ {
		out = append(out, &operation.AnchoredOperation{Type: operation.TypeUpdate, UniqueSuffix: "s" + fmt.Sprint(r.Intn(100)),
			OperationRequest: r.Bytes(8), TransactionTime: uint64(r.Intn(1000)), TransactionNumber: uint64(r.Intn(10)), CanonicalReference: "ref" + fmt.Sprint(r.Intn(50))})
	}
	return out
}

// planEntry is (operation type, class) - class "valid" or a failClass name or "wrong-state".
type planEntry struct {
	typ    byte
	class  string
	mutate func(h *histCtx, s *opStep) // optional ad-hoc tampering (C02/C09), applied like a failClass
}

type histResult struct {
	Steps    int
	Outcomes string
}

// runHistory generates and executes one history. mode "C01": compare every
// state with the model. mode "C12": snapshot inputs around every Apply.
func runHistory(c *fw.Case, plan []planEntry, keyType string, code uint64, withIETF bool, mode string) {
	runHistoryProto(c, plan, keyType, code, histProto(withIETF), withIETF, mode)
}

// histStackFactory builds the stack a history runs on (C09 swaps in stacks with a hostile time validator).
var histStackFactory = sut.SharedStack

// histNoRequestParse is set by cases that count calls to request-time validators: the runner then never parses a request in non-batch mode itself.
var histNoRequestParse bool

// runHistoryProto is runHistory with an explicit protocol configuration.
func runHistoryProto(c *fw.Case, plan []planEntry, keyType string, code uint64, proto protocol.Protocol, withIETF bool, mode string) {
	r := c.Rng
	// the genesis time of the protocol is bookkeeping only: no outcome may depend on it
	proto.GenesisTime = fw.Pick(r, []uint64{0, 0, 777, 1000000})
	st := histStackFactory(proto)
	// anchored operations are applied in batch mode: request-time validators (anchor origin, server time) have no say.
	// A fifth of the histories runs on a stack whose validators refuse everything; outcomes must be the same.
	hostile := &hostileValidators{}
	hostileStack := false
	if r.Chance(1, 5) {
		hostileStack = true
		st = sut.NewStack(proto, operationparser.WithAnchorOriginValidator(hostile), operationparser.WithAnchorTimeValidator(hostileTime{hostile}))
		c.Count("histories-with-refusing-validators", 1)
	}
	defer func() {
		if hostile.calls > 0 {
			c.Failf("applier-consults-request-time-validators", map[string]interface{}{"calls": hostile.calls}, "applying anchored operations consulted request-time validators %d times", hostile.calls)
		}
	}()
	h := &histCtx{r: r, proto: proto, code: code, keyType: keyType, hasIETF: withIETF, st: st, c: c}
	pubs, unpubs := randOpList(r), randOpList(r)
	actual := &protocol.ResolutionModel{PublishedOperations: pubs, UnpublishedOperations: unpubs}
	model := &oracle.State{}
	prevTime := uint64(r.Range(10000, 2000000000))
	outcomes := ""
	var trace []interface{}
	for i, pe := range plan {
		s := planStep(h, pe.typ, pe.class, prevTime, model.Doc, pe.mutate)
		prevTime = s.Anchor.Time
		suffix := h.ch.Suffix
		anch := anchoredOf(s, suffix)
		want, accepted, outcome := oracle.Step(model, s.Facts, s.Anchor)
		outcomes += fmt.Sprintf("%c:%s;", pe.typ, outcome)
		trace = append(trace, map[string]interface{}{"step": i, "type": s.AnchoredType, "class": s.Class, "expected_outcome": outcome,
			"request": string(s.Built.Request), "anchor": s.Anchor})
		var snapRM, snapOp interface{}
		if mode == "C12" {
			snapRM, snapOp = deepCopy(actual), deepCopy(anch)
		}
		if r.Chance(1, 5) {
			// the operation being applied is also listed among the state's unpublished operations (it was seen before it was
			// anchored), together with others and not in the last place: the lists pass through untouched
			twin := anchoredOf(s, suffix)
			extra := randOpList(r)
			unpubs = append(append(append([]*operation.AnchoredOperation{}, unpubs...), twin), extra...)
			unpubs = append(unpubs, &operation.AnchoredOperation{Type: operation.TypeUpdate, UniqueSuffix: suffix, OperationRequest: []byte("other-unpublished"), TransactionTime: 3})
			cp := *actual
			cp.UnpublishedOperations = unpubs
			actual = &cp
			if mode == "C12" {
				snapRM = deepCopy(actual)
			}
			c.Count("applied-operation-also-listed-as-unpublished", 1)
		}
		c.Journal(s.Built.Request)
		got, err := st.Applier.Apply(anch, actual)
		c.Evals(1)
		c.Count("steps", 1)
		c.Count("outcome:"+outcome, 1)
		w := map[string]interface{}{"history": trace, "key_type": keyType, "code": code, "step": i, "class": s.Class, "expected_outcome": outcome, "err": fmt.Sprint(err)}
		c12 := mode == "C12"
		if c12 {
			if !reflect.DeepEqual(snapRM, deepCopy(actual)) {
				w["diff"] = describeDiff(snapRM, actual)
				c.Failf("previous-state-mutated", w, "Apply modified the previous resolution model (%s, %s)", s.Class, w["diff"])
				return
			}
			if !reflect.DeepEqual(snapOp, deepCopy(anch)) {
				c.Failf("operation-mutated", w, "Apply modified the anchored operation (%s)", s.Class)
				return
			}
			if err != nil && got != nil {
				c.Failf("state-with-error", w, "Apply returned both a state and an error (%s)", s.Class)
				return
			}
			if err == nil && got == nil {
				c.Failf("no-state-no-error", w, "Apply returned neither state nor error (%s)", s.Class)
				return
			}
		}
		{
			if accepted != (err == nil) {
				if accepted {
					c.Failf("refused-but-expected-"+strings.SplitN(outcome, ":", 2)[0], w, "step %d (%s %s): expected %s, applier refused: %v", i, s.AnchoredType, s.Class, outcome, err)
				} else {
					w["got_state"] = got
					c.Failf("accepted-but-expected-refusal:"+s.Class, w, "step %d (%s %s): expected refusal (%s), applier accepted", i, s.AnchoredType, s.Class, outcome)
				}
				return
			}
			if err != nil && got != nil {
				c.Failf("state-with-error", w, "refused operation returned a state")
				return
			}
			if accepted {
				if d := compareState(got, want, pubs, unpubs); d != "" {
					w["diff"] = d
					c.Failf("state-mismatch:"+strings.SplitN(d, ":", 2)[0], w, "step %d (%s %s, expected %s): %s", i, s.AnchoredType, s.Class, outcome, d)
					return
				}
			}
		}
		// the same operation handed to the same applier once more, against the same previous state, must be judged
		// the same way (nothing remembered from the first call - parsed signed data, verified signatures, composed
		// documents - may decide the second); refused operations are always repeated, accepted ones one time in three
		if mode != "C12" && (!accepted || r.Chance(1, 3)) {
			if r.Bool() && !hostileStack && !histNoRequestParse {
				// in between, the parser also sees the request in the other parsing mode
				st.Parser.Parse("did:sidetree", s.Built.Request)
			}
			got2, err2 := st.Applier.Apply(anchoredOf(s, suffix), actual)
			c.Count("repeated-applications", 1)
			c.Evals(1)
			if (err2 == nil) != (err == nil) {
				w["second_err"] = fmt.Sprint(err2)
				c.Failf("repeated-application-differs:"+s.Class, w, "step %d (%s %s): first application returned err=%v, the identical second one err=%v", i, s.AnchoredType, s.Class, err, err2)
				return
			}
			if err2 == nil {
				if d := compareState(got2, want, pubs, unpubs); d != "" {
					w["diff"] = d
					c.Failf("repeated-application-state-differs", w, "step %d (%s %s): the identical second application yields another state: %s", i, s.AnchoredType, s.Class, d)
					return
				}
			}
		}
		// the same operation, had it been anchored at another time: the window is judged against THAT time by the same applier (what it
		// remembers of the first look - verified signatures, parsed signed data - does not carry the first verdict over)
		if mode != "C12" && pe.typ != 'c' && (s.Class == "valid" || strings.HasPrefix(s.Class, "window")) && s.Spec.RawPayload == nil && s.Spec.PayloadEdit == nil && r.Chance(1, 3) {
			from, until, delta := s.Spec.AnchorFrom, s.Spec.AnchorUntil, h.proto.MaxOperationTimeDelta
			eu := oracle.EffectiveUntil(from, until, delta)
			cands := []int64{from - 1, from, eu, eu + 1, int64(s.Anchor.Time) + 1000000, 1, int64(s.Anchor.Time) - 1}
			t2 := fw.Pick(r, cands)
			if t2 >= 0 && uint64(t2) != s.Anchor.Time {
				s2 := *s
				s2.Anchor.Time = uint64(t2)
				f2 := s.Facts
				f2.InWindow = oracle.Window(from, until, uint64(t2), delta)
				want2, accepted2, outcome2 := oracle.Step(model, f2, s2.Anchor)
				got2, err2 := st.Applier.Apply(anchoredOf(&s2, suffix), actual)
				c.Count("re-anchored-applications", 1)
				c.Evals(1)
				w2 := map[string]interface{}{"history": trace, "key_type": keyType, "code": code, "step": i, "class": s.Class, "first_anchoring_time": s.Anchor.Time, "first_outcome": outcome,
					"second_anchoring_time": t2, "anchorFrom": from, "anchorUntil": until, "MaxOperationTimeDelta": delta, "expected_outcome": outcome2, "err": fmt.Sprint(err2)}
				if accepted2 != (err2 == nil) {
					c.Failf("re-anchored-application-differs:"+outcome2, w2, "step %d (%s %s): applied again as anchored at %d (window [%d, %d]), expected %s, applier returned err=%v", i, s.AnchoredType, s.Class, t2, from, eu, outcome2, err2)
					return
				}
				if err2 == nil {
					if d := compareState(got2, want2, pubs, unpubs); d != "" {
						w2["diff"] = d
						c.Failf("re-anchored-application-state-differs", w2, "step %d (%s %s): applied again as anchored at %d, expected %s: %s", i, s.AnchoredType, s.Class, t2, outcome2, d)
						return
					}
				}
			}
		}
		if err == nil {
			actual = got
		}
		if accepted {
			model = want
			// advance the chain keys the way an honest controller would
			switch pe.typ {
			case 'c':
				h.ch.UpdateKey, h.ch.RecoverKey, h.ch.Suffix = s.nextU, s.nextR, s.Built.Suffix
			case 'u':
				h.ch.UpdateKey = s.nextU
			case 'r':
				h.ch.UpdateKey, h.ch.RecoverKey = s.nextU, s.nextR
			}
			if model.Deactivated {
				break
			}
		}
	}
	c.Sig(outcomes, keyType)
	c.Sample(map[string]interface{}{"key_type": keyType, "code": code, "outcomes": outcomes, "first_request": trace[0].(map[string]interface{})["request"]})
}

const invalidPatchVariants = 41

// invalidPatchDelta installs a delta whose second patch breaks one patch-validation constraint (variant 0..25).
func invalidPatchDelta(h *histCtx, s *opStep, variant int) {
	bad := gen.RandDocKey(h.r, strings.Repeat("k", 51))
	var badPatch map[string]interface{}
	edKey := func() map[string]interface{} {
		return gen.DocKey(h.r, "key1", gen.TEd2018, []string{"authentication"}, "jwk")
	}
	switch variant {
	case 0:
		bad = gen.RandDocKey(h.r, "key1")
		bad["extra"] = true
	case 1: // key material present but unusable
		bad = edKey()
		bad["publicKeyJwk"] = nil
	case 2:
		bad = edKey()
		bad["publicKeyJwk"] = "not-an-object"
	case 3:
		bad = edKey()
		delete(bad, "publicKeyJwk")
		bad["publicKeyBase58"] = ""
	case 4:
		bad = edKey()
		delete(bad, "publicKeyJwk")
	case 5:
		bad = edKey()
		bad["purposes"] = []interface{}{"authentication", "frobnication"}
	case 6:
		bad = edKey()
		bad["id"] = "key 1"
	case 7:
		bad = edKey()
		delete(bad, "type")
	case 8:
		sv := gen.RandService(h.r, "svc1")
		sv["type"] = strings.Repeat("t", 31)
		badPatch = gen.PAddServices(sv)
	case 9:
		sv := gen.RandService(h.r, "svc1")
		sv["serviceEndpoint"] = "not a uri"
		badPatch = gen.PAddServices(sv)
	case 10:
		badPatch = gen.PAddAka("https://ok.example", "::not a uri::")
	case 11:
		badPatch = gen.PRemoveKeys("ok", "bad id")
	case 12:
		badPatch = gen.PReplace([]interface{}{edKey(), edKey()}, nil) // duplicate ids
	case 13:
		badPatch = gen.PRemoveServices()
	case 14:
		bad = edKey()
		bad["id"] = ""
	case 15:
		bad = edKey()
		bad["id"] = nil
	case 16:
		badPatch = gen.PRemoveKeys("")
	case 17:
		badPatch = gen.PRemoveServices("ok", "")
	case 18:
		bad = edKey()
		bad["purposes"] = nil
	case 19:
		bad = edKey()
		bad[""] = 1
	case 20:
		// every operation of an ietf-json-patch is checked, also the ones after a move / copy
		if h.hasIETF {
			badPatch = gen.PJSON(map[string]interface{}{"op": "add", "path": "/note", "value": 1}, map[string]interface{}{"op": fw.Pick(h.r, []string{"copy", "move"}), "from": "/note", "path": "/note2"},
				map[string]interface{}{"op": "remove", "path": fw.Pick(h.r, []string{"/publicKey/0", "/service", "/publicKey"})})
		}
	case 21:
		if h.hasIETF {
			badPatch = gen.PJSON(map[string]interface{}{"op": "copy", "from": fw.Pick(h.r, []string{"/publicKey/0", "/service/0/serviceEndpoint", "/publicKey", "not-a-pointer"}), "path": "/stolen"})
		}
	case 22:
		// the same URI twice, in a spelling URI libraries re-spell
		u := fw.Pick(h.r, []string{"https://m\u00fcnchen.example/profile/jos\u00e9", "https://example.com/my profile", "HTTPS://Example.com/x", "did:example:bob"})
		badPatch = gen.PAddAka("https://ok.example", u, u)
	case 23:
		bad = edKey()
		bad["publicKeyJwk"] = map[string]interface{}{"kty": "OKP", "x": oracle.B64(h.r.Bytes(32))} // no curve
	case 24:
		bad = edKey()
		bad["id"] = ""
		bad["publicKeyJwk"].(map[string]interface{})["kid"] = "key1" // an id elsewhere does not replace the key's own id
	case 25:
		badPatch = map[string]interface{}{"action": "replace", "document": map[string]interface{}{"publicKeys": []interface{}{edKey()}, fw.Pick(h.r, []string{"id", "@context", "controller", "alsoKnownAs"}): nil}}
	case 26:
		// every string entry of an endpoint list is a URI, also the ones after an endpoint object
		sv := gen.RandService(h.r, "svc1")
		sv["serviceEndpoint"] = []interface{}{map[string]interface{}{"uri": "https://ok.example"}, fw.Pick(h.r, []string{"not a uri", "", "://x"})}
		badPatch = gen.PAddServices(sv)
	case 27:
		sv := gen.RandService(h.r, "svc1")
		sv["serviceEndpoint"] = fw.Pick(h.r, []string{"https://example.com/path#%zz", "https://example.com/a#frag\x7f", "https://example.com/#\x01"})
		badPatch = gen.PAddServices(sv)
	case 28, 29:
		// a patch list of no operations is not a patch (every action wants a non-empty list)
		if h.hasIETF {
			badPatch = map[string]interface{}{"action": "ietf-json-patch", "patches": []interface{}{}}
			if variant == 29 {
				badPatch["patches"] = nil
			}
		}
	case 30:
		badPatch = map[string]interface{}{"action": "add-public-keys", "publicKeys": []interface{}{}}
	case 31:
		badPatch = map[string]interface{}{"action": "add-services", "services": []interface{}{}}
	case 32:
		badPatch = map[string]interface{}{"action": "add-also-known-as", "uris": []interface{}{}}
	case 33:
		badPatch = map[string]interface{}{"action": "remove-also-known-as", "uris": []interface{}{}}
	case 34:
		badPatch = map[string]interface{}{"action": "remove-public-keys", "ids": []interface{}{}}
	case 35:
		// an action without its value, or with the value under another action's name
		badPatch = map[string]interface{}{"action": fw.Pick(h.r, []string{"remove-public-keys", "remove-services", "add-public-keys", "add-services", "add-also-known-as", "remove-also-known-as", "replace"})}
	case 36:
		badPatch = fw.Pick(h.r, []map[string]interface{}{{"action": "remove-public-keys", "uris": []interface{}{"key1"}}, {"action": "remove-also-known-as", "ids": []interface{}{"https://a.example"}},
			{"action": "add-public-keys", "services": []interface{}{edKey()}}, {"action": "replace", "publicKeys": []interface{}{edKey()}}})
	case 39, 40:
		// an entry of the patch list that has no members at all ({} or null), next to a valid patch or alone: not a patch
		var empty interface{} = map[string]interface{}{}
		if variant == 40 {
			empty = nil
		}
		s.Spec.Patches = fw.Pick(h.r, [][]interface{}{{gen.PAddKeys(gen.RandDocKey(h.r, "ok1")), empty}, {empty, gen.PAddKeys(gen.RandDocKey(h.r, "ok1"))}, {empty}})
		s.Facts.Patches = s.Spec.Patches
		s.Facts.DeltaValid = false
		return
	case 38:
		// a required JWK member that is present but not a text
		bad = edKey()
		bad["publicKeyJwk"].(map[string]interface{})[fw.Pick(h.r, []string{"kty", "crv", "x"})] = fw.Pick(h.r, []interface{}{nil, 7, true, []interface{}{}, map[string]interface{}{}})
	case 37:
		// the same URI in two spellings (scheme case, escaped / unescaped path character) is listed twice
		pair := fw.Pick(h.r, [][]string{{"HTTPS://abc.example/a", "https://abc.example/a"}, {"https://abc.example/a b", "https://abc.example/a%20b"}, {"Did:example:x", "did:example:x"}})
		if h.r.Bool() {
			pair[0], pair[1] = pair[1], pair[0]
		}
		badPatch = fw.Pick(h.r, []map[string]interface{}{gen.PAddAka("https://ok.example", pair[0], pair[1]), gen.PRemoveAka(pair[0], pair[1])})
	}
	if badPatch == nil {
		badPatch = gen.PAddKeys(bad)
	}
	s.Spec.Patches = []interface{}{gen.PAddKeys(gen.RandDocKey(h.r, "ok1")), badPatch}
	s.Facts.Patches = s.Spec.Patches
	s.Facts.DeltaValid = false
}

// every variant also as a class of its own, so that each check that walks the classes meets each constraint
func init() {
	for v := 0; v < invalidPatchVariants; v++ {
		v := v
		failClasses = append(failClasses, failClass{fmt.Sprintf("delta-invalid-patch/%d", v), "cur", func(h *histCtx, s *opStep) { invalidPatchDelta(h, s, v) }})
	}
}
