package checks

import (
	"crypto/sha256"
	"encoding/json"
	"fmt"
	"github.com/trustbloc/bbs-signature-go/bbs12381g2pub"
	"sort"
	"strings"

	docdid "github.com/trustbloc/did-go/doc/did"
	"github.com/trustbloc/did-go/doc/did/endpoint"
	vdrapi "github.com/trustbloc/did-go/vdr/api"
	"github.com/trustbloc/kms-go/doc/jose/jwk/jwksupport"

	"github.com/trustbloc/sidetree-go/pkg/vdr/sidetreelongform"
	"github.com/trustbloc/sidetree-go/pkg/vdr/sidetreelongform/dochandler"

	"verifharness/fw"
	"verifharness/gen"
	"verifharness/oracle"
)

func init() {
	fw.Register(&fw.Check{
		ID:          "C17",
		Rule:        "cases: DID documents within the shipped size limits (0..4 verification methods of the supported types, 1..5 relationships each, JWK and raw-bytes material, 0..2 services, also-known-as): VDR.Create -> the long-form DID is decoded by the harness (strict base64url, reference JCS, reference suffix hash) -> VDR.Read must give an equivalent document, the requested id, the short form as equivalent id and the embedded commitments; 12 repeated creations must give one DID; ProcessOperation's result must resolve to itself. Rejections through DocumentHandler.ResolveDocument: every single-character substitution at every position of a valid DID (4 substitutes per position), re-encodings of the initial state (whitespace, member order, '=' padding, embedded newline, non-canonical trailing bits), suffix swapped with another DID's, short form, and handler/DID namespaces related by prefix (did:io, did:ion, did:ionx, did:ion:x, did:ION). distinct = (document shape, rejection class, position bucket).",
		Assumptions: []string{"harness base64url / JCS / multihash codec", "did-go document parsing for reading back the resolved document"},
		Require:     []string{"created", "read-back", "repeat-creations", "single-char-changes", "single-char-insertions", "single-char-deletions", "reencodings", "namespace-pairs", "process-operation", "largest-documents-created"},
		Workers:     func(string) int { return 15 },
		Run:         runC17,
	})
}

type c17Key struct {
	frag  string
	typ   string
	rels  []docdid.VerificationRelationship
	value []byte
}

var relNames = map[docdid.VerificationRelationship]string{
	docdid.Authentication: "authentication", docdid.AssertionMethod: "assertionMethod", docdid.CapabilityDelegation: "capabilityDelegation",
	docdid.CapabilityInvocation: "capabilityInvocation", docdid.KeyAgreement: "keyAgreement",
}

var allRels = []docdid.VerificationRelationship{docdid.Authentication, docdid.AssertionMethod, docdid.CapabilityDelegation, docdid.CapabilityInvocation, docdid.KeyAgreement}

// c17Doc draws a DID document and the description used for comparison.
func c17Doc(r *fw.Rand) (*docdid.Doc, []c17Key, string) {
	d := &docdid.Doc{}
	var keys []c17Key
	nk := r.Intn(4)
	shape := ""
	for _, frag := range genPick(r, []string{"key-1", "auth", "k2", "signing_key", "z"}, nk) {
		typ := fw.Pick(r, []string{gen.TJwk2020, gen.TEd2018, gen.TEd2020, gen.TSecp, gen.TBls})
		var vm *docdid.VerificationMethod
		curve := gen.Ed25519
		if typ == gen.TJwk2020 {
			curve = fw.Pick(r, []string{gen.Ed25519, gen.P256, gen.P384})
		}
		if typ == gen.TSecp {
			curve = gen.P256
		}
		k := gen.NewKey(r, curve)
		raw := typ == gen.TEd2018 && r.Bool()
		if typ == gen.TBls {
			// a BLS12-381 G2 key in JWK form: kty EC, crv BLS12381_G2, one coordinate
			pub, _, err := bbs12381g2pub.GenerateKeyPair(sha256.New, r.Bytes(32))
			if err != nil {
				continue
			}
			j, err := jwksupport.JWKFromKey(pub)
			if err != nil {
				continue
			}
			v, err := docdid.NewVerificationMethodFromJWK(frag, typ, "", j)
			if err != nil {
				continue
			}
			vm = v
		} else if raw {
			x, _ := k.XY()
			vm = docdid.NewVerificationMethodFromBytes(frag, typ, "", x)
		} else {
			j, err := jwksupport.JWKFromKey(k.Public())
			if err != nil {
				continue
			}
			v, err := docdid.NewVerificationMethodFromJWK(frag, typ, "", j)
			if err != nil {
				continue
			}
			vm = v
		}
		var allowed []docdid.VerificationRelationship
		for _, rel := range allRels {
			if gen.PurposeAllowed(typ, relNames[rel]) {
				allowed = append(allowed, rel)
			}
		}
		n := r.Range(1, len(allowed))
		perm := r.Perm(len(allowed))
		ck := c17Key{frag: frag, typ: typ, value: vm.Value}
		for i := 0; i < n; i++ {
			rel := allowed[perm[i]]
			ck.rels = append(ck.rels, rel)
			v := *docdid.NewReferencedVerification(vm, rel)
			switch rel {
			case docdid.Authentication:
				d.Authentication = append(d.Authentication, v)
			case docdid.AssertionMethod:
				d.AssertionMethod = append(d.AssertionMethod, v)
			case docdid.CapabilityDelegation:
				d.CapabilityDelegation = append(d.CapabilityDelegation, v)
			case docdid.CapabilityInvocation:
				d.CapabilityInvocation = append(d.CapabilityInvocation, v)
			case docdid.KeyAgreement:
				d.KeyAgreement = append(d.KeyAgreement, v)
			}
		}
		keys = append(keys, ck)
		shape += fmt.Sprintf("%s%d%v,", typ[:4], n, raw)
	}
	ns := r.Intn(3)
	if nk == 0 && ns == 0 {
		ns = 1
	}
	if r.Chance(1, 3) {
		// the supplied document may carry an id of its own (another method's DID): it names nothing in the created DID
		d.ID = fw.Pick(r, []string{"did:example:123", "did:web:example.com", "did:key:z6Mk"})
		shape += "I"
	}
	for _, id := range genPick(r, []string{"svc", "hub-1", "linked", "didcomm", "linked-domains", "e1", "web"}, ns) {
		u := fmt.Sprintf("https://s%d.example.com/%s", r.Intn(100), id)
		svc := docdid.Service{ID: id, Type: fw.Pick(r, []string{"LinkedDomains", "DIDCommMessaging"}), ServiceEndpoint: endpoint.NewDIDCommV1Endpoint(u)}
		// optional members in every combination (a routing key without recipient keys is a legitimate service)
		if r.Bool() {
			svc.RoutingKeys = []string{"did:example:r#1"}
			shape += "R"
		}
		if r.Bool() {
			svc.RecipientKeys = []string{"did:example:123#key-1"}
			shape += "K"
		}
		if r.Chance(1, 3) {
			svc.Priority = r.Intn(4) + 1
			shape += "P"
		}
		if r.Chance(1, 3) {
			svc.Accept = []string{"didcomm/aip2;env=rfc19"}
			shape += "A"
		}
		if r.Chance(1, 3) {
			// custom members: names related by prefix, a control character in a value
			svc.Properties = map[string]interface{}{"origin": "o", "origins": []interface{}{"a", "b"}, "note": "rev\u001e" + fmt.Sprint(r.Intn(9)),
				// characters beyond the basic plane (written as surrogate-pair escapes by some serializers), the line separators, a name made of them
				// numbers of every notation class of the canonical form (small and large exponents, the switch-over points, beyond 2^53)
				"weight": fw.Pick(r, []interface{}{2.5e-7, 1e-9, 1.5e-8, 9.99e-7, 0.000001, 123456789012345680000.0, 1e21, 1.5e300, 9007199254740993.0, -2.5e-8, 0.1, 5e-324}),
				"label":  fw.Pick(r, []string{"\U0001F600 ok", "clef \U0001D11E", "\U0010FFFF", "sep\u2028\u2029", "caf\u00e9 \u20ac"}), "\U0001F511": "k"}
			shape += "X"
		}
		d.Service = append(d.Service, svc)
		shape += "s"
	}
	if r.Chance(1, 3) {
		d.AlsoKnownAs = gen.PickURIs(r, r.Range(1, 2))
		shape += "a"
	}
	return d, keys, shape
}

func frag(id string) string {
	if i := strings.LastIndex(id, "#"); i >= 0 {
		return id[i+1:]
	}
	return id
}

// decodeLongForm splits and decodes a long-form DID with the harness codec only.
func decodeLongForm(did string) (short, suffix string, req map[string]interface{}, err error) {
	i := strings.LastIndex(did, ":")
	if i < 0 {
		return "", "", nil, fmt.Errorf("no colon")
	}
	short, state := did[:i], did[i+1:]
	j := strings.LastIndex(short, ":")
	suffix = short[j+1:]
	raw, err := oracle.B64DecodeStrict(state)
	if err != nil {
		return "", "", nil, err
	}
	v, err := oracle.ParseJSON(raw)
	if err != nil {
		return "", "", nil, err
	}
	canon, err := oracle.JCSValue(v)
	if err != nil || string(canon) != string(raw) {
		return "", "", nil, fmt.Errorf("initial state is not canonical JSON")
	}
	m, ok := v.(map[string]interface{})
	if !ok {
		return "", "", nil, fmt.Errorf("initial state is not an object")
	}
	return short, suffix, m, nil
}

func runC17(r *fw.Runner) {
	for b := 0; b < r.N(36, 1200); b++ {
		r.Case("documents", func(c *fw.Case) { c17Case(c, r.Thorough) })
	}
	for b := 0; b < r.N(6, 60); b++ {
		r.Case("namespaces", func(c *fw.Case) { c17Namespaces(c) })
	}
	for b := 0; b < r.N(4, 40); b++ {
		r.Case("largest-documents", func(c *fw.Case) { c17Largest(c) })
	}
}

// c17Largest pads one service endpoint until VDR.Create refuses the document for its size, and demands that every document
// accepted within the last 64 padding steps below that limit - the largest DIDs the VDR hands out - is read back.
func c17Largest(c *fw.Case) {
	r := c.Rng
	v, err := sidetreelongform.New()
	if err != nil {
		c.Failf("vdr-new", nil, "VDR construction failed: %v", err)
		return
	}
	base, keys, shape := c17Doc(r)
	kt := fw.Pick(r, gen.SigningKeyTypes)
	upd, rec := gen.NewKey(r, kt), gen.NewKey(r, kt)
	padChar := fw.Pick(r, []string{"a", "&", "ü"}) // one, six-when-escaped, and two bytes per character
	mk := func(n int) *docdid.Doc {
		d := *base
		d.Service = append(append([]docdid.Service{}, base.Service...), docdid.Service{ID: "pad", Type: "LinkedDomains",
			ServiceEndpoint: endpoint.NewDIDCommV1Endpoint("https://pad.example.com/" + strings.Repeat(padChar, n))})
		return &d
	}
	accepted := func(n int) (*docdid.DocResolution, bool) {
		res, err := c17Create(r, v, mk(n), upd, rec)
		return res, err == nil
	}
	if _, ok := accepted(0); !ok {
		c.Count("largest:base-document-refused", 1)
		return
	}
	lo, hi := 0, 4000 // accepted(lo), !accepted(hi)
	if _, ok := accepted(hi); ok {
		c.Inconclusive("no-size-limit-met")
		return
	}
	for hi-lo > 1 {
		mid := (lo + hi) / 2
		if _, ok := accepted(mid); ok {
			lo = mid
		} else {
			hi = mid
		}
	}
	c.Sig("largest", shape, kt, padChar)
	for n := lo; n >= 0 && n > lo-64; n-- {
		res, ok := accepted(n)
		if !ok {
			continue // not monotone for multi-byte padding: skip
		}
		did := res.DIDDocument.ID
		c.Count("largest-documents-created", 1)
		c.Evals(2)
		w := map[string]interface{}{"did": did, "did_length": len(did), "padding": n, "largest_accepted_padding": lo, "shape": shape}
		short, _, req, derr := decodeLongForm(did)
		if derr != nil {
			c.Failf("created-did-malformed", w, "created DID is not namespace:suffix:canonical-initial-state (%v)", derr)
			return
		}
		rd, err := v.Read(did)
		if err != nil {
			w["err"] = err.Error()
			c.Failf("read-error:near-size-limit", w, "a DID handed out by VDR.Create (%d characters, %d padding steps below the size limit) is refused by VDR.Read: %v", len(did), lo-n, err)
			return
		}
		sd, _ := req["suffixData"].(map[string]interface{})
		dl, _ := req["delta"].(map[string]interface{})
		ks := keys
		if msg := c17Equivalent(rd, did, short, mk(n), ks, sd, dl); msg != "" {
			w["problem"] = msg
			c.Failf("read-back-differs:"+splitColon(msg), w, "resolved document differs from the created one: %s", msg)
			return
		}
	}
}

func c17Create(r *fw.Rand, v *sidetreelongform.VDR, d *docdid.Doc, upd, rec *gen.Key) (*docdid.DocResolution, error) {
	return v.Create(d, vdrapi.WithOption(sidetreelongform.UpdatePublicKeyOpt, upd.Public()), vdrapi.WithOption(sidetreelongform.RecoveryPublicKeyOpt, rec.Public()))
}

func c17Case(c *fw.Case, thorough bool) {
	r := c.Rng
	v, err := sidetreelongform.New()
	if err != nil {
		c.Failf("vdr-new", nil, "VDR construction failed: %v", err)
		return
	}
	h, _ := dochandler.New("did:ion")
	d, keys, shape := c17Doc(r)
	kt := fw.Pick(r, gen.SigningKeyTypes)
	upd, rec := gen.NewKey(r, kt), gen.NewKey(r, kt)
	unlabelled := false
	if r.Chance(1, 8) {
		// a key listed under authentication through an entry whose relationship field was left at its zero value (a hand-built
		// entry): the VDR either refuses the document or creates a DID that resolves to all of it - it does not drop the key
		uk := gen.NewKey(r, gen.Ed25519)
		if j, jerr := jwksupport.JWKFromKey(uk.Public()); jerr == nil {
			if vm, verr := docdid.NewVerificationMethodFromJWK("unlabelled", gen.TJwk2020, "", j); verr == nil {
				entry := *docdid.NewReferencedVerification(vm, docdid.Authentication)
				entry.Relationship = 0
				d.Authentication = append(d.Authentication, entry)
				keys = append(keys, c17Key{frag: "unlabelled", typ: gen.TJwk2020, rels: []docdid.VerificationRelationship{docdid.Authentication}, value: vm.Value})
				unlabelled = true
				shape += "U"
			}
		}
	}
	c.Evals(1)
	res, err := c17Create(r, v, d, upd, rec)
	if err != nil {
		if strings.Contains(err.Error(), "exceeds maximum") {
			c.Count("not-accepted:too-large", 1)
			return
		}
		if unlabelled {
			c.Count("not-accepted:unlabelled-relationship", 1)
			return
		}
		c.Failf("create-error", map[string]interface{}{"shape": shape, "err": err.Error()}, "VDR.Create refused a supported document: %v", err)
		return
	}
	c.Count("created", 1)
	c.Sig("doc", shape, kt)
	did := res.DIDDocument.ID
	short, suffix, req, derr := decodeLongForm(did)
	w := map[string]interface{}{"did": did, "shape": shape}
	if derr != nil || !strings.HasPrefix(did, "did:ion:") {
		w["err"] = fmt.Sprint(derr)
		c.Failf("created-did-malformed", w, "created DID is not namespace:suffix:canonical-initial-state (%v)", derr)
		return
	}
	sd, _ := req["suffixData"].(map[string]interface{})
	dl, _ := req["delta"].(map[string]interface{})
	if want := oracle.MustModelHash(18, sd); want != suffix {
		w["expected_suffix"] = want
		c.Failf("created-suffix-not-hash", w, "suffix of the created DID is not the hash of the embedded suffix data")
		return
	}
	if dl["updateCommitment"] != upd.Commitment(18) || sd["recoveryCommitment"] != rec.Commitment(18) {
		c.Failf("created-commitments", w, "embedded commitments are not those of the supplied update / recovery keys")
		return
	}
	// read back
	c.Count("read-back", 1)
	c.Evals(1)
	rd, err := v.Read(did)
	if err != nil {
		w["err"] = err.Error()
		c.Failf("read-error", w, "VDR.Read(VDR.Create(d).ID) failed: %v", err)
		return
	}
	if msg := c17Equivalent(rd, did, short, d, keys, sd, dl); msg != "" {
		w["problem"] = msg
		c.Failf("read-back-differs:"+splitColon(msg), w, "resolved document differs from the created one: %s", msg)
		return
	}
	if msg := c17Equivalent(res, did, short, d, keys, sd, dl); msg != "" {
		w["problem"] = msg
		c.Failf("create-result-differs:"+splitColon(msg), w, "create result differs from the supplied document: %s", msg)
		return
	}
	c.Sample(map[string]interface{}{"did": did, "shape": shape})
	// determinism
	for i := 0; i < 12; i++ {
		c.Count("repeat-creations", 1)
		c.Evals(1)
		v2 := v
		if i%4 == 3 {
			v2, _ = sidetreelongform.New()
		}
		res2, err := c17Create(r, v2, d, upd, rec)
		if err != nil || res2.DIDDocument.ID != did {
			got := ""
			if err == nil {
				got = res2.DIDDocument.ID
			}
			c.Failf("creation-not-deterministic", map[string]interface{}{"first": did, "again": got, "err": fmt.Sprint(err), "shape": shape}, "creating the same document with the same keys gave a different DID")
			break
		}
	}
	// ProcessOperation round trip
	c.Count("process-operation", 1)
	pr, err := h.ProcessOperation(oracle.MustJCS(req))
	if err != nil {
		c.Failf("process-operation-error", w, "ProcessOperation(create request) failed: %v", err)
	} else {
		pid, _ := pr.Document["id"].(string)
		rr, err := h.ResolveDocument(pid)
		if err != nil || pid != did {
			c.Failf("process-operation-result-not-resolvable", map[string]interface{}{"did": did, "returned_id": pid, "err": fmt.Sprint(err)}, "DID returned by ProcessOperation does not resolve to itself")
		} else {
			g1, _ := oracle.Generic(pr.Document)
			g2, _ := oracle.Generic(rr.Document)
			if !oracle.JSONEqual(g1, g2) {
				c.Failf("process-operation-document-differs", map[string]interface{}{"did": did}, "document from ProcessOperation differs from its resolution")
			}
		}
	}
	// the same create request in another spelling (indented, members reordered): same operation, hence the same canonical DID
	{
		spelled := gen.Spell(r, req, gen.SpellOpts{Shuffle: true, Whitespace: true})
		c.Count("process-operation-respelled", 1)
		c.Evals(1)
		if pr2, err := h.ProcessOperation(spelled); err != nil {
			c.Failf("process-operation-respelled-error", map[string]interface{}{"request": string(spelled), "err": err.Error()}, "ProcessOperation refused a valid create request in another spelling: %v", err)
		} else if pid2, _ := pr2.Document["id"].(string); pid2 != did {
			c.Failf("process-operation-respelled-other-did", map[string]interface{}{"request": string(spelled), "did": did, "returned_id": pid2}, "ProcessOperation returns another DID for the same create request in another spelling")
		} else if _, err := h.ResolveDocument(pid2); err != nil {
			c.Failf("process-operation-result-not-resolvable", map[string]interface{}{"did": did, "returned_id": pid2, "err": err.Error()}, "DID returned by ProcessOperation does not resolve")
		}
	}
	// ... and with characters written as \uXXXX escapes (surrogate pairs beyond the basic plane, as many serializers write them) and
	// numbers in other spellings; spellings that outgrow the handler's operation size limit are not asked
	for try := 0; try < 1; try++ {
		spelled := gen.EscapeNonASCII(r, gen.Spell(r, req, gen.SpellOpts{Shuffle: true, Numbers: true}), 2, 3)
		if len(spelled) > 2400 {
			continue
		}
		c.Count("process-operation-respelled-with-escapes", 1)
		c.Evals(1)
		if pr2, err := h.ProcessOperation(spelled); err != nil {
			c.Failf("process-operation-respelled-error", map[string]interface{}{"request": string(spelled), "err": err.Error()}, "ProcessOperation refused a valid create request in another spelling: %v", err)
		} else if pid2, _ := pr2.Document["id"].(string); pid2 != did {
			c.Failf("process-operation-respelled-other-did", map[string]interface{}{"request": string(spelled), "did": did, "returned_id": pid2}, "ProcessOperation returns another DID for the same create request in another spelling")
		} else if _, err := h.ResolveDocument(pid2); err != nil {
			c.Failf("process-operation-result-not-resolvable", map[string]interface{}{"did": did, "returned_id": pid2, "err": err.Error()}, "DID returned by ProcessOperation does not resolve")
		}
		break
	}
	// an initial state without the optional "type" member (the form other Sidetree implementations produce): if the handler resolves
	// it, the document's id is the DID that was asked for
	{
		noType := map[string]interface{}{}
		for k, v := range req {
			if k != "type" {
				noType[k] = v
			}
		}
		did2 := "did:ion:" + suffix + ":" + oracle.B64(oracle.MustJCS(noType))
		c.Count("initial-state-without-type", 1)
		c.Evals(1)
		if rr, err := h.ResolveDocument(did2); err != nil {
			c.Count("initial-state-without-type-refused", 1)
		} else if id2, _ := rr.Document["id"].(string); id2 != did2 {
			c.Failf("resolved-id-is-not-the-requested-did", map[string]interface{}{"requested": did2, "document_id": id2}, "resolving a long-form DID whose initial state has no type member yields a document with another id")
		} else {
			g, _ := oracle.Generic(rr.Document)
			if b, _ := json.Marshal(g); strings.Contains(string(b), oracle.B64(oracle.MustJCS(req))) {
				c.Failf("resolved-document-names-another-did", map[string]interface{}{"requested": did2}, "the document resolved for the type-less DID contains ids built on the DID with a type member")
			}
		}
	}
	// --- rejections
	reject := func(class, bad string, posBucket int) {
		c.Evals(1)
		c.Sig("reject", class, posBucket)
		if _, err := h.ResolveDocument(bad); err == nil {
			c.Failf("resolved:"+class, map[string]interface{}{"valid_did": did, "tampered_did": bad, "class": class}, "handler resolved a DID it must reject (%s)", class)
		}
	}
	if _, err := h.ResolveDocument(did); err != nil {
		c.Failf("valid-did-rejected", w, "handler rejects the valid DID: %v", err)
		return
	}
	// the suffix in another base64url spelling of the same bytes, and DID URLs built on the DID (fragment, query, path): only the
	// exact long-form DID is resolved, by the handler and by the VDR
	if alias := nonCanonicalSpelling(r, suffix); alias != suffix {
		reject("suffix-other-spelling-of-same-bytes", "did:ion:"+alias+did[len("did:ion:")+len(suffix):], -1)
	}
	for _, tail := range []string{"#key-1", "?service=hub", "/path", "#", "?", "/", ";x=y", " "} {
		reject("tail-appended:"+tail, did+tail, -2)
		c.Evals(1)
		if _, err := v.Read(did + tail); err == nil {
			c.Failf("vdr-read-resolved:tail-appended", map[string]interface{}{"valid_did": did, "tampered_did": did + tail}, "VDR.Read resolved the DID with %q appended", tail)
		}
	}
	stride := 1
	if !thorough {
		stride = 5
	}
	off := r.Intn(stride)
	for pos := off; pos < len(did); pos += stride {
		ch := did[pos]
		subs := []byte{':', '='}
		switch {
		case ch >= 'a' && ch <= 'z':
			subs = append(subs, ch-32, 'a'+(ch-'a'+1)%26)
		case ch >= 'A' && ch <= 'Z':
			subs = append(subs, ch+32, 'A'+(ch-'A'+1)%26)
		case ch >= '0' && ch <= '9':
			subs = append(subs, '0'+(ch-'0'+1)%10, 'x')
		default:
			subs = append(subs, 'A', '_')
		}
		for _, s := range subs {
			if s == ch {
				continue
			}
			bad := did[:pos] + string(s) + did[pos+1:]
			c.Count("single-char-changes", 1)
			region := "state"
			if pos < len("did:ion") {
				region = "namespace"
			} else if pos <= len(short) {
				region = "suffix"
			}
			reject("single-char:"+region, bad, pos*8/len(did))
		}
	}
	// single-character insertions and deletions (segment boundaries always, other positions sampled)
	boundaries := []int{len("did:ion:"), len(short), len(short) + 1, len(did), len("did:"), len("did:ion")}
	for i := 0; i < 12; i++ {
		boundaries = append(boundaries, r.Intn(len(did)+1))
	}
	for _, pos := range boundaries {
		for _, ins := range []string{"A", "0", ":", "-", "d", "n", "ion", "dino"} { // also letters of the namespace itself
			if ins == ":" && (pos == len("did:ion") || pos == len("did:ion:")) {
				// an extra (empty) method-specific segment between namespace and suffix leaves namespace, suffix and
				// initial state intact; the statement's conditions for resolution still hold - not demanded
				if _, err := h.ResolveDocument(did[:pos] + ins + did[pos:]); err == nil {
					c.Observe("did with an empty extra segment between namespace and suffix resolves (not demanded)")
				}
				continue
			}
			c.Count("single-char-insertions", 1)
			reject("single-char-insertion", did[:pos]+ins+did[pos:], pos*8/(len(did)+1))
		}
		if pos < len(did) {
			c.Count("single-char-deletions", 1)
			reject("single-char-deletion", did[:pos]+did[pos+1:], pos*8/(len(did)+1))
		}
	}
	state := did[len(short)+1:]
	raw, _ := oracle.B64DecodeStrict(state)
	reenc := map[string]string{
		"whitespace-in-json":      oracle.B64(append([]byte(" "), raw...)),
		"trailing-newline-json":   oracle.B64(append(append([]byte{}, raw...), '\n')),
		"member-order":            oracle.B64(gen.ToJSON(map[string]interface{}{"type": "create", "suffixData": sd, "delta": dl})),
		"respelled":               oracle.B64(gen.Spell(r, req, gen.SpellOpts{Shuffle: true, Whitespace: true})),
		"padding":                 state + "=",
		"padding2":                state + "==",
		"newline-in-base64":       state[:len(state)/2] + "\n" + state[len(state)/2:],
		"crlf-at-end":             state + "\r\n",
		"standard-alphabet":       strings.NewReplacer("-", "+", "_", "/").Replace(state),
		"duplicated-state":        state + ":" + state,
		"empty-state":             "",
		"state-of-empty-object":   oracle.B64([]byte("{}")),
		"state-not-json":          oracle.B64([]byte("hello")),
		"state-null":              oracle.B64([]byte("null")),
		"extra-member-in-request": oracle.B64(oracle.MustJCS(map[string]interface{}{"type": "create", "suffixData": sd, "delta": dl, "extra": 1})),
		"extra-member-in-delta":   oracle.B64(oracle.MustJCS(map[string]interface{}{"suffixData": sd, "delta": map[string]interface{}{"updateCommitment": dl["updateCommitment"], "patches": dl["patches"], "x": 1}})),
	}
	// non-canonical trailing bits: only if the encoding has spare bits
	if len(state)%4 != 0 {
		last := state[len(state)-1]
		idx := strings.IndexByte("ABCDEFGHIJKLMNOPQRSTUVWXYZabcdefghijklmnopqrstuvwxyz0123456789-_", last)
		if idx >= 0 && idx%2 == 0 {
			reenc["trailing-bits"] = state[:len(state)-1] + string("ABCDEFGHIJKLMNOPQRSTUVWXYZabcdefghijklmnopqrstuvwxyz0123456789-_"[idx+1])
		}
	}
	names := make([]string, 0, len(reenc))
	for k := range reenc {
		names = append(names, k)
	}
	sort.Strings(names)
	for _, name := range names {
		bad := short + ":" + reenc[name]
		if bad == did {
			continue
		}
		c.Count("reencodings", 1)
		reject("reencoding:"+name, bad, 0)
	}
	reject("short-form", short, 0)
	reject("short-form-trailing-colon", short+":", 0)
	// suffix of another DID
	d2, _, _ := c17Doc(r)
	if res2, err := c17Create(r, v, d2, gen.NewKey(r, kt), gen.NewKey(r, kt)); err == nil {
		short2, _, _, _ := decodeLongForm(res2.DIDDocument.ID)
		if short2 != short {
			reject("suffix-of-other-did", short2+":"+state, 0)
			reject("state-of-other-did", short+":"+res2.DIDDocument.ID[len(short2)+1:], 0)
		}
	}
}

// c17Equivalent compares a resolution with what was supplied; "" if equivalent.
func c17Equivalent(res *docdid.DocResolution, did, short string, d *docdid.Doc, keys []c17Key, sd, dl map[string]interface{}) string {
	doc := res.DIDDocument
	if doc == nil {
		return "id: no document"
	}
	if doc.ID != did {
		return fmt.Sprintf("id: got %s", doc.ID)
	}
	if len(doc.VerificationMethod) != len(keys) {
		return fmt.Sprintf("keys: %d verification methods, supplied %d", len(doc.VerificationMethod), len(keys))
	}
	for _, k := range keys {
		found := false
		for _, vm := range doc.VerificationMethod {
			if frag(vm.ID) != k.frag {
				continue
			}
			found = true
			if vm.Type != k.typ {
				return fmt.Sprintf("keys: %s has type %s, supplied %s", k.frag, vm.Type, k.typ)
			}
			if string(vm.Value) != string(k.value) {
				return fmt.Sprintf("keys: %s key material differs", k.frag)
			}
			if vm.Controller != did {
				return fmt.Sprintf("keys: %s controller %s", k.frag, vm.Controller)
			}
		}
		if !found {
			return "keys: missing " + k.frag
		}
	}
	got := map[docdid.VerificationRelationship][]docdid.Verification{docdid.Authentication: doc.Authentication, docdid.AssertionMethod: doc.AssertionMethod,
		docdid.CapabilityDelegation: doc.CapabilityDelegation, docdid.CapabilityInvocation: doc.CapabilityInvocation, docdid.KeyAgreement: doc.KeyAgreement}
	for _, rel := range allRels {
		var want, have []string
		for _, k := range keys {
			for _, kr := range k.rels {
				if kr == rel {
					want = append(want, k.frag)
				}
			}
		}
		for _, v := range got[rel] {
			have = append(have, frag(v.VerificationMethod.ID))
		}
		sort.Strings(want)
		sort.Strings(have)
		if strings.Join(want, ",") != strings.Join(have, ",") {
			return fmt.Sprintf("relationships: %s has [%s], supplied [%s]", relNames[rel], strings.Join(have, ","), strings.Join(want, ","))
		}
	}
	if len(doc.Service) != len(d.Service) {
		return fmt.Sprintf("services: %d, supplied %d", len(doc.Service), len(d.Service))
	}
	for _, s := range d.Service {
		found := false
		for _, gs := range doc.Service {
			if frag(gs.ID) != s.ID {
				continue
			}
			found = true
			u1, _ := s.ServiceEndpoint.URI()
			u2, _ := gs.ServiceEndpoint.URI()
			if fmt.Sprint(gs.Type) != fmt.Sprint(s.Type) || u1 != u2 {
				return fmt.Sprintf("services: %s differs (%v %s)", s.ID, gs.Type, u2)
			}
			if strings.Join(gs.RoutingKeys, "|") != strings.Join(s.RoutingKeys, "|") {
				return fmt.Sprintf("services: %s routingKeys %v, supplied %v", s.ID, gs.RoutingKeys, s.RoutingKeys)
			}
			if len(gs.RecipientKeys) != len(s.RecipientKeys) {
				return fmt.Sprintf("services: %s recipientKeys %v, supplied %v", s.ID, gs.RecipientKeys, s.RecipientKeys)
			}
			for i := range s.RecipientKeys {
				if !strings.HasSuffix(gs.RecipientKeys[i], s.RecipientKeys[i]) {
					return fmt.Sprintf("services: %s recipientKeys %v, supplied %v", s.ID, gs.RecipientKeys, s.RecipientKeys)
				}
			}
			// did-go keeps an unknown top-level member such as accept under Properties when parsing
			gotAccept := gs.Accept
			if len(gotAccept) == 0 {
				if l, ok := gs.Properties["accept"].([]interface{}); ok {
					for _, e := range l {
						gotAccept = append(gotAccept, fmt.Sprint(e))
					}
				}
			}
			if strings.Join(gotAccept, "|") != strings.Join(s.Accept, "|") {
				return fmt.Sprintf("services: %s accept %v, supplied %v", s.ID, gotAccept, s.Accept)
			}
			for pk, pv := range s.Properties {
				if !oracle.JSONEqual(oracle.MustGenericSafe(gs.Properties[pk]), oracle.MustGenericSafe(pv)) {
					return fmt.Sprintf("services: %s member %s is %v, supplied %v", s.ID, pk, gs.Properties[pk], pv)
				}
			}
			if s.Priority != nil && fmt.Sprint(gs.Priority) != fmt.Sprint(s.Priority) {
				return fmt.Sprintf("services: %s priority %v, supplied %v", s.ID, gs.Priority, s.Priority)
			}
		}
		if !found {
			return "services: missing " + s.ID
		}
	}
	if strings.Join(doc.AlsoKnownAs, "|") != strings.Join(d.AlsoKnownAs, "|") {
		return fmt.Sprintf("alsoKnownAs: %v, supplied %v", doc.AlsoKnownAs, d.AlsoKnownAs)
	}
	md := res.DocumentMetadata
	if md == nil || md.Method == nil {
		return "metadata: missing"
	}
	hasShort := false
	for _, e := range md.EquivalentID {
		if e == short {
			hasShort = true
		}
	}
	if !hasShort {
		return fmt.Sprintf("metadata: equivalentId %v lacks the short form %s", md.EquivalentID, short)
	}
	if md.Method.UpdateCommitment != dl["updateCommitment"] || md.Method.RecoveryCommitment != sd["recoveryCommitment"] {
		return "metadata: commitments differ from the create request's"
	}
	if md.Method.Published || md.Deactivated {
		return "metadata: published / deactivated set"
	}
	return ""
}

func c17Namespaces(c *fw.Case) {
	r := c.Rng
	nss := []string{"did:io", "did:ion", "did:ionx", "did:ion:x", "did:ION", "did:sidetree", "did:ion:", "id:ion"}
	// one valid create request reused for every namespace
	spec, _ := gen.NewChainCreate(r, 18, gen.Ed25519, []interface{}{gen.PAddKeys(gen.DocKey(r, "key1", gen.TJwk2020, []string{"authentication"}, "jwk"))})
	b := spec.Build(r)
	state := oracle.B64(b.Request)
	for _, hns := range nss {
		h, err := dochandler.New(hns)
		if err != nil {
			c.Inconclusive("handler-new")
			continue
		}
		for _, dns := range nss {
			did := dns + ":" + b.Suffix + ":" + state
			expect := strings.HasPrefix(did, hns+":")
			c.Count("namespace-pairs", 1)
			c.Evals(1)
			c.Sig("ns", hns, dns, expect)
			res, err := h.ResolveDocument(did)
			w := map[string]interface{}{"handler_namespace": hns, "did": did, "err": fmt.Sprint(err)}
			if !expect && err == nil {
				c.Failf("foreign-namespace-resolved", w, "handler for %q resolved %q", hns, dns+":…")
				continue
			}
			if hns == dns {
				if err != nil {
					c.Failf("own-namespace-rejected", w, "handler for %q rejects its own DID: %v", hns, err)
				} else if id, _ := res.Document["id"].(string); id != did {
					c.Failf("own-namespace-id", w, "resolved id %q differs from the requested DID", id)
				}
			}
		}
	}
	c.Sample(map[string]interface{}{"namespaces": nss, "suffix": b.Suffix})
}
