package checks

import (
	"fmt"
	"github.com/trustbloc/sidetree-go/pkg/patch"

	"github.com/trustbloc/sidetree-go/pkg/versions/1_0/doccomposer"

	"verifharness/fw"
	"verifharness/gen"
	"verifharness/oracle"
	"verifharness/sut"
)

func init() {
	fw.Register(&fw.Check{
		ID:          "C10",
		Rule:        "cases: a starting document (empty, reached from {} by validated patches, or generated with well-formed key/service/also-known-as lists and free members) and a list of 1..8 validated patches over all eight actions drawn from small id pools (6 key ids, 4 service ids, 5 URIs) so that collisions, partial overlap and misses dominate; ietf-json-patch operations are valid under RFC 6902 on the model's current document. Oracle: harness patch model (left fold) incl. an RFC 6902 evaluator; keys/services/also-known-as compared as ordered lists (absent == null == []), everything else by JSON equality; unique ids preserved. A mismatch that an aliasing-copy variant of the evaluator reproduces is fingerprinted as the known json-patch copy-alias behaviour. distinct = distinct (start kind, action sequence) signatures.",
		Assumptions: []string{"harness patch model and RFC 6902 evaluator (self-tested against RFC 6902 appendix A at worker start)", "JSON numbers compared as IEEE doubles (the library itself round-trips documents through float64)"},
		Require:     []string{"lists", "ietf-patches", "collisions", "copy-alias-directed"},
		Run:         runC10,
	})
}

// RFC 6902 appendix A vectors for the oracle self-test.
var rfc6902Vectors = []struct{ doc, patch, want string }{
	{`{"foo":"bar"}`, `[{"op":"add","path":"/baz","value":"qux"}]`, `{"baz":"qux","foo":"bar"}`},
	{`{"foo":["bar","baz"]}`, `[{"op":"add","path":"/foo/1","value":"qux"}]`, `{"foo":["bar","qux","baz"]}`},
	{`{"baz":"qux","foo":"bar"}`, `[{"op":"remove","path":"/baz"}]`, `{"foo":"bar"}`},
	{`{"foo":["bar","qux","baz"]}`, `[{"op":"remove","path":"/foo/1"}]`, `{"foo":["bar","baz"]}`},
	{`{"baz":"qux","foo":"bar"}`, `[{"op":"replace","path":"/baz","value":"boo"}]`, `{"baz":"boo","foo":"bar"}`},
	{`{"foo":{"bar":"baz","waldo":"fred"},"qux":{"corge":"grault"}}`, `[{"op":"move","from":"/foo/waldo","path":"/qux/thud"}]`, `{"foo":{"bar":"baz"},"qux":{"corge":"grault","thud":"fred"}}`},
	{`{"foo":["all","grass","cows","eat"]}`, `[{"op":"move","from":"/foo/1","path":"/foo/3"}]`, `{"foo":["all","cows","eat","grass"]}`},
	{`{"baz":"qux","foo":["a",2,"c"]}`, `[{"op":"test","path":"/baz","value":"qux"},{"op":"test","path":"/foo/1","value":2}]`, `{"baz":"qux","foo":["a",2,"c"]}`},
	{`{"baz":"qux"}`, `[{"op":"test","path":"/baz","value":"bar"}]`, `ERROR`},
	{`{"foo":"bar"}`, `[{"op":"add","path":"/child","value":{"grandchild":{}}}]`, `{"child":{"grandchild":{}},"foo":"bar"}`},
	{`{"foo":"bar"}`, `[{"op":"add","path":"/baz/bat","value":"qux"}]`, `ERROR`},
	{`{"/":9,"~1":10}`, `[{"op":"test","path":"/~01","value":10}]`, `{"/":9,"~1":10}`},
	{`{"/":9,"~1":10}`, `[{"op":"test","path":"/~01","value":"10"}]`, `ERROR`},
	{`{"foo":["bar"]}`, `[{"op":"add","path":"/foo/-","value":["abc","def"]}]`, `{"foo":["bar",["abc","def"]]}`},
	{`{"x":{"y":1}}`, `[{"op":"copy","from":"/x","path":"/z"},{"op":"add","path":"/z/k","value":5}]`, `{"x":{"y":1},"z":{"k":5,"y":1}}`},
}

func rfc6902SelfTest() error {
	for i, v := range rfc6902Vectors {
		doc, _ := oracle.ParseJSON([]byte(v.doc))
		p, _ := oracle.ParseJSON([]byte(v.patch))
		got, err := oracle.ApplyRFC6902(doc, p.([]interface{}), oracle.Quirks{})
		if v.want == "ERROR" {
			if err == nil {
				return fmt.Errorf("rfc6902 self-test %d: expected error", i)
			}
			continue
		}
		want, _ := oracle.ParseJSON([]byte(v.want))
		if err != nil || !oracle.JSONEqual(got, want) {
			return fmt.Errorf("rfc6902 self-test %d: got %v err %v", i, got, err)
		}
	}
	return nil
}

func runC10(r *fw.Runner) {
	if err := rfc6902SelfTest(); err != nil {
		panic("SELFTEST " + err.Error())
	}
	composer := doccomposer.New()
	// directed: the three evanphx/json-patch v4.1.0 deviations from RFC 6902 reachable with RFC-valid patches (known findings)
	directed := []struct {
		name  string
		doc   map[string]interface{}
		patch map[string]interface{}
	}{
		{"ietf-copy-then-add-below-copy", map[string]interface{}{"x": map[string]interface{}{"y": 1}},
			gen.PJSON(map[string]interface{}{"op": "copy", "from": "/x", "path": "/z"}, map[string]interface{}{"op": "add", "path": "/z/k", "value": 5})},
		{"ietf-move-into-array-index", map[string]interface{}{"arr": []interface{}{1, 2, 3}, "v": "new"},
			gen.PJSON(map[string]interface{}{"op": "move", "from": "/v", "path": "/arr/1"})},
		{"ietf-copy-into-array-index", map[string]interface{}{"arr": []interface{}{1, 2, 3}, "v": "new"},
			gen.PJSON(map[string]interface{}{"op": "copy", "from": "/v", "path": "/arr/0"})},
		{"ietf-test-array-with-null", map[string]interface{}{"arr": []interface{}{1, nil, 3}},
			gen.PJSON(map[string]interface{}{"op": "test", "path": "/arr", "value": []interface{}{1, nil, 3}})},
	}
	for _, d := range directed {
		d := d
		r.Case("jsonpatch-quirk-directed", func(c *fw.Case) {
			c.Count("copy-alias-directed", 1)
			c10Compare(c, composer, d.doc, []interface{}{d.patch}, "directed", d.name)
		})
	}
	r.Case("directed-collisions", func(c *fw.Case) {
		rr := c.Rng
		k1, k2, k3 := gen.RandDocKey(rr, "key1"), gen.RandDocKey(rr, "key2"), gen.RandDocKey(rr, "key-3")
		k1b, k2b := gen.RandDocKey(rr, "key1"), gen.RandDocKey(rr, "key2")
		s1, s2, s1b := gen.RandService(rr, "svc1"), gen.RandService(rr, "svc2"), gen.RandService(rr, "svc1")
		doc := map[string]interface{}{"publicKey": []interface{}{k1, k2, k3}, "service": []interface{}{s1, s2}, "alsoKnownAs": []interface{}{"did:example:a", "did:example:b"}, "foo": "bar"}
		lists := [][]interface{}{
			{gen.PAddKeys(k2b)},                           // replace in the middle keeps order
			{gen.PAddKeys(k1b, gen.RandDocKey(rr, "K5"))}, // replace first + append
			{gen.PAddKeys(gen.RandDocKey(rr, "K5"), k2b, gen.RandDocKey(rr, "signing"))},
			{gen.PRemoveKeys("key2", "nope")},
			{gen.PRemoveKeys("key1", "key2", "key-3")},
			{gen.PRemoveKeys("key1", "key2", "key-3"), gen.PAddKeys(k2b)},
			{gen.PAddServices(s1b)},
			{gen.PRemoveServices("svc2", "svc1")},
			{gen.PRemoveServices("ghost")},
			{gen.PAddAka("did:example:b", "did:example:c", "did:example:a")},
			{gen.PRemoveAka("did:example:a", "did:example:zzz")},
			{gen.PRemoveAka("did:example:a", "did:example:b"), gen.PAddAka("did:example:b")},
			{gen.PReplace([]interface{}{k2b}, nil)},
			{gen.PReplace(nil, []interface{}{s1b})},
			{gen.PReplace([]interface{}{k1b, k2b}, []interface{}{s1b}), gen.PAddAka("did:example:q")},
			{gen.PJSON(map[string]interface{}{"op": "replace", "path": "/foo", "value": map[string]interface{}{"a": []interface{}{1, 2}}}), gen.PJSON(map[string]interface{}{"op": "remove", "path": "/foo/a/0"})},
		}
		for i, l := range lists {
			c10Compare(c, composer, doc, l, "directed", fmt.Sprint("collision-", i))
		}
		// URI references validation lets through although they look like nothing: the empty reference, a fragment, a relative path
		odd := map[string]interface{}{"publicKey": []interface{}{k1}, "alsoKnownAs": []interface{}{"", "did:example:a", "#me", "rel/path"}}
		for i, l := range [][]interface{}{
			{gen.PAddAka("did:example:z")}, {gen.PAddAka("did:example:a", "", "?q")}, {gen.PRemoveAka("")}, {gen.PRemoveAka("#me", "did:example:a")}, {gen.PRemoveAka("did:example:a"), gen.PAddAka("")},
			{gen.PAddKeys(k2)}, {gen.PAddServices(s1)},
		} {
			c10Compare(c, composer, odd, l, "directed", fmt.Sprint("odd-uri-references-", i))
		}
		// ids are unique among the keys and among the services, not across the two lists: a service may be named like a key
		sk1, kv1 := gen.RandService(rr, "key1"), gen.RandDocKey(rr, "svc1")
		both := map[string]interface{}{"publicKey": []interface{}{k1, kv1}, "service": []interface{}{s1, sk1}}
		for i, l := range [][]interface{}{
			{gen.PAddServices(sk1)}, {gen.PAddKeys(kv1)}, {gen.PAddKeys(k2), gen.PAddServices(gen.RandService(rr, "key2"))}, {gen.PReplace([]interface{}{k1, k2}, []interface{}{sk1, gen.RandService(rr, "key2")})},
			{gen.PRemoveKeys("svc1")}, {gen.PRemoveServices("key1")},
		} {
			c10Compare(c, composer, doc, l, "directed", fmt.Sprint("id-shared-by-key-and-service-", i))
			c10Compare(c, composer, both, l, "directed", fmt.Sprint("id-shared-by-key-and-service-in-document-", i))
		}
		// an also-known-as list in which a URI occurs more than once (a validated ietf-json-patch can append to the list): difference
		// removes every occurrence, union adds nothing that is there
		dup := map[string]interface{}{"publicKey": []interface{}{k1}, "alsoKnownAs": []interface{}{"did:example:a", "did:example:b", "did:example:a", "did:example:c", "did:example:b"}}
		for i, l := range [][]interface{}{
			{gen.PRemoveAka("did:example:a")}, {gen.PRemoveAka("did:example:b", "did:example:zzz")}, {gen.PAddAka("did:example:a", "did:example:d")}, {gen.PRemoveAka("did:example:a"), gen.PAddAka("did:example:a")},
			{gen.PRemoveAka("did:example:c", "did:example:a", "did:example:b")},
		} {
			c10Compare(c, composer, dup, l, "directed", fmt.Sprint("also-known-as-with-repeated-uri-", i))
		}
		// RFC 6902 moves and copies between members whose names (or pointers) begin alike: siblings, not parent and child
		sib := map[string]interface{}{"publicKey": []interface{}{k1}, "created": 1, "meta": map[string]interface{}{"tag": "x", "ta": []interface{}{1, 2}}, "a": map[string]interface{}{"b": 1}, "ab": 2}
		for i, ops := range [][]interface{}{
			{op("move", "/createdAt", "from", "/created")}, {op("move", "/meta/tagline", "from", "/meta/tag")}, {op("copy", "/createdAt", "from", "/created")}, {op("move", "/abc", "from", "/ab")},
			{op("move", "/a/bc", "from", "/a/b")}, {op("move", "/meta/tag", "from", "/meta/ta")}, {op("move", "/created", "from", "/created")}, {op("copy", "/meta/ta/0x", "from", "/meta/ta/0")},
		} {
			c10Compare(c, composer, sib, []interface{}{gen.PJSON(ops...)}, "directed", fmt.Sprint("json-patch-between-siblings-with-common-prefix-", i))
		}
		plain := map[string]interface{}{"publicKey": []interface{}{k1}}
		for i, l := range [][]interface{}{{gen.PAddAka("")}, {gen.PAddAka("", "#me")}, {gen.PAddAka("x"), gen.PAddAka("")}} {
			c10Compare(c, composer, plain, l, "directed", fmt.Sprint("odd-uri-references-fresh-", i))
		}
	})
	for b := 0; b < r.N(150, 5000); b++ {
		r.Case("random-lists", func(c *fw.Case) {
			for i := 0; i < 20; i++ {
				doc, kind := startDoc(c.Rng, false)
				alias := c.Rng.Chance(1, 3)
				pl := genPatchList(c.Rng, doc, 8, alias)
				if pl.Discarded > 0 {
					c.Count("discarded-candidates", pl.Discarded)
				}
				if len(pl.Patches) == 0 {
					continue
				}
				c10Compare(c, composer, doc, pl.Patches, kind, pl.Actions)
				if i%4 == 0 {
					// the same list with one RFC 6902 operation that cannot apply to the document at that point, at a random position:
					// the whole list must be refused
					bad := c10Inapplicable(c.Rng)
					at := c.Rng.Intn(len(pl.Patches) + 1)
					l := append(append(append([]interface{}{}, pl.Patches[:at]...), bad), pl.Patches[at:]...)
					if _, merr := oracle.ApplyPatchesModel(doc, l, oracle.Quirks{}); merr != nil {
						c10Compare(c, composer, doc, l, kind+"+inapplicable", fmt.Sprint(bad["patches"].([]interface{})[0].(map[string]interface{})["op"], "@", at))
					}
				}
			}
		})
	}
}

// c10Inapplicable draws a validated ietf-json-patch whose single operation names a member that no generated document has.
func c10Inapplicable(r *fw.Rand) map[string]interface{} {
	ghost := "/ghost" + fmt.Sprint(r.Intn(1000))
	switch r.Intn(8) {
	case 0:
		return gen.PJSON(op("remove", ghost))
	case 1:
		return gen.PJSON(op("replace", ghost, "value", r.Intn(10)))
	case 2:
		return gen.PJSON(op("test", ghost, "value", r.Intn(10)))
	case 3:
		return gen.PJSON(op("test", ghost, "value", nil))
	case 4:
		return gen.PJSON(op("move", "/landing", "from", ghost))
	case 5:
		return gen.PJSON(op("copy", "/landing", "from", ghost))
	case 6:
		return gen.PJSON(op("add", ghost+"/child", "value", 1))
	}
	return gen.PJSON(op("replace", ghost+"/child", "value", 1))
}

func countCollisions(doc map[string]interface{}, patches []interface{}) int {
	ids := map[string]bool{}
	for _, prop := range []string{"publicKey", "service"} {
		l, _ := doc[prop].([]interface{})
		for _, e := range l {
			if m, ok := e.(map[string]interface{}); ok {
				ids[fmt.Sprint(m["id"])] = true
			}
		}
	}
	n := 0
	for _, raw := range patches {
		p := raw.(map[string]interface{})
		for _, vk := range []string{"publicKeys", "services"} {
			l, _ := p[vk].([]interface{})
			for _, e := range l {
				if m, ok := e.(map[string]interface{}); ok && ids[fmt.Sprint(m["id"])] {
					n++
				}
			}
		}
		l, _ := p["ids"].([]interface{})
		for _, e := range l {
			if ids[fmt.Sprint(e)] {
				n++
			}
		}
	}
	return n
}

func c10Compare(c *fw.Case, composer *doccomposer.DocumentComposer, doc map[string]interface{}, patches []interface{}, kind, actions string) {
	c.Count("lists", 1)
	c.Evals(1)
	c.Sig(kind, actions)
	for _, raw := range patches {
		if raw.(map[string]interface{})["action"] == "ietf-json-patch" {
			c.Count("ietf-patches", 1)
		}
	}
	if n := countCollisions(doc, patches); n > 0 {
		c.Count("collisions", n)
	}
	want, merr := oracle.ApplyPatchesModel(doc, patches, oracle.Quirks{})
	// json-patch's aliasing copy can tie a cycle out of RFC-valid operations (copy /a -> /b, copy /b -> /a/c),
	// which kills the process while marshalling: that input class is owned by C19's known finding and is not
	// handed to the composer here.
	if _, aerr := oracle.ApplyPatchesModel(doc, patches, oracle.Quirks{AliasCopy: true, MoveCopySet: true}); oracle.IsCycleErr(aerr) {
		c.Count("excluded:alias-cycle (C19 known finding)", 1)
		return
	}
	if _, aerr := oracle.ApplyPatchesModel(doc, patches, oracle.Quirks{AliasCopy: true}); oracle.IsCycleErr(aerr) {
		c.Count("excluded:alias-cycle (C19 known finding)", 1)
		return
	}
	ldoc, err1 := sut.ToDoc(doc)
	lps, err2 := sut.ToPatches(patches)
	if err1 != nil || err2 != nil {
		c.Inconclusive("conversion")
		return
	}
	if c.Rng.Chance(1, 3) {
		// the patches arrive as JSON text in another spelling of the same values (numbers as 2.0 / 2e0 / 0.2e1, escaped characters,
		// member order, whitespace) and are read with patch.FromBytes: the outcome is defined on values, not spellings
		lps = lps[:0]
		for _, raw := range patches {
			lp, err := patch.FromBytes(gen.Spell(c.Rng, raw, gen.AllSpell))
			if err != nil {
				c.Failf("respelled-patch-refused", map[string]interface{}{"patch": raw, "err": err.Error()}, "patch.FromBytes refused another spelling of a validated patch: %v", err)
				return
			}
			lps = append(lps, lp)
		}
		c.Count("lists-from-respelled-text", 1)
	}
	c.Journal(gen.ToJSON(map[string]interface{}{"doc": doc, "patches": patches}))
	got, gerr := composer.ApplyPatches(ldoc, lps)
	w := map[string]interface{}{"document": doc, "patches": patches}
	if merr != nil {
		// generator only emits applicable lists; a model failure means an inapplicable list
		c.Count("inapplicable-lists", 1)
		if gerr == nil {
			fp := "applied-inapplicable"
			gg, _ := sut.FromDoc(got)
			if q, ok := explainByQuirks(doc, patches, gg, false); ok {
				fp = "jsonpatch-quirk:" + q
			}
			w["got"] = gg
			c.Failf(fp, w, "the list does not apply under RFC 6902 (%v) but ApplyPatches succeeded", merr)
		} else {
			c.Count("inapplicable-lists-refused", 1)
		}
		return
	}
	if gerr != nil {
		w["err"] = gerr.Error()
		fp := "apply-error"
		if q, ok := explainByQuirks(doc, patches, nil, true); ok {
			fp = "jsonpatch-quirk:" + q
		}
		c.Failf(fp, w, "ApplyPatches failed on a validated, applicable list: %v", gerr)
		return
	}
	gg, err := sut.FromDoc(got)
	if err != nil {
		c.Inconclusive("result-not-json")
		return
	}
	c.Sample(map[string]interface{}{"document": doc, "patches": patches, "result": gg})
	if !oracle.DocEqual(gg, want) {
		w["expected"] = want
		w["got"] = gg
		w["diff"] = describeDiff(oracle.NormalizeDoc(want), oracle.NormalizeDoc(gg))
		fp := "composition-mismatch"
		if q, ok := explainByQuirks(doc, patches, gg, false); ok {
			fp = "jsonpatch-quirk:" + q
		}
		c.Failf(fp, w, "ApplyPatches result differs from the per-action semantics (%s)", w["diff"])
		return
	}
	if oracle.UniqueIDs(doc) && !oracle.UniqueIDs(gg) {
		w["got"] = gg
		c.Failf("duplicate-ids", w, "result has duplicate key/service ids although the start had none")
	}
}

// explainByQuirks looks for the smallest set of known json-patch v4.1.0
// deviations whose emulation reproduces the observed outcome exactly.
func explainByQuirks(doc map[string]interface{}, patches []interface{}, got map[string]interface{}, gotErr bool) (string, bool) {
	for _, q := range oracle.AllQuirkSubsets() {
		alt, aerr := oracle.ApplyPatchesModel(doc, patches, q)
		if gotErr {
			if aerr != nil {
				return q.Name(), true
			}
			continue
		}
		if aerr == nil && oracle.DocEqual(got, alt) {
			return q.Name(), true
		}
	}
	return "", false
}
