package checks

import (
	"bytes"
	"encoding/json"
	"fmt"
	"math"
	"reflect"
	"strconv"
	"strings"
	"time"

	"github.com/trustbloc/sidetree-go/pkg/api/operation"
	"github.com/trustbloc/sidetree-go/pkg/api/protocol"
	"github.com/trustbloc/sidetree-go/pkg/document"
	"github.com/trustbloc/sidetree-go/pkg/docutil"
	"github.com/trustbloc/sidetree-go/pkg/versions/1_0/doctransformer/didtransformer"
	"github.com/trustbloc/sidetree-go/pkg/versions/1_0/doctransformer/doctransformer"

	"verifharness/fw"
	"verifharness/gen"
	"verifharness/oracle"
	"verifharness/sut"
)

func init() {
	fw.Register(&fw.Check{
		ID:          "C18",
		Rule:        "cases: internal documents built from validated keys (6 types x purpose subsets, consistent type/material pairs incl. Ed25519 2018/2020 with JWK -> base58 / multibase), services (all endpoint shapes, extra members) and also-known-as; all 2^5 combinations of {@base, method context, key-context override, include published, include unpublished}; resolution states incl. deactivated, unpublished, zero times; operation lists of 0..12 entries with (time, number) drawn from {0..3}^2 (ties and disagreeing orders dominate) and duplicated canonical references. Oracle: a small reference transformer written from the statement builds the complete expected document and metadata; operation lists are checked as sorted by (time, number) and as a permutation of the de-duplicated input. distinct = (option combination, key types, list-length and duplicate pattern).",
		Assumptions: []string{"reference transformer in the harness", "own base58 encoder"},
		Require:     []string{"transforms", "keys", "services", "published-lists", "unpublished-lists", "ed25519-conversions", "generic-transformer", "retained-results-rechecked", "transformation-infos"},
		Run:         runC18,
	})
}

const (
	c18DIDCtx = "https://www.w3.org/ns/did/v1"
	c18ResCtx = "https://w3id.org/did-resolution/v1"
)

var c18KeyCtx = map[string]string{
	gen.TBls: "https://w3id.org/security/suites/bls12381-2020/v1", gen.TJwk2020: "https://w3id.org/security/suites/jws-2020/v1",
	gen.TSecp: "https://w3id.org/security/suites/secp256k1-2019/v1", gen.TEd2018: "https://w3id.org/security/suites/ed25519-2018/v1",
	gen.TEd2020: "https://w3id.org/security/suites/ed25519-2020/v1", gen.TX25519: "https://w3id.org/security/suites/x25519-2019/v1",
}

var purposeProp = map[string]string{"authentication": "authentication", "assertionMethod": "assertionMethod", "keyAgreement": "keyAgreement",
	"capabilityDelegation": "capabilityDelegation", "capabilityInvocation": "capabilityInvocation"}

func runC18(r *fw.Runner) {
	for b := 0; b < r.N(150, 8000); b++ {
		r.Case("transform", func(c *fw.Case) {
			// one transformer instance per option combination is reused for several documents, and every retained
			// result is verified a second time after all calls: results of one instance must not influence each other
			cache := map[int]*c18Tr{}
			var rechecks []func()
			for i := 0; i < 20; i++ {
				combo := (c.Idx*4 + i%4) % 32
				if re := c18Case(c, combo, cache); re != nil {
					rechecks = append(rechecks, re)
				}
			}
			for _, re := range rechecks {
				re()
			}
		})
	}
	for b := 0; b < r.N(10, 200); b++ {
		r.Case("transformation-info", func(c *fw.Case) {
			for i := 0; i < 40; i++ {
				c18Info(c)
			}
		})
	}
	for b := 0; b < r.N(20, 400); b++ {
		r.Case("generic-transformer", func(c *fw.Case) {
			for i := 0; i < 20; i++ {
				c18Generic(c)
			}
		})
	}
}

type c18Op struct {
	op *operation.AnchoredOperation
}

func c18OpList(r *fw.Rand, tag string) []*operation.AnchoredOperation {
	n := r.Intn(13)
	var out []*operation.AnchoredOperation
	for i := 0; i < n; i++ {
		op := &operation.AnchoredOperation{Type: fw.Pick(r, []operation.Type{operation.TypeCreate, operation.TypeUpdate, operation.TypeRecover, operation.TypeDeactivate}),
			UniqueSuffix: "EiSuffix", OperationRequest: []byte(fmt.Sprintf("%s-op-%d-%d", tag, i, r.Intn(1<<30))),
			TransactionTime: uint64(r.Intn(4)), TransactionNumber: uint64(r.Intn(4)), ProtocolVersion: uint64(r.Intn(3)),
			CanonicalReference: fmt.Sprintf("ref%d", r.Intn(6))}
		if r.Chance(1, 5) {
			// times and numbers are unsigned 64-bit values: the order holds over the whole range
			huge := []uint64{0, 1, 1 << 31, 1 << 32, 1<<63 - 1, 1 << 63, 1<<63 + 1, math.MaxUint64 - 1, math.MaxUint64}
			op.TransactionTime = fw.Pick(r, huge)
			if r.Bool() {
				op.TransactionNumber = fw.Pick(r, huge)
			}
		}
		if r.Chance(1, 3) {
			op.EquivalentReferences = []string{"eq1", "eq2"}
			if r.Bool() {
				// what is an equivalent reference of one operation is the canonical reference of another (or its own)
				op.EquivalentReferences = []string{fmt.Sprintf("ref%d", r.Intn(6)), "eq1", fmt.Sprintf("ref%d", r.Intn(6))}
			}
		}
		if r.Chance(1, 4) {
			op.AnchorOrigin = "https://origin.example"
		}
		out = append(out, op)
	}
	return out
}

func opKey(o *operation.AnchoredOperation) string { return string(o.OperationRequest) }

// c18CheckOps verifies the emitted operation list against the input list.
func c18CheckOps(emitted interface{}, input []*operation.AnchoredOperation, dedup bool, hasNumber bool) string {
	// decoded with exact integers: times and numbers are 64-bit values
	eb, err := json.Marshal(emitted)
	if err != nil {
		return "emitted list not JSON"
	}
	var g interface{}
	dec := json.NewDecoder(bytes.NewReader(eb))
	dec.UseNumber()
	if err := dec.Decode(&g); err != nil {
		return "emitted list not JSON"
	}
	l, _ := g.([]interface{})
	byReq := map[string]*operation.AnchoredOperation{}
	for _, o := range input {
		byReq[oracle.B64Std(o.OperationRequest)] = o
	}
	wantRefs := map[string]bool{}
	for _, o := range input {
		wantRefs[o.CanonicalReference] = true
	}
	expectLen := len(input)
	if dedup {
		expectLen = len(wantRefs)
	}
	if len(l) != expectLen {
		return fmt.Sprintf("emitted %d operations, expected %d", len(l), expectLen)
	}
	seen := map[string]bool{}
	seenRef := map[string]bool{}
	var prevT, prevN uint64
	for i, e := range l {
		m, _ := e.(map[string]interface{})
		req, _ := m["operation"].(string)
		src, ok := byReq[req]
		if !ok {
			return fmt.Sprintf("emitted operation %d is not one of the input operations", i)
		}
		if seen[req] {
			return "an operation is emitted twice"
		}
		seen[req] = true
		if dedup {
			if seenRef[src.CanonicalReference] {
				return "two emitted operations share a canonical reference " + src.CanonicalReference
			}
			seenRef[src.CanonicalReference] = true
			if m["canonicalReference"] != src.CanonicalReference {
				return "canonical reference not reported"
			}
		}
		if fmt.Sprint(m["transactionTime"]) != strconv.FormatUint(src.TransactionTime, 10) || m["type"] != string(src.Type) {
			return fmt.Sprintf("operation %d misreported (time/type)", i)
		}
		if hasNumber {
			if fmt.Sprint(m["transactionNumber"]) != strconv.FormatUint(src.TransactionNumber, 10) {
				return fmt.Sprintf("operation %d misreported (number)", i)
			}
		}
		if i > 0 {
			if src.TransactionTime < prevT || (src.TransactionTime == prevT && src.TransactionNumber < prevN) {
				return fmt.Sprintf("not in anchoring order: (%d,%d) emitted after (%d,%d)", src.TransactionTime, src.TransactionNumber, prevT, prevN)
			}
		}
		prevT, prevN = src.TransactionTime, src.TransactionNumber
	}
	return ""
}

func c18State(r *fw.Rand) (*protocol.ResolutionModel, map[string]interface{}) {
	doc := map[string]interface{}{}
	if nk := r.Intn(5); nk > 0 {
		var keys []interface{}
		for _, id := range genPick(r, gen.KeyIDPool, nk) {
			keys = append(keys, c18Key(r, id))
		}
		doc["publicKey"] = keys
	}
	if ns := r.Intn(4); ns > 0 {
		doc["service"] = gen.RandServices(r, ns)
	}
	if r.Chance(1, 3) {
		var l []interface{}
		for _, u := range gen.PickURIs(r, r.Range(1, 3)) {
			l = append(l, u)
		}
		doc["alsoKnownAs"] = l
	}
	ldoc, _ := sut.ToDoc(doc)
	rm := &protocol.ResolutionModel{Doc: ldoc}
	if r.Chance(3, 4) {
		rm.RecoveryCommitment = "EiRecovery" + fmt.Sprint(r.Intn(100))
	}
	if r.Chance(3, 4) {
		rm.UpdateCommitment = "EiUpdate" + fmt.Sprint(r.Intn(100))
	}
	switch r.Intn(3) {
	case 1:
		rm.AnchorOrigin = "https://anchor.example"
	case 2:
		rm.AnchorOrigin = map[string]interface{}{"domain": "anchor.example"}
	}
	rm.Deactivated = r.Chance(1, 5)
	rm.CreatedTime = uint64(r.Intn(3)) * uint64(r.Range(1, 1700000000))
	rm.UpdatedTime = uint64(r.Intn(3)) * uint64(r.Range(1, 1700000000))
	if r.Chance(1, 4) {
		rm.UpdatedTime = rm.CreatedTime // e.g. create and update anchored in the same block
	}
	if r.Chance(2, 3) {
		rm.VersionID = "uEiVersion" + fmt.Sprint(r.Intn(100))
	}
	rm.CanonicalReference = fw.Pick(r, []string{"", "uEiCanon1", "uEiCanon2"})
	if r.Bool() {
		rm.EquivalentReferences = []string{"hl:uEiA:x", "hl:uEiB:y"}
		if r.Chance(1, 3) {
			// a reference listed twice, or the canonical reference listed among the equivalent ones: reported as given
			rm.EquivalentReferences = append(rm.EquivalentReferences, "hl:uEiA:x")
			if rm.CanonicalReference != "" {
				rm.EquivalentReferences = append(rm.EquivalentReferences, rm.CanonicalReference)
			}
		}
	}
	rm.PublishedOperations = c18OpList(r, "pub")
	rm.UnpublishedOperations = c18OpList(r, "unpub")
	return rm, doc
}

// c18Key draws a validated key with material consistent with its type.
func c18Key(r *fw.Rand, id string) map[string]interface{} {
	typ := fw.Pick(r, gen.DocKeyTypes)
	material := "jwk"
	if typ != gen.TJwk2020 && r.Chance(1, 3) {
		material = "b58"
	}
	return gen.DocKey(r, id, typ, gen.RandPurposes(r, typ), material)
}

// c18Tr is one transformer instance with the configuration it was built from.
type c18Tr struct {
	tr        *didtransformer.Transformer
	methodCtx []string
	keyCtx    map[string]string
}

func c18Transformer(r *fw.Rand, combo int, cache map[int]*c18Tr) *c18Tr {
	if t, ok := cache[combo]; ok {
		return t
	}
	withBase, withMethodCtx, withKeyCtx, incPub, incUnpub := combo&1 != 0, combo&2 != 0, combo&4 != 0, combo&8 != 0, combo&16 != 0
	var opts []didtransformer.Option
	opts = append(opts, didtransformer.WithBase(withBase), didtransformer.WithIncludePublishedOperations(incPub), didtransformer.WithIncludeUnpublishedOperations(incUnpub))
	t := &c18Tr{methodCtx: []string{}, keyCtx: c18KeyCtx}
	if withMethodCtx {
		all := []string{"https://w3id.org/did/method/v1", "https://example.org/ctx", "https://example.org/ctx3", "https://example.org/ctx4", "https://example.org/ctx5", "https://example.org/ctx6"}
		t.methodCtx = all[:r.Range(1, 6)]
		opts = append(opts, didtransformer.WithMethodContext(t.methodCtx))
	}
	if withKeyCtx {
		t.keyCtx = map[string]string{}
		for k := range c18KeyCtx {
			t.keyCtx[k] = "https://override.example/" + k
		}
		// two types share one context: it must be listed once
		t.keyCtx[gen.TEd2018] = t.keyCtx[gen.TEd2020]
		opts = append(opts, didtransformer.WithKeyContext(t.keyCtx))
	} else if combo&8 != 0 {
		// an option that names no contexts leaves the defaults in force
		opts = append(opts, didtransformer.WithKeyContext(fw.Pick(r, []map[string]string{nil, {}})))
	}
	if !withMethodCtx && combo&16 != 0 {
		opts = append(opts, didtransformer.WithMethodContext(fw.Pick(r, [][]string{nil, {}})))
	}
	t.tr = didtransformer.New(opts...)
	cache[combo] = t
	return t
}

// c18Case transforms one state; it returns a function that verifies the retained result once more.
func c18Case(c *fw.Case, combo int, cache map[int]*c18Tr) func() {
	r := c.Rng
	withBase, withKeyCtx, incPub, incUnpub := combo&1 != 0, combo&4 != 0, combo&8 != 0, combo&16 != 0
	ct := c18Transformer(r, combo, cache)
	tr, methodCtx, keyCtx := ct.tr, ct.methodCtx, ct.keyCtx
	if r.Chance(1, 5) {
		// a state the transformer has to give up on half-way (a usable key with purposes, then a key whose material does not fit its
		// type, an unknown type, no material): whatever it had collected until then shows in no later result
		good := gen.DocKey(r, "leftover", gen.TJwk2020, []string{"authentication", "assertionMethod", "keyAgreement", "capabilityInvocation", "capabilityDelegation"}, "jwk")
		bad := fw.Pick(r, []map[string]interface{}{
			{"id": "bad1", "type": gen.TEd2018, "purposes": []interface{}{"authentication"}, "publicKeyJwk": gen.NewKey(r, gen.P256).JWK()},
			{"id": "bad2", "type": "UnknownKeyType2030", "purposes": []interface{}{"assertionMethod"}, "publicKeyJwk": gen.NewKey(r, gen.Ed25519).JWK()},
			{"id": "bad3", "type": gen.TEd2020, "purposes": []interface{}{"authentication"}, "publicKeyJwk": map[string]interface{}{"kty": "OKP", "crv": "Ed25519", "x": "!!"}},
			{"id": "bad4", "type": gen.TJwk2020, "purposes": []interface{}{"authentication"}}})
		if pd, perr := sut.ToDoc(map[string]interface{}{"publicKey": []interface{}{good, bad}}); perr == nil {
			_, terr := tr.TransformDocument(&protocol.ResolutionModel{Doc: pd}, protocol.TransformationInfo{"id": "did:sidetree:EiBroken", "published": true})
			c.Count("transformations-given-up-half-way", 1)
			if terr != nil {
				c.Count("transformations-given-up-half-way-with-error", 1)
			}
		}
	}
	rm, doc := c18State(r)
	pubIn := append([]*operation.AnchoredOperation{}, rm.PublishedOperations...)
	unpubIn := append([]*operation.AnchoredOperation{}, rm.UnpublishedOperations...)
	published := r.Bool()
	ns, suffix := "did:sidetree", "EiSuffix"+fmt.Sprint(r.Intn(1000))
	var info protocol.TransformationInfo
	if published {
		info = docutil.GetTransformationInfoForPublished(ns, ns+":"+suffix, suffix, rm)
	} else {
		info = docutil.GetTransformationInfoForUnpublished(ns, "", "", suffix, fw.Pick(r, []string{"", "eyJjcmVhdGUiOnt9fQ"}))
	}
	id, _ := info[document.IDProperty].(string)
	c.Count("transforms", 1)
	c.Evals(1)
	docBefore := deepCopy(rm.Doc)
	res, err := tr.TransformDocument(rm, info)
	if err == nil {
		// transforming leaves the state as it was, and transforming the same state again gives the same result
		if !reflect.DeepEqual(docBefore, deepCopy(rm.Doc)) {
			c.Failf("state-document-modified-by-transformation", map[string]interface{}{"internal_document": doc, "diff": describeDiff(docBefore, rm.Doc)}, "TransformDocument modified the state's document (%s)", describeDiff(docBefore, rm.Doc))
			return nil
		}
		first, _ := json.Marshal(res)
		if res2, err2 := tr.TransformDocument(rm, info); err2 != nil {
			c.Failf("second-transformation-differs", map[string]interface{}{"internal_document": doc, "err": err2.Error()}, "the second transformation of the same state failed: %v", err2)
			return nil
		} else if second, _ := json.Marshal(res2); !bytes.Equal(first, second) {
			var g1, g2 interface{}
			json.Unmarshal(first, &g1)
			json.Unmarshal(second, &g2)
			c.Failf("second-transformation-differs", map[string]interface{}{"internal_document": doc, "diff": describeDiff(g1, g2)}, "the second transformation of the same state differs from the first (%s)", describeDiff(g1, g2))
			return nil
		}
		c.Count("states-transformed-twice", 1)
	}
	w := map[string]interface{}{"internal_document": doc, "options": map[string]interface{}{"base": withBase, "methodContext": methodCtx, "keyContextOverride": withKeyCtx, "includePublished": incPub, "includeUnpublished": incUnpub},
		"info": info}
	if err != nil {
		w["err"] = err.Error()
		c.Failf("transform-error", w, "TransformDocument failed on a validated document: %v", err)
		return nil
	}
	// ---- expected document
	objID := func(frag string) string {
		if withBase {
			return "#" + frag
		}
		return id + "#" + frag
	}
	ctx := []interface{}{c18DIDCtx}
	for _, m := range methodCtx {
		ctx = append(ctx, m)
	}
	if withBase {
		ctx = append(ctx, map[string]interface{}{"@base": id})
	}
	exp := map[string]interface{}{"id": id}
	if aka, ok := doc["alsoKnownAs"]; ok {
		exp["alsoKnownAs"] = aka
	}
	rels := map[string][]interface{}{}
	var vms []interface{}
	var keyCtxSeen []string
	types := ""
	keys, _ := doc["publicKey"].([]interface{})
	for _, raw := range keys {
		k := raw.(map[string]interface{})
		kid, typ := k["id"].(string), k["type"].(string)
		types += typ[:3]
		vm := map[string]interface{}{"id": objID(kid), "type": typ, "controller": id}
		c.Count("keys", 1)
		if j, ok := k["publicKeyJwk"].(map[string]interface{}); ok {
			switch typ {
			case gen.TEd2018:
				x, _ := oracle.B64DecodeStrict(j["x"].(string))
				vm["publicKeyBase58"] = gen.B58(x)
				c.Count("ed25519-conversions", 1)
			case gen.TEd2020:
				x, _ := oracle.B64DecodeStrict(j["x"].(string))
				vm["publicKeyMultibase"] = "z" + gen.B58(x)
				c.Count("ed25519-conversions", 1)
			default:
				vm["publicKeyJwk"] = j
			}
		} else {
			vm["publicKeyBase58"] = k["publicKeyBase58"]
		}
		vms = append(vms, vm)
		kc := keyCtx[typ]
		dup := false
		for _, s := range keyCtxSeen {
			if s == kc {
				dup = true
			}
		}
		if !dup {
			keyCtxSeen = append(keyCtxSeen, kc)
		}
		ps, _ := k["purposes"].([]interface{})
		for _, p := range ps {
			rels[purposeProp[p.(string)]] = append(rels[purposeProp[p.(string)]], objID(kid))
		}
	}
	if len(vms) > 0 {
		exp["verificationMethod"] = vms
		for _, kc := range keyCtxSeen {
			ctx = append(ctx, kc)
		}
	}
	exp["@context"] = ctx
	for prop, l := range rels {
		exp[prop] = l
	}
	svcs, _ := doc["service"].([]interface{})
	var esvcs []interface{}
	for _, raw := range svcs {
		s := oracle.DeepCopy(raw).(map[string]interface{})
		s["id"] = objID(s["id"].(string))
		esvcs = append(esvcs, s)
		c.Count("services", 1)
	}
	if len(esvcs) > 0 {
		exp["service"] = esvcs
	}
	c.Sig(combo, types, len(svcs), published)
	got, gerr := oracle.Generic(res.Document)
	if gerr != nil {
		c.Inconclusive("result-not-json")
		return nil
	}
	if !oracle.JSONEqual(got, oracle.MustGeneric(exp)) {
		w["expected_document"], w["got_document"] = exp, got
		w["diff"] = describeDiff(exp, got)
		c.Failf("document:"+splitColon(fmt.Sprint(w["diff"])), w, "transformed document differs from the specification (%s)", w["diff"])
		return nil
	}
	if fmt.Sprint(res.Context) != c18ResCtx {
		c.Failf("resolution-context", w, "resolution result context is %v", res.Context)
	}
	// ---- expected metadata (operation lists are checked separately)
	method := map[string]interface{}{"published": published}
	if rm.RecoveryCommitment != "" {
		method["recoveryCommitment"] = rm.RecoveryCommitment
	}
	if rm.UpdateCommitment != "" {
		method["updateCommitment"] = rm.UpdateCommitment
	}
	if rm.AnchorOrigin != nil {
		method["anchorOrigin"] = rm.AnchorOrigin
	}
	em := map[string]interface{}{"method": method}
	if rm.Deactivated {
		em["deactivated"] = true
	}
	if v, ok := info[document.CanonicalIDProperty]; ok {
		em["canonicalId"] = v
	}
	if v, ok := info[document.EquivalentIDProperty]; ok {
		em["equivalentId"] = v
	}
	if published {
		em["created"] = time.Unix(int64(rm.CreatedTime), 0).UTC().Format(time.RFC3339)
	}
	if rm.VersionID != "" {
		em["versionId"] = rm.VersionID
		if rm.UpdatedTime > 0 {
			em["updated"] = time.Unix(int64(rm.UpdatedTime), 0).UTC().Format(time.RFC3339)
		}
	}
	gm, _ := oracle.Generic(res.DocumentMetadata)
	gmm, _ := gm.(map[string]interface{})
	var gotPub, gotUnpub interface{}
	if mm, ok := gmm["method"].(map[string]interface{}); ok {
		gotPub, gotUnpub = mm["publishedOperations"], mm["unpublishedOperations"]
		delete(mm, "publishedOperations")
		delete(mm, "unpublishedOperations")
	}
	if !oracle.JSONEqual(gmm, oracle.MustGeneric(em)) {
		w["expected_metadata"], w["got_metadata"] = em, gmm
		w["diff"] = describeDiff(em, gmm)
		c.Failf("metadata:"+splitColon(fmt.Sprint(w["diff"])), w, "metadata differs from the state's / info's values (%s)", w["diff"])
		return nil
	}
	describe := func(ops []*operation.AnchoredOperation) []interface{} {
		var out []interface{}
		for _, o := range ops {
			out = append(out, map[string]interface{}{"time": o.TransactionTime, "number": o.TransactionNumber, "ref": o.CanonicalReference, "operation": string(o.OperationRequest)})
		}
		return out
	}
	if incPub && len(pubIn) > 0 {
		c.Count("published-lists", 1)
		if msg := c18CheckOps(gotPub, pubIn, true, true); msg != "" {
			w["input_operations"], w["emitted"] = describe(pubIn), gotPub
			c.Failf("published-operations:"+splitColon(msg), w, "published operations: %s", msg)
			return nil
		}
	} else if gotPub != nil {
		c.Failf("published-operations-unexpected", w, "published operations emitted although not requested / empty")
	}
	if incUnpub && len(unpubIn) > 0 {
		c.Count("unpublished-lists", 1)
		if msg := c18CheckOps(gotUnpub, unpubIn, false, false); msg != "" {
			w["input_operations"], w["emitted"] = describe(unpubIn), gotUnpub
			c.Failf("unpublished-operations:"+splitColon(msg), w, "unpublished operations: %s", msg)
			return nil
		}
	} else if gotUnpub != nil {
		c.Failf("unpublished-operations-unexpected", w, "unpublished operations emitted although not requested / empty")
	}
	c.Sample(map[string]interface{}{"internal_document": doc, "options_bits": combo, "result_document": got})
	expDoc := oracle.MustGeneric(exp)
	return func() {
		c.Evals(1)
		c.Count("retained-results-rechecked", 1)
		again, err := oracle.Generic(res.Document)
		if err != nil || !oracle.JSONEqual(again, expDoc) {
			w["expected_document"], w["got_document_after_later_calls"] = exp, again
			w["diff"] = describeDiff(exp, again)
			c.Failf("retained-result-changed:"+splitColon(fmt.Sprint(w["diff"])), w, "a result obtained earlier from the same transformer instance changed after later calls (%s)", w["diff"])
		}
	}
}

func c18Generic(c *fw.Case) {
	r := c.Rng
	incPub, incUnpub := r.Bool(), r.Bool()
	tr := doctransformer.New(doctransformer.WithIncludePublishedOperations(incPub), doctransformer.WithIncludeUnpublishedOperations(incUnpub))
	rm, doc := c18State(r)
	pubIn := append([]*operation.AnchoredOperation{}, rm.PublishedOperations...)
	info := protocol.TransformationInfo{"id": "doc:ns:EiSuffix", "published": true, "canonicalId": "doc:ns:canon:EiSuffix"}
	c.Count("generic-transformer", 1)
	c.Evals(1)
	res, err := tr.TransformDocument(rm, info)
	if err != nil {
		c.Failf("generic-transform-error", map[string]interface{}{"err": err.Error()}, "generic TransformDocument failed: %v", err)
		return
	}
	exp := oracle.DeepCopy(doc).(map[string]interface{})
	exp["id"] = "doc:ns:EiSuffix"
	got, _ := oracle.Generic(res.Document)
	if !oracle.JSONEqual(got, oracle.MustGeneric(exp)) {
		c.Failf("generic-document", map[string]interface{}{"expected": exp, "got": got}, "generic transformer changed the document (%s)", describeDiff(exp, got))
	}
	gm, _ := oracle.Generic(res.DocumentMetadata)
	gmm, _ := gm.(map[string]interface{})
	mm, _ := gmm["method"].(map[string]interface{})
	if gmm["canonicalId"] != "doc:ns:canon:EiSuffix" || mm == nil || mm["published"] != true {
		c.Failf("generic-metadata", map[string]interface{}{"got": gmm}, "generic transformer metadata wrong")
	}
	if incPub && len(pubIn) > 0 {
		if msg := c18CheckOps(mm["publishedOperations"], pubIn, true, true); msg != "" {
			c.Failf("published-operations:"+splitColon(msg), map[string]interface{}{"emitted": mm["publishedOperations"]}, "generic transformer published operations: %s", msg)
		}
	}
	c.Sig("generic", incPub, incUnpub, len(pubIn))
}

// c18Info compares the transformation info (id, published flag, canonical id, equivalent ids) computed for a state with the rule
// documented for it: published -> canonical id = namespace[:canonical reference]:suffix, equivalent ids = the canonical id followed by
// namespace:reference:suffix for every equivalent reference; unpublished -> id = namespace[:label]:suffix[:initial state], equivalent
// ids = the short form (when an initial state is given) and the domain-hinted form namespace:domain:label:suffix (when label and
// domain are given and the label does not already contain the domain).
func c18Info(c *fw.Case) {
	r := c.Rng
	ns := fw.Pick(r, []string{"did:sidetree", "did:ion", "did:orb", "x"})
	suffix := "EiSuffix" + fmt.Sprint(r.Intn(1000))
	c.Count("transformation-infos", 1)
	c.Evals(1)
	if r.Bool() {
		rm := &protocol.ResolutionModel{CanonicalReference: fw.Pick(r, []string{"", "uEiCanon1", "uEiC:with:colons"})}
		for i, n := 0, r.Intn(4); i < n; i++ {
			rm.EquivalentReferences = append(rm.EquivalentReferences, fmt.Sprintf("hl:uEi%d:ref%d", r.Intn(100), i))
		}
		id := fw.Pick(r, []string{ns + ":" + suffix, ns + ":uEiOther:" + suffix, "anything"})
		refsBefore := append([]string(nil), rm.EquivalentReferences...)
		got := docutil.GetTransformationInfoForPublished(ns, id, suffix, rm)
		canon := ns + ":" + suffix
		if rm.CanonicalReference != "" {
			canon = ns + ":" + rm.CanonicalReference + ":" + suffix
		}
		eq := []interface{}{canon}
		for _, ref := range refsBefore {
			eq = append(eq, ns+":"+ref+":"+suffix)
		}
		want := map[string]interface{}{"id": id, "published": true, "canonicalId": canon, "equivalentId": eq}
		c.Sig("info-published", rm.CanonicalReference != "", len(refsBefore))
		if g, _ := oracle.Generic(got); !oracle.JSONEqual(g, want) {
			c.Failf("transformation-info:published", map[string]interface{}{"namespace": ns, "id": id, "suffix": suffix, "canonical_reference": rm.CanonicalReference, "equivalent_references": refsBefore, "got": g, "expected": want},
				"transformation info of a published state differs from the documented rule (%s)", describeDiff(want, g))
		}
		return
	}
	label := fw.Pick(r, []string{"", "", "interim", "uEiLabel", "https:example.com:uEiLabel"})
	domain := fw.Pick(r, []string{"", "", "https:example.com", "ipfs"})
	jcs := fw.Pick(r, []string{"", "eyJjcmVhdGUiOnt9fQ"})
	got := docutil.GetTransformationInfoForUnpublished(ns, domain, label, suffix, jcs)
	short := ns + ":" + suffix
	if label != "" {
		short = ns + ":" + label + ":" + suffix
	}
	var eq []interface{}
	if jcs != "" {
		eq = append(eq, short)
	}
	if label != "" && domain != "" {
		if strings.Contains(label, domain) {
			eq = append(eq, short)
		} else {
			eq = append(eq, ns+":"+domain+":"+label+":"+suffix)
		}
	}
	id := short
	if jcs != "" {
		id = short + ":" + jcs
	}
	want := map[string]interface{}{"id": id, "published": false}
	if len(eq) > 0 {
		want["equivalentId"] = eq
	}
	c.Sig("info-unpublished", label != "", domain != "", jcs != "", strings.Contains(label, domain))
	if g, _ := oracle.Generic(got); !oracle.JSONEqual(g, want) {
		c.Failf("transformation-info:unpublished", map[string]interface{}{"namespace": ns, "domain": domain, "label": label, "suffix": suffix, "initial_state": jcs, "got": g, "expected": want},
			"transformation info of an unpublished state differs from the documented rule (%s)", describeDiff(want, g))
	}
}
