package checks

import (
	"fmt"
	"github.com/trustbloc/sidetree-go/pkg/document"
	"github.com/trustbloc/sidetree-go/pkg/vdr/sidetreelongform/dochandler"
	"github.com/trustbloc/sidetree-go/pkg/versions/1_0/model"
	"strings"

	"verifharness/fw"
	"verifharness/gen"
	"verifharness/oracle"
	"verifharness/sut"
)

func init() {
	fw.Register(&fw.Check{
		ID:          "C03",
		Rule:        "cases: create requests over all eight patch kinds, optional anchor origin (string / object) and type, hash code 18 or 19, parsed (non-batch) under the algorithm configurations [18], [19], [18,19], [19,18]; per request 8 re-serializations (member order at every depth, insignificant whitespace, \\uXXXX spellings, number spellings) that must give the same DID, and every single-field modification (each suffix-data member, the update commitment, each patch, one character of a hash keeping it well-formed) that must give a different DID or be refused. Oracle: suffix = b64url(multihash(c, H_c(JCS(suffix data)))) with c a configured algorithm named by the suffix's own prefix, ID = namespace ':' suffix, computed by the harness codec from the generator's suffix data. distinct = (patch actions, anchor origin kind, type?, code, configuration, modification kind, verdict).",
		Assumptions: []string{"harness JCS / multihash oracle"},
		Require:     []string{"accepted", "respellings", "modifications", "modification-refused", "modification-new-did"},
		Run:         runC03,
	})
}

func c03Proto(algs []uint) sut.Stack {
	p := sut.Proto()
	p.MultihashAlgorithms = algs
	return *sut.SharedStack(p)
}

func runC03(r *fw.Runner) {
	for b := 0; b < r.N(300, 6000); b++ {
		r.Case("creates", func(c *fw.Case) { c03Case(c) })
	}
}

func c03Patches(r *fw.Rand) ([]interface{}, string) {
	var ps []interface{}
	acts := ""
	n := r.Range(1, 3)
	for i := 0; i < n; i++ {
		var p map[string]interface{}
		if r.Chance(1, 4) {
			val := gen.RandJSONValue(r, 2)
			if r.Chance(1, 3) {
				val = map[string]interface{}{"n": gen.RandDouble(r), "s": gen.RandString(r, 6)}
			}
			p = gen.PJSON(map[string]interface{}{"op": "add", "path": "/" + fw.Pick(r, []string{"foo", "bar", "meta"}), "value": val})
		} else {
			p = gen.RandSimplePatch(r)
		}
		ps = append(ps, p)
		acts += fmt.Sprint(p["action"])[:5] + ","
	}
	return ps, acts
}

func c03Case(c *fw.Case) {
	r := c.Rng
	code := uint64(18 + r.Intn(2))
	cfgs := [][]uint{{18}, {19}, {18, 19}, {19, 18}}
	cfg := cfgs[r.Intn(4)]
	configured := false
	for _, a := range cfg {
		if uint64(a) == code {
			configured = true
		}
	}
	st := c03Proto(cfg)
	patches, acts := c03Patches(r)
	spec, _ := gen.NewChainCreate(r, code, fw.Pick(r, gen.SigningKeyTypes), patches)
	aoKind := "none"
	switch r.Intn(4) {
	case 3:
		spec.AnchorOrigin, aoKind = fw.Pick(r, []interface{}{float64(1), true, false, []interface{}{"a", "b"}, []interface{}{}, map[string]interface{}{"k": "v"}, float64(r.Intn(50)), "1", "true", "x|y", "", " ", "null"}), "scalar-or-list"
	case 1:
		spec.AnchorOrigin, aoKind = fmt.Sprintf("https://anchor%d.example", r.Intn(100)), "string"
	case 2:
		// numbers of every size class: the DID must be the hash of the CANONICAL suffix data, whatever the spelling
		spec.AnchorOrigin, aoKind = map[string]interface{}{"domain": "anchor.example", "weight": r.Intn(5),
			"big":   fw.Pick(r, []interface{}{float64(1 << 62), 9223372036854775808.0, 18446744073709551615.0, 1e19, 1e20, 123456789012345680000.0, 1e21, 1e22, 4.5, 1e-7}),
			"rand":  gen.RandDouble(r),
			"names": gen.RandObject(r, 1), // member names over all planes (UTF-16 vs code-point order), related by prefix, empty
			"😀":     1, "Ａ": 2, "origin": 3, "origins": 4,
			"limit": float64(int64(1)<<53) + float64(r.Intn(3))}, "object"
	}
	if r.Chance(1, 3) {
		spec.CreateType = "t" + fmt.Sprint(r.Intn(99))
	}
	b := spec.Build(r)
	ns := fw.Pick(r, []string{"did:sidetree", "did:ion", "did:orb:uAAA", "x", "did:sidetree:", "did:ion:", ":", ""})
	c.Evals(1)
	op, err := st.Parser.Parse(ns, b.Request)
	w := map[string]interface{}{"request": string(b.Request), "configuration": cfg, "namespace": ns}
	if !configured {
		c.Count("unconfigured-algorithm", 1)
		c.Sig("unconfigured", code, fmt.Sprint(cfg))
		if err == nil {
			c.Failf("unconfigured-algorithm-accepted", w, "create whose hashes use code %d accepted under configuration %v", code, cfg)
		}
		return
	}
	if err != nil {
		w["err"] = err.Error()
		c.Failf("valid-create-refused", w, "valid create refused: %v", err)
		return
	}
	c.Count("accepted", 1)
	c.Sig(acts, aoKind, spec.CreateType != "", code, fmt.Sprint(cfg))
	// reference: the suffix names a configured algorithm and is the hash of the canonical suffix data
	dm, derr := oracle.DecodeEncodedMultihash(op.UniqueSuffix)
	okAlg := false
	if derr == nil {
		for _, a := range cfg {
			if uint64(a) == dm.Code {
				okAlg = true
			}
		}
	}
	if derr != nil || !okAlg {
		w["suffix"] = op.UniqueSuffix
		c.Failf("suffix-not-configured-multihash", w, "unique suffix %q is not a multihash of a configured algorithm", op.UniqueSuffix)
		return
	}
	want := oracle.MustModelHash(dm.Code, b.SuffixData)
	if op.UniqueSuffix != want {
		w["suffix"], w["expected"] = op.UniqueSuffix, want
		c.Failf("suffix-not-hash-of-suffix-data", w, "unique suffix is not multihash(JCS(suffix data))")
		return
	}
	if op.ID != ns+":"+op.UniqueSuffix {
		w["id"] = op.ID
		c.Failf("id-form", w, "ID %q is not namespace:suffix", op.ID)
	}
	c.Sample(map[string]interface{}{"request": string(b.Request), "did": op.ID})
	// ... and by every route: parsed in batch mode, and as the anchored form the library itself derives from the parsed operation
	{
		c.Count("routes", 1)
		c.Evals(3)
		if bop, berr := st.Parser.ParseOperation(ns, b.Request, true); berr != nil || bop.UniqueSuffix != op.UniqueSuffix {
			w["batch_mode"] = fmt.Sprint(bop, berr)
			c.Failf("same-request-other-did-in-batch-mode", w, "the create request denotes another DID (or is refused) when parsed in batch mode: %v", berr)
			return
		}
		internal, ierr := st.Parser.ParseOperation(ns, b.Request, false)
		if ierr != nil || internal.UniqueSuffix != op.UniqueSuffix {
			c.Failf("same-request-other-did-via-parse-operation", w, "ParseOperation and Parse disagree on the DID: %v", ierr)
			return
		}
		if anch, aerr := model.GetAnchoredOperation(internal); aerr != nil {
			w["err"] = aerr.Error()
			c.Failf("anchored-form-error", w, "GetAnchoredOperation failed on an accepted create: %v", aerr)
			return
		} else {
			re, rerr := st.Parser.ParseOperation(ns, anch.OperationRequest, true)
			if anch.UniqueSuffix != op.UniqueSuffix || rerr != nil || re.UniqueSuffix != op.UniqueSuffix {
				w["anchored_request"], w["anchored_suffix"], w["reparsed"] = string(anch.OperationRequest), anch.UniqueSuffix, fmt.Sprint(re, rerr)
				c.Failf("anchored-form-denotes-other-did", w, "the anchored form of the create (suffix %s) or its re-parse denotes another DID than the request (%s)", anch.UniqueSuffix, op.UniqueSuffix)
				return
			}
		}
	}
	// a long-form DID names its suffix in one spelling only: another base64url text that merely decodes to the same bytes (spare
	// trailing bits set) is a different, unknown suffix for the resolving handler
	if c.Idx%4 == 0 {
		if hd, herr := dochandler.New("did:ion"); herr == nil {
			canon := oracle.B64(oracle.MustJCS(oracle.MustGeneric(b.ReqObj)))
			if op19, perr := sut.SharedStack(sut.Proto()).Parser.Parse("did:ion", b.Request); perr == nil {
				good := "did:ion:" + op19.UniqueSuffix + ":" + canon
				if _, gerr := hd.ResolveDocument(good); gerr == nil {
					// the DID the handler hands out for the request is the same for every spelling of the request
					sp1, sp2 := gen.Spell(r, oracle.MustGeneric(b.ReqObj), gen.AllSpell), gen.Spell(r, oracle.MustGeneric(b.ReqObj), gen.AllSpell)
					r0, e0 := hd.ProcessOperation(b.Request)
					r1, e1 := hd.ProcessOperation(sp1)
					r2, e2 := hd.ProcessOperation(sp2)
					c.Count("handler-respellings", 1)
					c.Evals(3)
					// (a longer spelling may exceed the handler's operation size limit: only what it accepts is compared)
					for i, res := range []*document.ResolutionResult{r0, r1, r2} {
						if []error{e0, e1, e2}[i] != nil || res == nil {
							continue
						}
						c.Count("handler-respellings-accepted", 1)
						if id := fmt.Sprint(res.Document["id"]); id != good {
							c.Failf("respelling-changes-did", map[string]interface{}{"request": string(b.Request), "processed": string([][]byte{b.Request, sp1, sp2}[i]), "did": id, "expected": good},
								"the document handler names another DID for a re-serialization of a create request than for the request itself")
							break
						}
					}
					// the suffix with letters of the namespace glued in front of it (or behind) is another, unknown suffix
					for _, junk := range []string{"d", "n", "ion", "dino", "i"} {
						c.Count("suffix-decorated-resolutions", 2)
						c.Evals(2)
						for _, bad := range []string{"did:ion:" + junk + op19.UniqueSuffix + ":" + canon, "did:ion:" + op19.UniqueSuffix + junk + ":" + canon} {
							if _, jerr := hd.ResolveDocument(bad); jerr == nil {
								c.Failf("suffix-alias-resolved", map[string]interface{}{"did": good, "resolved": bad}, "a long-form DID whose suffix is the real one with %q glued to it resolves", junk)
							}
						}
					}
					alias := nonCanonicalSpelling(r, op19.UniqueSuffix)
					c.Count("suffix-alias-resolutions", 1)
					c.Evals(1)
					if alias != op19.UniqueSuffix {
						if _, aerr := hd.ResolveDocument("did:ion:" + alias + ":" + canon); aerr == nil {
							c.Failf("suffix-alias-resolved", map[string]interface{}{"did": good, "alias_suffix": alias}, "a long-form DID whose suffix is another spelling of the same bytes (%s for %s) resolves", alias, op19.UniqueSuffix)
						}
					}
				}
			}
		}
	}
	// the same request denotes the same DID whatever the parser was asked in between: here a create it has to refuse because one
	// of its hashes uses an algorithm that is not configured
	{
		bad := *spec
		bad.RecoveryCommitment = unsupportedHash(r)
		if _, berr := st.Parser.Parse(ns, bad.Build(r).Request); berr == nil {
			c.Failf("unconfigured-algorithm-accepted", w, "create with a recovery commitment of an algorithm that is not configured was accepted")
			return
		}
		c.Count("reparsed-after-refusal", 1)
		c.Evals(1)
		if again, aerr := st.Parser.Parse(ns, b.Request); aerr != nil || again.UniqueSuffix != op.UniqueSuffix {
			w["suffix"], w["suffix_after_refusal"], w["err"] = op.UniqueSuffix, fmt.Sprint(again), fmt.Sprint(aerr)
			c.Failf("same-request-other-did-after-refusal", w, "the same create request parsed again after the parser refused another request denotes another DID (or is refused): %v", aerr)
			return
		}
	}
	// re-serializations
	for i := 0; i < 8; i++ {
		sp := gen.Spell(r, oracle.MustGeneric(b.ReqObj), gen.AllSpell)
		c.Count("respellings", 1)
		c.Evals(1)
		op2, err := st.Parser.Parse(ns, sp)
		if err != nil || op2.UniqueSuffix != op.UniqueSuffix || op2.ID != op.ID {
			c.Failf("respelling-changes-did", map[string]interface{}{"request": string(b.Request), "respelled": string(sp), "err": fmt.Sprint(err)}, "a re-serialization of an accepted create is refused or denotes another DID (%v)", err)
			break
		}
	}
	// single-field modifications
	type mod struct {
		name string
		f    func(req map[string]interface{})
	}
	sd := func(req map[string]interface{}) map[string]interface{} {
		return req["suffixData"].(map[string]interface{})
	}
	dl := func(req map[string]interface{}) map[string]interface{} { return req["delta"].(map[string]interface{}) }
	oneChar := func(s string) string {
		// change one character inside the digest part, keeping base64url well-formedness and length
		i := 6 + r.Intn(len(s)-8)
		c := byte('A')
		if s[i] == 'A' {
			c = 'B'
		}
		return s[:i] + string(c) + s[i+1:]
	}
	caseSwap := func(s string) string {
		for tries := 0; tries < 50; tries++ {
			i := 6 + r.Intn(len(s)-8)
			c := s[i]
			if c >= 'a' && c <= 'z' {
				return s[:i] + string(c-32) + s[i+1:]
			}
			if c >= 'A' && c <= 'Z' {
				return s[:i] + string(c+32) + s[i+1:]
			}
		}
		return s
	}
	mods := []mod{
		{"suffixData.deltaHash-letter-case-swapped", func(q map[string]interface{}) { sd(q)["deltaHash"] = caseSwap(fmt.Sprint(sd(q)["deltaHash"])) }},
		{"suffixData.deltaHash-one-char", func(q map[string]interface{}) { sd(q)["deltaHash"] = oneChar(fmt.Sprint(sd(q)["deltaHash"])) }},
		{"suffixData.deltaHash-padded", func(q map[string]interface{}) {
			sd(q)["deltaHash"] = fmt.Sprint(sd(q)["deltaHash"]) + fw.Pick(r, []string{"=", "==", "==="})
		}},
		{"suffixData.recoveryCommitment-padded", func(q map[string]interface{}) {
			sd(q)["recoveryCommitment"] = fmt.Sprint(sd(q)["recoveryCommitment"]) + fw.Pick(r, []string{"=", "=="})
		}},
		{"delta.updateCommitment-padded", func(q map[string]interface{}) {
			dl(q)["updateCommitment"] = fmt.Sprint(dl(q)["updateCommitment"]) + fw.Pick(r, []string{"=", "=="})
		}},
		{"suffixData.recoveryCommitment-one-char", func(q map[string]interface{}) {
			sd(q)["recoveryCommitment"] = oneChar(fmt.Sprint(sd(q)["recoveryCommitment"]))
		}},
		{"suffixData.recoveryCommitment-other-key", func(q map[string]interface{}) {
			sd(q)["recoveryCommitment"] = gen.NewKey(r, gen.Ed25519).Commitment(code)
		}},
		{"suffixData.anchorOrigin-changed", func(q map[string]interface{}) {
			sd(q)["anchorOrigin"] = "https://other.example/" + fmt.Sprint(r.Intn(1000))
		}},
		{"suffixData.type-changed", func(q map[string]interface{}) { sd(q)["type"] = "zz" + fmt.Sprint(r.Intn(1000)) }},
		{"suffixData.type-of-another-json-type", func(q map[string]interface{}) {
			// an optional member that is present with a value of the wrong JSON type is not an absent member
			sd(q)["type"] = fw.Pick(r, []interface{}{1.0, true, []interface{}{"1"}, map[string]interface{}{"a": "b"}, 0.0, false})
		}},
		{"delta.updateCommitment-one-char", func(q map[string]interface{}) {
			dl(q)["updateCommitment"] = oneChar(fmt.Sprint(dl(q)["updateCommitment"]))
		}},
		{"delta.updateCommitment-other-key", func(q map[string]interface{}) {
			dl(q)["updateCommitment"] = gen.NewKey(r, gen.Ed25519).Commitment(code)
		}},
		{"delta.patch-appended", func(q map[string]interface{}) {
			dl(q)["patches"] = append(dl(q)["patches"].([]interface{}), gen.PAddAka("did:example:injected"))
		}},
		{"delta.patch-dropped", func(q map[string]interface{}) {
			ps := dl(q)["patches"].([]interface{})
			if len(ps) > 1 {
				dl(q)["patches"] = ps[1:]
			} else {
				dl(q)["patches"] = []interface{}{gen.PAddAka("did:example:replaced")}
			}
		}},
		{"delta.patch-action-respelled", func(q map[string]interface{}) {
			// another name for the same action (a historic spec name, another letter case, blanks around it) is another delta
			ps := dl(q)["patches"].([]interface{})
			i := r.Intn(len(ps))
			pm := map[string]interface{}{}
			for k, v := range ps[i].(map[string]interface{}) {
				pm[k] = v
			}
			act := fmt.Sprint(pm["action"])
			legacy := map[string]string{"add-services": "add-service-endpoints", "remove-services": "remove-service-endpoints", "add-public-keys": "add-public-key", "remove-public-keys": "remove-public-key",
				"add-also-known-as": "add-alsoKnownAs", "remove-also-known-as": "remove-alsoKnownAs", "ietf-json-patch": "json-patch", "replace": "replace-document"}
			pm["action"] = fw.Pick(r, []string{legacy[act], legacy[act], strings.ToUpper(act), " " + act, act + " ", strings.Title(act)})
			ps[i] = pm
		}},
		{"delta.patch-appended-that-outgrows-the-delta-size-limit", func(q map[string]interface{}) {
			// (well-formed content; only its size is beyond what the protocol takes: refused outside batch mode, bound or not)
			dl(q)["patches"] = append(append([]interface{}{}, dl(q)["patches"].([]interface{})...), gen.PAddAka("https://big.example/"+strings.Repeat("a", int(st.P.MaxDeltaSize)+100)))
		}},
		{"delta.patch-value-modified", func(q map[string]interface{}) {
			ps := dl(q)["patches"].([]interface{})
			i := r.Intn(len(ps))
			if mv, _, ok := gen.MutateValue(r, ps[i]); ok {
				ps[i] = mv
			} else {
				ps[i] = gen.PAddAka("did:example:x")
			}
		}},
		{"suffixData.anchorOrigin-retyped-to-its-text-rendering", func(q map[string]interface{}) {
			// 1 -> "1", true -> "true", ["a","b"] -> "[a b]", {"k":"v"} -> "map[k:v]": another value, hence another DID
			if ao, ok := sd(q)["anchorOrigin"]; ok {
				if _, isStr := ao.(string); !isStr {
					sd(q)["anchorOrigin"] = fmt.Sprint(ao)
				}
			}
		}},
		{"suffixData.anchorOrigin-type-boundary-moved", func(q map[string]interface{}) {
			// ("x|y", type "z") vs ("x", type "y|z"): different suffix data
			if ao, ok := sd(q)["anchorOrigin"].(string); ok && strings.Contains(ao, "|") {
				t, _ := sd(q)["type"].(string)
				parts := strings.SplitN(ao, "|", 2)
				sd(q)["anchorOrigin"] = parts[0]
				sd(q)["type"] = parts[1] + "|" + t
			}
		}},
		{"suffixData.deltaHash-truncated-digest-with-other-delta", func(q map[string]interface{}) {
			// a well-formed multihash whose digest is a proper prefix (0, 1 or 8 bytes) of the true one does not bind the delta
			if dh, ok := sd(q)["deltaHash"].(string); ok {
				if dm, err := oracle.DecodeEncodedMultihash(dh); err == nil {
					n := fw.Pick(r, []int{0, 1, 8})
					sd(q)["deltaHash"] = oracle.B64(oracle.WrapDigest(dm.Code, dm.Digest[:n]))
					if r.Bool() {
						dl(q)["patches"] = []interface{}{gen.PAddAka("did:example:swapped")}
					}
				}
			}
		}},
		{"delta-and-hash-replaced-consistently", func(q map[string]interface{}) {
			nd := map[string]interface{}{"updateCommitment": dl(q)["updateCommitment"], "patches": []interface{}{gen.PAddAka("did:example:consistent" + fmt.Sprint(r.Intn(100)))}}
			q["delta"] = nd
			sd(q)["deltaHash"] = oracle.MustModelHash(code, nd)
		}},
	}
	for _, m := range mods {
		q := oracle.DeepCopy(oracle.MustGeneric(b.ReqObj)).(map[string]interface{})
		m.f(q)
		if oracle.JSONEqual(q, oracle.MustGeneric(b.ReqObj)) {
			continue
		}
		raw := oracle.MustJCS(q)
		c.Count("modifications", 1)
		c.Evals(1)
		if r.Bool() {
			// the same parser first sees the modified request in batch mode (where request-time rules are skipped)
			st.Parser.ParseOperation(ns, raw, true)
		}
		op3, err := st.Parser.Parse(ns, raw)
		verdict := "refused"
		if err == nil {
			verdict = "new-did"
			c.Count("modification-new-did", 1)
			// outside batch mode an accepted create's delta must hash to the recorded delta hash (harness codec)
			if dh, _ := sd(q)["deltaHash"].(string); true {
				if dm, derr := oracle.DecodeEncodedMultihash(dh); derr != nil || dh != oracle.MustModelHash(dm.Code, q["delta"]) {
					c.Failf("accepted-with-unbound-delta:"+m.name, map[string]interface{}{"modified": string(raw), "modification": m.name}, "modified create (%s) accepted although its delta does not hash to suffixData.deltaHash", m.name)
					continue
				}
			}
			if op3.UniqueSuffix == op.UniqueSuffix {
				c.Failf("modification-keeps-did:"+m.name, map[string]interface{}{"request": string(b.Request), "modified": string(raw), "modification": m.name, "did": op.ID}, "modified create (%s) is accepted with the same DID", m.name)
				continue
			}
			// and the new suffix is again the hash of the new suffix data
			if d2, e2 := oracle.DecodeEncodedMultihash(op3.UniqueSuffix); e2 != nil || op3.UniqueSuffix != oracle.MustModelHash(d2.Code, q["suffixData"]) {
				c.Failf("modified-suffix-not-hash", map[string]interface{}{"modified": string(raw), "suffix": op3.UniqueSuffix}, "suffix of the modified create is not the hash of its suffix data")
			}
		} else {
			c.Count("modification-refused", 1)
		}
		c.Sig("mod", m.name, verdict)
	}
	// observation (not demanded): members unknown to the model are ignored when hashing
	q := oracle.DeepCopy(oracle.MustGeneric(b.ReqObj)).(map[string]interface{})
	sd(q)["unknownMember"] = 1
	if op4, err := st.Parser.Parse(ns, oracle.MustJCS(q)); err == nil && op4.UniqueSuffix == op.UniqueSuffix {
		c.Observe("unknown suffix-data member ignored (same DID); the suffix data model has four members")
	}
}
