package checks

import (
	"fmt"

	"github.com/trustbloc/sidetree-go/pkg/versions/1_0/operationparser/patchvalidator"

	"verifharness/fw"
	"verifharness/gen"
	"verifharness/oracle"
	"verifharness/sut"
)

// startDoc draws a well-formed starting document: either reached from {} by
// validated patches (through the model) or generated with well-formed lists
// and free members.
func startDoc(r *fw.Rand, deep bool) (map[string]interface{}, string) {
	switch r.Intn(4) {
	case 0:
		return map[string]interface{}{}, "empty"
	case 1:
		doc := map[string]interface{}{}
		n := r.Range(1, 4)
		for i := 0; i < n; i++ {
			nx, err := oracle.ApplyPatchModel(doc, gen.RandSimplePatch(r), oracle.Quirks{})
			if err == nil {
				doc = nx
			}
		}
		return doc, "reached"
	}
	doc := map[string]interface{}{}
	if r.Chance(4, 5) {
		doc["publicKey"] = gen.RandKeys(r, r.Range(1, 4))
	}
	if r.Chance(3, 5) {
		doc["service"] = gen.RandServices(r, r.Range(1, 3))
	}
	if r.Chance(2, 5) {
		var l []interface{}
		for _, u := range gen.PickURIs(r, r.Range(1, 3)) {
			l = append(l, u)
		}
		doc["alsoKnownAs"] = l
	}
	nfree := r.Intn(4)
	for i := 0; i < nfree; i++ {
		name := fw.Pick(r, gen.MemberNames)
		if name == "publicKeys2" {
			name = "pk2"
		}
		d := 2
		if deep {
			d = 4
		}
		doc[name] = gen.RandJSONValue(r, d)
	}
	if r.Chance(1, 4) {
		// further members that look like key / service lists under the names external DID documents use: they are ordinary members
		// of the internal document and never stand in for publicKey / service
		for _, name := range genPick(r, []string{"verificationMethod", "authentication", "publicKeys", "services", "keyAgreement", "serviceEndpoints"}, r.Range(1, 2)) {
			if r.Bool() {
				doc[name] = gen.RandKeys(r, r.Range(1, 2))
			} else {
				doc[name] = gen.RandServices(r, r.Range(1, 2))
			}
		}
		if r.Bool() {
			delete(doc, "publicKey")
		}
		if r.Bool() {
			delete(doc, "service")
		}
	}
	if deep {
		doc["nested"] = map[string]interface{}{"l1": map[string]interface{}{"l2": []interface{}{map[string]interface{}{"l3": "v"}, 1, []interface{}{2, 3}}}}
	}
	return doc, "generated"
}

func genPick(r *fw.Rand, pool []string, n int) []string {
	perm := r.Perm(len(pool))
	var out []string
	for i := 0; i < n && i < len(pool); i++ {
		out = append(out, pool[perm[i]])
	}
	return out
}

// ietfDocView hides the members owned by dedicated actions from the ietf generator.
func ietfDocView(doc map[string]interface{}) map[string]interface{} {
	out := map[string]interface{}{}
	for k, v := range doc {
		if k == "publicKey" || k == "service" || k == "alsoKnownAs" {
			continue
		}
		out[k] = v
	}
	return out
}

type patchList struct {
	Patches   []interface{}
	Actions   string
	AliasRisk bool
	Discarded int
}

// genPatchList draws 1..maxLen validated patches over all eight actions; ietf
// patches are valid under RFC 6902 on the model's current document.
func genPatchList(r *fw.Rand, doc map[string]interface{}, maxLen int, aliasRisk bool) *patchList {
	pl := &patchList{}
	cur := oracle.DeepCopy(doc).(map[string]interface{})
	n := r.Range(1, maxLen)
	for tries := 0; len(pl.Patches) < n && tries < 60; tries++ {
		var p map[string]interface{}
		if len(pl.Patches) > 0 && r.Chance(1, 8) {
			// the same patch twice in a row: every patch of a list counts (an ietf add /x/- appends twice)
			p = oracle.DeepCopy(pl.Patches[len(pl.Patches)-1]).(map[string]interface{})
		} else if r.Chance(1, 3) {
			ops, copied := gen.RandValidJSONPatch(r, ietfDocView(cur), 3, aliasRisk)
			if copied && aliasRisk {
				pl.AliasRisk = true
			}
			p = gen.PJSON(ops...)
		} else {
			p = gen.RandSimplePatch(r)
		}
		lp, err := sut.ToPatch(p)
		if err != nil || patchvalidator.Validate(lp) != nil {
			pl.Discarded++
			continue
		}
		nx, err := oracle.ApplyPatchModel(cur, p, oracle.Quirks{})
		if err != nil {
			pl.Discarded++
			continue
		}
		cur = nx
		pl.Patches = append(pl.Patches, p)
		pl.Actions += fmt.Sprint(p["action"])[:5] + ","
	}
	return pl
}
