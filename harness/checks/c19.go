package checks

import (
	"encoding/json"
	"fmt"
	"runtime/debug"
	"strings"

	"github.com/trustbloc/sidetree-go/pkg/api/operation"
	"github.com/trustbloc/sidetree-go/pkg/api/protocol"
	"github.com/trustbloc/sidetree-go/pkg/canonicalizer"
	"github.com/trustbloc/sidetree-go/pkg/commitment"
	"github.com/trustbloc/sidetree-go/pkg/document"
	"github.com/trustbloc/sidetree-go/pkg/hashing"
	"github.com/trustbloc/sidetree-go/pkg/jws"
	"github.com/trustbloc/sidetree-go/pkg/jwsutil"
	"github.com/trustbloc/sidetree-go/pkg/patch"
	"github.com/trustbloc/sidetree-go/pkg/vdr/sidetreelongform"
	"github.com/trustbloc/sidetree-go/pkg/vdr/sidetreelongform/dochandler"
	protocolcfg "github.com/trustbloc/sidetree-go/pkg/vdr/sidetreelongform/dochandler/protocolversion/versions/v1_0/config"
	"github.com/trustbloc/sidetree-go/pkg/versions/1_0/doctransformer/didtransformer"
	"github.com/trustbloc/sidetree-go/pkg/versions/1_0/doctransformer/doctransformer"
	"github.com/trustbloc/sidetree-go/pkg/versions/1_0/docvalidator/didvalidator"
	"github.com/trustbloc/sidetree-go/pkg/versions/1_0/docvalidator/docvalidator"
	"github.com/trustbloc/sidetree-go/pkg/versions/1_0/operationparser/patchvalidator"

	"verifharness/fw"
	"verifharness/gen"
	"verifharness/oracle"
	"verifharness/sut"
)

func init() {
	fw.Register(&fw.Check{
		ID:          "C19",
		Rule:        "cases: hostile inputs to every listed entry point, each call journaled (entry point + raw input) before it is made and run in a worker subprocess under ulimit -v with a per-case watchdog; oracle: any recovered panic, any worker death (fatal error: stack overflow / out of memory / concurrent map / checkptr, signal) or a watchdog expiry is a violation, every returned value or error is 'held'. Inputs: (a) structure-aware corruption of valid operations (4 types, re-signed so that corrupted deltas pass signature checks), DIDs, JWS, JWKs, patches (8 actions) and documents - at every JSON position each of 13 hostile replacement values, member deletion / duplication; (b) RFC 6902 hostility (negative / huge / leading-zero / non-numeric indices for every kind, test without value, null containers, from = path, path inside from, root pointers); (c) valid operations of an unexpected type for each entry point; (d) arbitrary byte strings and truncations of valid inputs at every offset; (e) separator floods, deep nesting, non-UTF-8; (f) JSON lexer sweep: every byte value 0..255 after a backslash, raw inside a string, inside \\u escapes and surrogate pairs, inside numbers and literals, in member-name / value / array / top-level position, terminated and unterminated. Two protocol configurations (shipped v1.0 and a permissive 64 KiB one). distinct = (entry point, input class, outcome kind).",
		Assumptions: []string{"inputs capped at 64 KiB; the canonicalizer's cost is quadratic in nesting depth (64 Ki levels ~ 5 s), so a 120 s watchdog per small case is two orders of magnitude above the measured worst case", "allocation bombs below the 8 GiB address-space limit are observations, not violations"},
		Require: []string{"entry:Parser.Parse", "entry:Parser.ParseOperation(batch)", "entry:Parser.GetRevealValue", "entry:Parser.GetCommitment", "entry:Parser.ParseDID",
			"entry:DocumentHandler.ResolveDocument", "entry:DocumentHandler.ProcessOperation", "entry:VDR.Read", "entry:jwsutil.ParseJWS", "entry:jwsutil.VerifyJWS", "entry:jwsutil.VerifySignature",
			"entry:jwsutil.JWK.UnmarshalJSON", "entry:jwsutil.GetED25519PublicKey", "entry:canonicalizer.MarshalCanonical(bytes)", "entry:canonicalizer.MarshalCanonical(value)",
			"entry:hashing", "entry:commitment.GetCommitmentFromRevealValue", "entry:patch.FromBytes", "entry:patch.PatchesFromDocument", "entry:patch.constructors",
			"entry:patchvalidator.Validate", "entry:DocumentComposer.ApplyPatches", "entry:Applier.Apply", "entry:didtransformer.TransformDocument", "entry:doctransformer.TransformDocument",
			"entry:docvalidator", "entry:didvalidator"},
		Workers:            func(string) int { return 14 },
		CaseTimeout:        120,
		TimeoutIsViolation: true,
		Race:               func(tier string) bool { return tier == "thorough" },
		Run:                runC19,
	})
}

// c19 shared fixtures (built once per worker)
type c19Env struct {
	strict, loose *sut.Stack
	handler       *dochandler.DocumentHandler
	vdr           *sidetreelongform.VDR
	didTr         *didtransformer.Transformer
	docTr         *doctransformer.Transformer
	jwks          []*jws.JWK
	state         *protocol.ResolutionModel // an existing state to apply onto
}

func newC19Env(r *fw.Rand) *c19Env {
	e := &c19Env{}
	e.strict = sut.NewStack(protocolcfg.GetProtocolConfig())
	lp := sut.Proto()
	lp.MaxOperationSize = 1 << 16
	lp.MaxDeltaSize = 1 << 16
	lp.SignatureAlgorithms = append(lp.SignatureAlgorithms, "ES512")
	lp.KeyAlgorithms = append(lp.KeyAlgorithms, "P-521")
	e.loose = sut.NewStack(lp)
	e.handler, _ = dochandler.New("did:ion")
	e.vdr, _ = sidetreelongform.New()
	e.didTr = didtransformer.New(didtransformer.WithBase(true), didtransformer.WithIncludePublishedOperations(true), didtransformer.WithIncludeUnpublishedOperations(true))
	e.docTr = doctransformer.New()
	for _, t := range gen.AllKeyTypes {
		e.jwks = append(e.jwks, toLibJWK(gen.NewKey(r, t).JWK()))
	}
	doc, _ := sut.ToDoc(map[string]interface{}{"publicKey": gen.RandKeys(r, 2), "service": gen.RandServices(r, 1), "foo": map[string]interface{}{"a": []interface{}{1, 2}}, "arr": []interface{}{1, 2, 3}})
	e.state = &protocol.ResolutionModel{Doc: doc, UpdateCommitment: "x", RecoveryCommitment: "y"}
	return e
}

// call runs f under a private recover, after journaling the input.
func c19Call(c *fw.Case, entry, class string, input []byte, f func()) {
	c.Count("entry:"+entry, 1)
	c.Evals(1)
	if len(input) > 1<<16+4096 {
		input = input[:1<<16]
	}
	c.Journal(append([]byte(entry+"\n"), input...))
	defer func() {
		if rec := recover(); rec != nil {
			st := string(debug.Stack())
			site := panicSiteOf(st)
			c.Violation("panic@"+site+"<-"+entry, fmt.Sprintf("panic in %s: %v", entry, rec),
				map[string]interface{}{"entry_point": entry, "input_class": class, "input": string(input), "panic": fmt.Sprint(rec), "stack": firstLines(st, 40)})
			c.Sig(entry, class, "panic")
		}
	}()
	f()
}

func panicSiteOf(stack string) string {
	lines := strings.Split(stack, "\n")
	seen := false
	for _, l := range lines {
		l = strings.TrimSpace(l)
		if strings.HasPrefix(l, "panic(") {
			seen = true
			continue
		}
		if !seen || l == "" || strings.HasPrefix(l, "/") || strings.HasPrefix(l, "runtime.") || strings.HasPrefix(l, "runtime/") {
			continue
		}
		if i := strings.LastIndex(l, "("); i > 0 {
			l = l[:i]
		}
		if j := strings.LastIndex(l, "/"); j >= 0 {
			l = l[j+1:]
		}
		return l
	}
	return "unknown"
}

func firstLines(s string, n int) string {
	l := strings.Split(s, "\n")
	if len(l) > n {
		l = l[:n]
	}
	return strings.Join(l, "\n")
}

// feedBytes hands one byte string to every byte/string-level entry point.
func (e *c19Env) feedBytes(c *fw.Case, class string, b []byte) {
	s := string(b)
	for _, st := range []*sut.Stack{e.strict, e.loose} {
		st := st
		c19Call(c, "Parser.Parse", class, b, func() { st.Parser.Parse("did:ion", b) })
		c19Call(c, "Parser.ParseOperation(batch)", class, b, func() { st.Parser.ParseOperation("did:ion", b, true) })
		c19Call(c, "Parser.GetRevealValue", class, b, func() { st.Parser.GetRevealValue(b) })
		c19Call(c, "Parser.GetCommitment", class, b, func() { st.Parser.GetCommitment(b) })
	}
	c19Call(c, "Parser.ParseDID", class, b, func() { e.loose.Parser.ParseDID("did:ion", s) })
	c19Call(c, "DocumentHandler.ResolveDocument", class, b, func() { e.handler.ResolveDocument(s) })
	c19Call(c, "DocumentHandler.ProcessOperation", class, b, func() { e.handler.ProcessOperation(b) })
	c19Call(c, "VDR.Read", class, b, func() { e.vdr.Read(s) })
	c19Call(c, "jwsutil.ParseJWS", class, b, func() { jwsutil.ParseJWS(s) })
	c19Call(c, "jwsutil.VerifyJWS", class, b, func() {
		for _, k := range e.jwks {
			jwsutil.VerifyJWS(s, k)
		}
	})
	c19Call(c, "jwsutil.JWK.UnmarshalJSON", class, b, func() { var k jwsutil.JWK; k.UnmarshalJSON(b) })
	c19Call(c, "jwsutil.VerifySignature", class, b, func() {
		var k jws.JWK
		if json.Unmarshal(b, &k) == nil {
			jwsutil.VerifySignature(&k, []byte("0123456789abcdef0123456789abcdef0123456789abcdef0123456789abcdef"), []byte("msg"))
			jwsutil.VerifySignature(&k, b, []byte("msg"))
		}
		for _, jk := range e.jwks {
			jwsutil.VerifySignature(jk, b, []byte("msg"))
		}
	})
	c19Call(c, "jwsutil.GetED25519PublicKey", class, b, func() {
		var k jws.JWK
		if json.Unmarshal(b, &k) == nil {
			jwsutil.GetED25519PublicKey(&k)
		}
	})
	c19Call(c, "canonicalizer.MarshalCanonical(bytes)", class, b, func() { canonicalizer.MarshalCanonical(b) })
	c19Call(c, "canonicalizer.MarshalCanonical(value)", class, b, func() {
		var v interface{}
		if json.Unmarshal(b, &v) == nil {
			canonicalizer.MarshalCanonical(v)
		}
	})
	c19Call(c, "hashing", class, b, func() {
		hashing.GetMultihashCode(s)
		hashing.IsSupportedMultihash(s)
		hashing.IsComputedUsingMultihashAlgorithms(s, []uint{18, 19})
		hashing.IsValidModelMultihash(map[string]interface{}{"a": 1}, s)
		hashing.IsValidModelMultihash(b, "EiAkB6db-IDGnlSQuMkXYd3NJO7HGcPcyHRVmq5DDwfLSw")
		hashing.CalculateModelMultihash(b, 18)
		hashing.GetMultihash(s)
	})
	c19Call(c, "commitment.GetCommitmentFromRevealValue", class, b, func() { commitment.GetCommitmentFromRevealValue(s) })
	c19Call(c, "patch.FromBytes", class, b, func() { patch.FromBytes(b) })
	c19Call(c, "patch.PatchesFromDocument", class, b, func() { patch.PatchesFromDocument(s) })
	c19Call(c, "patch.constructors", class, b, func() {
		patch.NewAddPublicKeysPatch(s)
		patch.NewRemovePublicKeysPatch(s)
		patch.NewAddServiceEndpointsPatch(s)
		patch.NewRemoveServiceEndpointsPatch(s)
		patch.NewAddAlsoKnownAs(s)
		patch.NewRemoveAlsoKnownAs(s)
		patch.NewReplacePatch(s)
		patch.NewJSONPatch(s)
	})
	c19Call(c, "docvalidator", class, b, func() { v := docvalidator.New(); v.IsValidOriginalDocument(b); v.IsValidPayload(b) })
	c19Call(c, "didvalidator", class, b, func() { v := didvalidator.New(); v.IsValidOriginalDocument(b); v.IsValidPayload(b) })
	for _, typ := range []operation.Type{operation.TypeCreate, operation.TypeUpdate, operation.TypeRecover, operation.TypeDeactivate, "bogus"} {
		typ := typ
		c19Call(c, "Applier.Apply", class, b, func() {
			e.loose.Applier.Apply(&operation.AnchoredOperation{Type: typ, OperationRequest: b, TransactionTime: 5}, &protocol.ResolutionModel{})
			e.loose.Applier.Apply(&operation.AnchoredOperation{Type: typ, OperationRequest: b, TransactionTime: 5}, e.state)
		})
	}
}

// feedPatch hands a JSON value as a patch / document to the value-level entry points.
func (e *c19Env) feedPatch(c *fw.Case, class string, b []byte) {
	var p patch.Patch
	if json.Unmarshal(b, &p) != nil {
		return
	}
	validated := false
	c19Call(c, "patchvalidator.Validate", class, b, func() { validated = patchvalidator.Validate(p) == nil })
	for _, base := range []document.Document{{}, e.state.Doc} {
		base := base
		var out document.Document
		c19Call(c, "DocumentComposer.ApplyPatches", class, b, func() { out, _ = e.loose.Composer.ApplyPatches(base, []patch.Patch{p}) })
		if out != nil {
			e.feedDocument(c, class+"/assembled", out, b)
		}
	}
	if validated {
		c.Count("validated-hostile-patches", 1)
	}
}

func (e *c19Env) feedDocument(c *fw.Case, class string, doc document.Document, src []byte) {
	info := protocol.TransformationInfo{"id": "did:ion:EiSuffix", "published": true, "canonicalId": "did:ion:EiSuffix"}
	mk := func() *protocol.ResolutionModel {
		cp := deepCopy(doc).(document.Document)
		return &protocol.ResolutionModel{Doc: cp, UpdateCommitment: "u", RecoveryCommitment: "r", VersionID: "v",
			PublishedOperations:   []*operation.AnchoredOperation{{Type: "update", OperationRequest: []byte("x"), TransactionTime: 2}, {Type: "create", OperationRequest: []byte("y"), TransactionTime: 1}},
			UnpublishedOperations: []*operation.AnchoredOperation{{Type: "update", OperationRequest: []byte("z")}}}
	}
	c19Call(c, "didtransformer.TransformDocument", class, src, func() { e.didTr.TransformDocument(mk(), info) })
	c19Call(c, "doctransformer.TransformDocument", class, src, func() { e.docTr.TransformDocument(mk(), info) })
}

var hostileValues = func() []interface{} {
	deep := interface{}(1)
	for i := 0; i < 2000; i++ {
		deep = []interface{}{deep}
	}
	return []interface{}{nil, true, 0, -1, 1e308, "", "x", []interface{}{}, map[string]interface{}{}, []interface{}{[]interface{}{}}, map[string]interface{}{"a": map[string]interface{}{}},
		strings.Repeat("A", 1<<16), deep,
		// member names related by prefix / empty / non-ASCII, and extreme numbers: valid JSON the canonicalizer must digest
		map[string]interface{}{"": 0, "a": 1, "ab": 2, "abc": 3, "id": "x", "idx": "y", "\u00e9": 4, "\U0001F600": 5, "n": 1e21, "m": 5e-324, "k": -0.0},
		// long texts of multi-byte characters (more bytes than characters): whatever quotes them in a message or cuts them to size
		strings.Repeat("\u20ac", 100), strings.Repeat("\u00e9", 300), strings.Repeat("\U0001F600", 70) + "x", "a" + strings.Repeat("\u20ac", 255)}
}()

// corruptions enumerates variants of v with each position replaced by each hostile value (or removed), each object extended by
// optional members, and each string bent slightly. The three families have budgets of their own (one family never starves another)
// and positions are visited in a case-determined random order (no position is starved by the ones before it).
func corruptions(v interface{}, limit int, r *fw.Rand) [][]byte {
	g := oracle.MustGeneric(v)
	var out, added, strs [][]byte
	all := gen.AllPaths(g)
	paths := make([]gen.Path, len(all))
	for i, j := range r.Perm(len(all)) {
		paths[i] = all[j]
	}
	// the whole artefact replaced by each plain hostile value (null, a scalar, an empty container)
	for _, hv := range hostileValues[:11] {
		if b, err := json.Marshal(hv); err == nil {
			out = append(out, b)
		}
	}
	limit += 11
	small := len(paths) <= 12
	addedLimit, strLimit := limit/2, limit
	if small {
		addedLimit, strLimit = 600, 600
	}
	for _, p := range paths {
		for hi, hv := range hostileValues {
			if len(out) >= limit {
				break
			}
			if len(paths)*len(hostileValues) > limit && r.Intn(len(paths)*len(hostileValues)) > limit {
				continue
			}
			c := gen.ReplaceAt(g, p, hv)
			if c == nil {
				continue
			}
			b, err := json.Marshal(c)
			if err != nil || ((hi == 11 || hi == 12) && len(b) > 1<<17) {
				continue
			}
			out = append(out, b)
		}
		if c := gen.RemoveAt(g, p); c != nil && len(out) < limit+len(paths) {
			if b, err := json.Marshal(c); err == nil {
				out = append(out, b)
			}
		}
		// optional members that valid samples never carry, added to every object with empty / odd values
		if mv, ok := gen.ValueAt(g, p).(map[string]interface{}); ok && len(added) < addedLimit {
			for _, name := range []string{"crit", "b64", "typ", "cty", "zip", "nonce", "anchorFrom", "anchorUntil", "revealValue", "anchorOrigin", "type", "purposes", "priority", "d", "kid", "alg", "use", "x5c", "jwk", "patches", "ids", "uris", "document", "", "\u00e9"} {
				if _, exists := mv[name]; exists {
					continue
				}
				vals := []interface{}{[]interface{}{}, map[string]interface{}{}, nil, "", 0, []interface{}{[]interface{}{}}, []interface{}{nil}, true, "x", -1}
				if len(mv) > 4 || !small {
					// large artefacts: one value per name; small ones (JWS headers, JWKs): every value
					if r.Intn(3) != 0 {
						continue
					}
					vals = []interface{}{fw.Pick(r, vals)}
				}
				for _, val := range vals {
					nm := map[string]interface{}{}
					for k, v := range mv {
						nm[k] = v
					}
					nm[name] = val
					if c := gen.ReplaceAt(g, p, nm); c != nil {
						if b, err := json.Marshal(c); err == nil {
							added = append(added, b)
						}
					}
				}
			}
		}
		// strings keep their length or nearly so: one character replaced by a line break / blank / padding sign (Go's base64 decoders
		// skip \r and \n, so such a text decodes to fewer bytes than its length promises), one inserted, a multi-byte character
		if sv, ok := gen.ValueAt(g, p).(string); ok && len(sv) > 0 && len(sv) < 1<<12 && len(strs) < strLimit {
			i := r.Intn(len(sv))
			for _, nv := range []string{sv[:i] + "\n" + sv[i+1:], sv[:i] + "\r" + sv[i+1:], sv[:i] + "\n" + sv[i:], sv[:i] + "=" + sv[i+1:], sv[:i] + " " + sv[i+1:],
				sv + "=", sv + "\n", "\n" + sv[1:], sv[:len(sv)-1] + "\n", sv[:i] + "\u00e9" + sv[i+1:], sv[:i] + "\x00" + sv[i+1:], sv[:i] + "+/" + sv[min(i+2, len(sv)):],
				// the same text in another letter case (names compared exactly in one place and case-insensitively in another)
				strings.ToUpper(sv), strings.ToLower(sv), strings.ToUpper(sv[:1]) + strings.ToLower(sv[1:]), strings.ReplaceAll(strings.ReplaceAll(sv, "k", "\u212a"), "K", "\u212a")} {
				if c := gen.ReplaceAt(g, p, nv); c != nil {
					if b, err := json.Marshal(c); err == nil {
						strs = append(strs, b)
					}
				}
			}
		}
	}
	return append(append(out, added...), strs...)
}

func runC19(r *fw.Runner) {
	var env *c19Env
	get := func(c *fw.Case) *c19Env {
		if env == nil {
			env = newC19Env(fw.NewRand(uint64(r.Seed) + 77))
		}
		return env
	}
	// ---- directed: RFC 6902 hostility (incl. the two process-fatal known findings), one input per case
	for i, d := range c19JSONPatchHostility() {
		d := d
		_ = i
		r.Case("rfc6902-hostility", func(c *fw.Case) {
			e := get(c)
			b := gen.ToJSON(gen.PJSON(d.ops...))
			c.Sig("rfc6902", d.name)
			e.feedPatch(c, "rfc6902:"+d.name, b)
			// and through a signed, hash-bound update so that the applier reaches the composer
			e.feedSignedDelta(c, "rfc6902-in-update:"+d.name, []interface{}{gen.PJSON(d.ops...)})
			c.Sample(map[string]interface{}{"class": d.name, "patch": string(b)})
		})
	}
	// ---- (c) valid operations of an unexpected type
	r.Case("unexpected-type", func(c *fw.Case) {
		e := get(c)
		h := &histCtx{r: c.Rng, proto: e.strict.P, code: 18, keyType: gen.Ed25519, hasIETF: false}
		small := []interface{}{gen.PAddKeys(gen.DocKey(c.Rng, "k1", gen.TJwk2020, []string{"authentication"}, "jwk"))}
		for _, typ := range []byte("curd") {
			h.ch = nil
			cs := planStep(h, 'c', "valid", 10, nil, func(h *histCtx, s *opStep) { s.Spec.Patches = small })
			s := cs
			if typ != 'c' {
				s = planStep(h, typ, "valid", 20, nil, func(h *histCtx, s *opStep) {
					if typ != 'd' {
						s.Spec.Patches = small
					}
				})
			}
			c.Sig("unexpected-type", typ)
			e.feedBytes(c, "valid-"+typeName(typ), s.Built.Request)
			// long-form DID built from a non-create request
			did := "did:ion:" + s.Built.Suffix + ":" + oracle.B64(s.Built.Request)
			e.feedBytes(c, "did-with-"+typeName(typ)+"-as-initial-state", []byte(did))
		}
	})
	// ---- well-formed, hash-bound operations of every labelled failure class (e.g. a create whose patches are valid but cannot be
	// applied, so that no document results), as request and as the initial state of a long-form DID: through every entry point
	for _, typ := range []byte("curd") {
		typ := typ
		for _, fc := range append([]failClass{{name: "valid"}, {name: "valid"}, {name: "valid"}}, classesFor(typ)...) {
			fc := fc
			r.Case("failure-class-"+typeName(typ), func(c *fw.Case) {
				e := get(c)
				for _, st := range []*sut.Stack{e.loose, e.strict} {
					h := &histCtx{r: c.Rng, proto: st.P, code: 18, keyType: gen.Ed25519, hasIETF: true}
					cs := planStep(h, 'c', "valid", 10, nil, nil)
					s := cs
					if typ == 'c' {
						h.ch = nil
						s = planStep(h, 'c', fc.name, 10, nil, nil)
					} else {
						s = planStep(h, typ, fc.name, 20, nil, nil)
					}
					if len(s.Built.Request) > 1<<16 {
						continue
					}
					c.Sig("failure-class", typ, fc.name)
					c.Count("failure-class-operations", 1)
					e.feedBytes(c, "class:"+fc.name, s.Built.Request)
					did := "did:ion:" + s.Built.Suffix + ":" + oracle.B64(s.Built.Request)
					e.feedBytes(c, "did-with-class:"+fc.name, []byte(did))
					c19Call(c, "Applier.Apply", "class:"+fc.name, s.Built.Request, func() { st.Applier.Apply(anchoredOf(s, s.Built.Suffix), e.state) })
					c19Call(c, "Applier.Apply", "class:"+fc.name, s.Built.Request, func() { st.Applier.Apply(anchoredOf(s, s.Built.Suffix), &protocol.ResolutionModel{}) })
					// previous states whose anchor origin is an object / a list / a number (any JSON value is a legal anchor origin)
					for _, ao := range []interface{}{map[string]interface{}{"domain": "origin.example", "n": 1}, []interface{}{"a", map[string]interface{}{"b": 1}}, 7.0, ""} {
						prev := &protocol.ResolutionModel{Doc: e.state.Doc, UpdateCommitment: "x", RecoveryCommitment: "y", AnchorOrigin: ao}
						c19Call(c, "Applier.Apply", "class:"+fc.name+"/state-with-structured-anchor-origin", s.Built.Request, func() { st.Applier.Apply(anchoredOf(s, s.Built.Suffix), prev) })
					}
				}
			})
		}
	}
	// ---- (a) structure-aware corruption
	kinds := []string{"create", "update", "recover", "deactivate", "signed-payload", "jws-header", "jwk", "patch", "document", "did-initial-state", "delta-resigned"}
	for _, kind := range kinds {
		kind := kind
		n := r.N(6, 120)
		for b := 0; b < n; b++ {
			r.Case("corrupt-"+kind, func(c *fw.Case) { c19Corrupt(c, get(c), kind, r.N(60, 120)) })
		}
	}
	// ---- valid but unusual JSON (random member names incl. prefix-related / empty / all Unicode planes, every number class)
	for b := 0; b < r.N(10, 300); b++ {
		r.Case("unusual-valid-json", func(c *fw.Case) {
			e := get(c)
			for i := 0; i < 10; i++ {
				obj := gen.RandObject(c.Rng, 3)
				obj["k"], obj["kk"], obj["kkk"] = 1, 2, 3
				raw := gen.Spell(c.Rng, obj, gen.AllSpell)
				c.Sig("unusual", len(obj)%5)
				c19Call(c, "canonicalizer.MarshalCanonical(bytes)", "unusual-json", raw, func() { canonicalizer.MarshalCanonical(raw) })
				c19Call(c, "canonicalizer.MarshalCanonical(value)", "unusual-json", raw, func() { canonicalizer.MarshalCanonical(obj) })
				c19Call(c, "hashing", "unusual-json", raw, func() { hashing.CalculateModelMultihash(obj, 18); hashing.CalculateModelMultihash(raw, 19) })
				c19Call(c, "patch.PatchesFromDocument", "unusual-json", raw, func() { patch.PatchesFromDocument(string(raw)) })
				c19Call(c, "docvalidator", "unusual-json", raw, func() { docvalidator.New().IsValidOriginalDocument(raw) })
				// inside operations: as anchor origin (suffix data / signed data) and as ietf value, correctly hashed and signed
				h := &histCtx{r: c.Rng, proto: e.loose.P, code: 18, keyType: gen.Ed25519, hasIETF: true}
				ps := []interface{}{gen.PJSON(op("add", "/unusual", "value", obj))}
				cs := planStep(h, 'c', "valid", 10, nil, func(h *histCtx, s *opStep) { s.Spec.Patches = ps; s.Spec.AnchorOrigin = obj })
				cb := cs.Built.Request
				if len(cb) < 1<<16 {
					c19Call(c, "Parser.Parse", "unusual-json/create", cb, func() { e.loose.Parser.Parse("did:ion", cb) })
					c19Call(c, "Applier.Apply", "unusual-json/create", cb, func() { e.loose.Applier.Apply(anchoredOf(cs, cs.Built.Suffix), &protocol.ResolutionModel{}) })
					did := "did:ion:" + cs.Built.Suffix + ":" + oracle.B64(cb)
					c19Call(c, "Parser.ParseDID", "unusual-json/long-form", []byte(did), func() { e.loose.Parser.ParseDID("did:ion", did) })
					rs := planStep(h, 'r', "valid", 20, nil, func(h *histCtx, s *opStep) { s.Spec.Patches = ps; s.Spec.AnchorOrigin = obj })
					rb := rs.Built.Request
					c19Call(c, "Parser.Parse", "unusual-json/recover", rb, func() { e.loose.Parser.Parse("did:ion", rb) })
					c19Call(c, "Applier.Apply", "unusual-json/recover", rb, func() { e.loose.Applier.Apply(anchoredOf(rs, h.ch.Suffix), e.state) })
				}
				e.feedPatch(c, "unusual-json", gen.ToJSON(gen.PJSON(op("add", "/unusual", "value", obj))))
			}
		})
	}
	// ---- (d) arbitrary bytes and truncations
	for b := 0; b < r.N(20, 600); b++ {
		r.Case("random-bytes", func(c *fw.Case) {
			e := get(c)
			for i := 0; i < 12; i++ {
				n := fw.Pick(c.Rng, []int{0, 1, 2, 7, 64, 300, 2000})
				bs := c.Rng.Bytes(n)
				if c.Rng.Bool() {
					for j := range bs {
						bs[j] = "{}[]\":,.0123456789abcdefghijklmnopqrstuvwxyz-_\\/ntu "[int(bs[j])%50]
					}
				}
				c.Sig("random", n)
				e.feedBytes(c, "random-bytes", bs)
				e.feedPatch(c, "random-bytes", bs)
			}
		})
	}
	// every byte value after a backslash, raw inside a string, after \u and inside a number, in member-name and value position:
	// the JSON lexers of the canonicalizer and of everything that takes raw JSON
	for _, pos := range []string{"value", "name", "array", "top"} {
		pos := pos
		r.Case("json-lexer-sweep", func(c *fw.Case) {
			e := get(c)
			wrap := func(str []byte) []byte {
				q := append(append([]byte{'"'}, str...), '"')
				switch pos {
				case "value":
					return append(append([]byte(`{"a":`), q...), '}')
				case "name":
					return append(append([]byte(`{`), q...), []byte(`:1}`)...)
				case "array":
					return append(append([]byte(`[1,`), q...), ']')
				}
				return q
			}
			var inputs [][]byte
			for b := 0; b < 256; b++ {
				inputs = append(inputs, wrap([]byte{'x', '\\', byte(b), 'y'}), wrap([]byte{'\\', byte(b)}), wrap([]byte{'x', byte(b), 'y'}), wrap([]byte{byte(b)}),
					wrap([]byte{'\\', 'u', byte(b), '0', '4', '1'}), wrap([]byte{'\\', 'u', '0', '0', '4', byte(b)}), wrap([]byte{'\\', 'u', 'd', '8', '0', '0', '\\', byte(b)}),
					wrap([]byte{'\\', 'u', 'd', '8', '0', '0', '\\', 'u', 'd', byte(b), '0', '0'}))
				// unterminated variants and number position
				inputs = append(inputs, []byte{'{', '"', 'a', '"', ':', '"', '\\', byte(b)}, []byte{'[', '1', byte(b), '2', ']'}, []byte{'[', '-', byte(b), ']'}, []byte{'[', '1', 'e', byte(b), '1', ']'},
					[]byte{'[', '1', '.', byte(b), ']'}, []byte{'[', 't', 'r', 'u', byte(b), ']'})
			}
			c.Sig("lexer-sweep", pos)
			c.Count("json-lexer-sweep-inputs", len(inputs))
			for _, in := range inputs {
				in := in
				c19Call(c, "canonicalizer.MarshalCanonical(bytes)", "json-lexer-sweep", in, func() { canonicalizer.MarshalCanonical(in) })
				c19Call(c, "hashing", "json-lexer-sweep", in, func() {
					hashing.CalculateModelMultihash(in, 18)
					hashing.IsValidModelMultihash(in, "EiAAAAAAAAAAAAAAAAAAAAAAAAAAAAAAAAAAAAAAAAAAAA")
				})
				c19Call(c, "patch.FromBytes", "json-lexer-sweep", in, func() { patch.FromBytes(in) })
				c19Call(c, "jwsutil.JWK.UnmarshalJSON", "json-lexer-sweep", in, func() { var k jwsutil.JWK; k.UnmarshalJSON(in) })
			}
			if pos == "value" {
				for _, in := range inputs[:512] {
					e.feedBytes(c, "json-lexer-sweep", in)
				}
			}
		})
	}
	for _, kind := range []string{"create", "update", "recover", "deactivate", "did", "jws", "jwk", "patch"} {
		kind := kind
		for part := 0; part < r.N(2, 12); part++ {
			part := part
			r.Case("truncations-"+kind, func(c *fw.Case) { c19Truncations(c, get(c), kind, part, r.N(2, 12)) })
		}
	}
	// ---- (e) hostile strings
	r.Case("separator-floods", func(c *fw.Case) {
		e := get(c)
		for _, s := range []string{":", "::", ":::", strings.Repeat(":", 5000), ".", "..", "...", strings.Repeat(".", 5000), "did:ion:", "did:ion::", "did:ion:" + strings.Repeat("A:", 2000),
			strings.Repeat("did:ion:", 500), "#", "did:ion:#:", "\xff\xfe\xfd", "did:ion:\xc3\x28:\xa0\xa1", strings.Repeat("=", 100), strings.Repeat("A", 1<<16), "did:ion:" + strings.Repeat("A", 1<<16),
			"{\"type\":\"create\"}", "{\"type\":\"update\"}", "{\"type\":\"recover\"}", "{\"type\":\"deactivate\"}", "{\"type\":\"create\",\"suffixData\":{}}", "{\"type\":\"create\",\"suffixData\":null,\"delta\":null}",
			"{\"type\":\"update\",\"signedData\":\"..\",\"didSuffix\":\"a\",\"revealValue\":\"EiA\"}", "a.b.c", "e30.e30.e30", "e30..", "bnVsbA.bnVsbA.bnVsbA", "W10.W10.W10", "IiI.IiI.IiI"} {
			c.Sig("flood", len(s), s[:min(len(s), 6)])
			e.feedBytes(c, "hostile-string", []byte(s))
		}
		c.Sample(map[string]interface{}{"example": "did:ion:" + strings.Repeat("A:", 5) + "…"})
	})
	for _, depth := range []int{100, 1000, 5000, 20000, 32000} {
		depth := depth
		for _, open := range []string{"[", "{\"a\":"} {
			open := open
			if len(open)*depth > 1<<16 {
				continue
			}
			r.Case("deep-nesting", func(c *fw.Case) {
				e := get(c)
				closing := "]"
				if open != "[" {
					closing = "}"
				}
				full := strings.Repeat(open, depth) + "1" + strings.Repeat(closing, depth)
				half := strings.Repeat(open, depth)
				c.Sig("deep", depth, open)
				for _, in := range []string{full, half} {
					b := []byte(in)
					c19Call(c, "canonicalizer.MarshalCanonical(bytes)", "deep-nesting", b, func() { canonicalizer.MarshalCanonical(b) })
					c19Call(c, "Parser.Parse", "deep-nesting", b, func() { e.loose.Parser.Parse("did:ion", b) })
					c19Call(c, "patch.FromBytes", "deep-nesting", b, func() { patch.FromBytes(b) })
					c19Call(c, "patch.PatchesFromDocument", "deep-nesting", b, func() { patch.PatchesFromDocument(`{"foo":` + in + `}`) })
					c19Call(c, "jwsutil.JWK.UnmarshalJSON", "deep-nesting", b, func() { var k jwsutil.JWK; k.UnmarshalJSON(b) })
					c19Call(c, "hashing", "deep-nesting", b, func() { hashing.CalculateModelMultihash(b, 18) })
					wrapped := []byte(`{"action":"ietf-json-patch","patches":[{"op":"add","path":"/foo","value":` + in + `}]}`)
					e.feedPatch(c, "deep-nesting", wrapped)
				}
			})
		}
	}
}

type jpHostile struct {
	name string
	ops  []interface{}
}

func op(kind, path string, extra ...interface{}) map[string]interface{} {
	m := map[string]interface{}{"op": kind, "path": path}
	for i := 0; i+1 < len(extra); i += 2 {
		m[extra[i].(string)] = extra[i+1]
	}
	return m
}

func c19JSONPatchHostility() []jpHostile {
	var out []jpHostile
	add := func(name string, ops ...interface{}) { out = append(out, jpHostile{name, ops}) }
	idx := []string{"-1", "-2", "-99", "00", "01", "1e2", "0x1", " 1", "1 ", "+1", "x", "", "-", "99", "4294967296", "2147483648", "3000000000", "9223372036854775807", "9223372036854775808", "18446744073709551616", "-9223372036854775808"}
	for _, kind := range []string{"add", "remove", "replace", "test"} {
		for _, i := range idx {
			o := op(kind, "/arr/"+i)
			if kind != "remove" {
				o["value"] = 1
			}
			add(kind+"-index-"+i, o)
		}
	}
	for _, kind := range []string{"move", "copy"} {
		for _, i := range idx {
			add(kind+"-from-index-"+i, op(kind, "/new", "from", "/arr/"+i))
			if i == "3000000000" || i == "4294967296" || i == "2147483648" || i == "9223372036854775807" {
				continue // destination classes below (process-fatal allocation)
			}
			add(kind+"-to-index-"+i, op(kind, "/arr/"+i, "from", "/foo"))
		}
	}
	// known process-fatal classes (json-patch v4.1.0): allocation by destination index, cyclic alias
	add("copy-to-huge-index", op("copy", "/arr/3000000000", "from", "/foo"))
	add("move-to-huge-index", op("move", "/arr/4294967296", "from", "/foo"))
	add("copy-into-own-subtree", op("copy", "/foo/z", "from", "/foo"))
	add("copy-into-own-subtree-array", op("copy", "/arr/0", "from", "/arr"))
	add("alias-cycle-two-steps", op("copy", "/b", "from", "/foo"), op("copy", "/foo/c", "from", "/b"))
	add("move-into-own-subtree", op("move", "/foo/z", "from", "/foo"))
	// test / value hostility
	add("test-without-value-missing-member", map[string]interface{}{"op": "test", "path": "/nope"})
	add("test-without-value-existing-member", map[string]interface{}{"op": "test", "path": "/foo"})
	add("add-without-value", map[string]interface{}{"op": "add", "path": "/q"})
	add("replace-without-value", map[string]interface{}{"op": "replace", "path": "/foo"})
	add("add-null-then-descend", op("add", "/n", "value", nil), op("add", "/n/x", "value", 1))
	add("add-null-then-descend-array", op("add", "/n", "value", nil), op("add", "/n/0", "value", 1))
	add("replace-null-then-test-below", op("replace", "/foo", "value", nil), op("test", "/foo/a", "value", 1))
	add("test-array-with-null", op("add", "/n", "value", []interface{}{1, nil}), op("test", "/n", "value", []interface{}{1, nil}))
	add("test-object-null-vs-value", op("add", "/n", "value", map[string]interface{}{"a": nil}), op("test", "/n", "value", map[string]interface{}{"a": 1}))
	add("from-equals-path", op("move", "/foo", "from", "/foo"), op("copy", "/foo", "from", "/foo"))
	add("root-pointers", op("add", "", "value", map[string]interface{}{}), op("remove", ""), op("replace", "", "value", 1), op("move", "", "from", "/foo"), op("copy", "/x", "from", ""), op("test", "", "value", nil))
	add("slash-only", op("add", "/", "value", 1), op("remove", "/"), op("move", "/", "from", "/"))
	add("no-leading-slash", op("add", "foo", "value", 1), op("remove", "arr/0"), op("copy", "x", "from", "y"))
	add("missing-op", map[string]interface{}{"path": "/foo"})
	add("missing-path", map[string]interface{}{"op": "add", "value": 1})
	add("null-op-path-from", map[string]interface{}{"op": nil, "path": nil, "from": nil, "value": nil})
	add("path-not-string", map[string]interface{}{"op": "add", "path": 5, "value": 1}, map[string]interface{}{"op": "add", "path": []interface{}{"a"}, "value": 1}, map[string]interface{}{"op": "add", "path": map[string]interface{}{}, "value": 1})
	add("from-not-string", map[string]interface{}{"op": "move", "path": "/x", "from": 5}, map[string]interface{}{"op": "copy", "path": "/x", "from": nil})
	add("op-not-string", map[string]interface{}{"op": 7, "path": "/foo"}, map[string]interface{}{"op": []interface{}{}, "path": "/foo"})
	add("patch-entry-not-object", 1, "x", nil, []interface{}{})
	add("descend-into-scalar", op("add", "/foo/a/b/c", "value", 1), op("remove", "/foo/a/0"), op("test", "/arr/0/x", "value", 1))
	add("bad-escapes", op("add", "/a~", "value", 1), op("add", "/a~2b", "value", 1), op("remove", "/~"), op("test", "/~1~0~1", "value", 1))
	add("very-long-pointer", op("add", "/"+strings.Repeat("a/", 20000), "value", 1))
	add("remove-all-then-use", op("remove", "/arr/0"), op("remove", "/arr/0"), op("remove", "/arr/0"), op("remove", "/arr/0"), op("add", "/arr/0", "value", 1), op("replace", "/arr/0", "value", 1), op("test", "/arr/-", "value", 1))
	add("empty-patch-list")
	add("protected-members", op("remove", "/publicKey"), op("move", "/x", "from", "/service"), op("copy", "/publicKey/0", "from", "/publicKey"), op("add", "z/publicKey/-", "value", 1))
	return out
}

// feedSignedDelta wraps patches into correctly signed, hash-bound create / update / recover operations and applies them.
func (e *c19Env) feedSignedDelta(c *fw.Case, class string, patches []interface{}) {
	h := &histCtx{r: c.Rng, proto: e.loose.P, code: 18, keyType: gen.Ed25519, hasIETF: true}
	cs := planStep(h, 'c', "valid", 10, nil, func(h *histCtx, s *opStep) { s.Spec.Patches = patches })
	b := cs.Built.Request
	c19Call(c, "Applier.Apply", class+"/create", b, func() { e.loose.Applier.Apply(anchoredOf(cs, cs.Built.Suffix), &protocol.ResolutionModel{}) })
	c19Call(c, "Parser.Parse", class+"/create", b, func() { e.loose.Parser.Parse("did:ion", b) })
	c19Call(c, "DocumentHandler.ProcessOperation", class+"/create", b, func() { e.handler.ProcessOperation(b) })
	did := "did:ion:" + cs.Built.Suffix + ":" + oracle.B64(b)
	c19Call(c, "DocumentHandler.ResolveDocument", class+"/long-form", []byte(did), func() { e.handler.ResolveDocument(did) })
	c19Call(c, "VDR.Read", class+"/long-form", []byte(did), func() { e.vdr.Read(did) })
	for _, typ := range []byte("ur") {
		s := planStep(h, typ, "valid", 20, nil, func(h *histCtx, s *opStep) { s.Spec.Patches = patches })
		ub := s.Built.Request
		c19Call(c, "Applier.Apply", class+"/"+typeName(typ), ub, func() { e.loose.Applier.Apply(anchoredOf(s, h.ch.Suffix), e.state) })
		c19Call(c, "Parser.Parse", class+"/"+typeName(typ), ub, func() { e.loose.Parser.Parse("did:ion", ub) })
	}
}

func c19Artefact(c *fw.Case, e *c19Env, kind string) (interface{}, func(b []byte)) {
	r := c.Rng
	h := &histCtx{r: r, proto: e.loose.P, code: uint64(18 + r.Intn(2)), keyType: gen.SigningKeyTypes[c.Idx%len(gen.SigningKeyTypes)], hasIETF: true}
	cs := planStep(h, 'c', "valid", 10, nil, nil)
	feedAll := func(b []byte) { e.feedBytes(c, "corrupt-"+kind, b) }
	switch kind {
	case "create":
		return cs.Built.ReqObj, feedAll
	case "update", "recover", "deactivate":
		s := planStep(h, kind[0], "valid", 20, nil, nil)
		return s.Built.ReqObj, feedAll
	case "signed-payload":
		// corrupt the JWS payload of an update/recover/deactivate (unsigned: parsing happens before verification)
		typ := "urd"[r.Intn(3)]
		s := planStep(h, typ, "valid", 20, nil, nil)
		return s.Built.Payload, func(b []byte) {
			parts := strings.Split(s.Built.JWS, ".")
			parts[1] = oracle.B64(b)
			req := oracle.DeepCopy(oracle.MustGeneric(s.Built.ReqObj)).(map[string]interface{})
			req["signedData"] = strings.Join(parts, ".")
			e.feedBytes(c, "corrupt-signed-payload", gen.ToJSON(req))
			// and re-signed, so that everything behind signature verification is reached too
			req["signedData"] = gen.CompactJWS(r, map[string]interface{}{"alg": s.Spec.Signer.Alg()}, b, s.Spec.Signer)
			e.feedBytes(c, "corrupt-signed-payload-resigned", gen.ToJSON(req))
		}
	case "jws-header":
		s := planStep(h, 'u', "valid", 20, nil, nil)
		return map[string]interface{}{"alg": s.Spec.Signer.Alg(), "kid": "k1"}, func(b []byte) {
			parts := strings.Split(s.Built.JWS, ".")
			parts[0] = oracle.B64(b)
			j := strings.Join(parts, ".")
			e.feedBytes(c, "corrupt-jws-header", []byte(j))
			req := oracle.DeepCopy(oracle.MustGeneric(s.Built.ReqObj)).(map[string]interface{})
			req["signedData"] = j
			e.feedBytes(c, "corrupt-jws-header-in-update", gen.ToJSON(req))
		}
	case "jwk":
		k := gen.NewKey(r, gen.AllKeyTypes[c.Idx%len(gen.AllKeyTypes)]) // consecutive batches: every key type
		j := k.JWK()
		if r.Bool() {
			j["d"] = oracle.B64(r.Bytes(32))
			j["kid"], j["use"], j["alg"] = "k", "sig", "ES256"
		}
		return j, func(b []byte) {
			e.feedBytes(c, "corrupt-jwk", b)
			var lk jws.JWK
			if json.Unmarshal(b, &lk) == nil {
				c19Call(c, "jwsutil.VerifyJWS", "corrupt-jwk", b, func() {
					jwsutil.VerifyJWS("eyJhbGciOiJFZERTQSJ9.e30.AAAAAAAAAAAAAAAAAAAAAAAAAAAAAAAAAAAAAAAAAAAAAAAAAAAAAAAAAAAAAAAAAAAAAAAAAAAAAAAAAAAAAAAAAAAAAA", &lk)
				})
				c19Call(c, "hashing", "corrupt-jwk", b, func() { commitment.GetCommitment(&lk, 18); commitment.GetRevealValue(&lk, 18) })
			}
		}
	case "patch":
		var p map[string]interface{}
		if r.Chance(1, 3) {
			ops, _ := gen.RandValidJSONPatch(r, map[string]interface{}{"foo": map[string]interface{}{"a": 1}, "arr": []interface{}{1, 2}}, 3, false)
			p = gen.PJSON(ops...)
		} else {
			p = gen.RandSimplePatch(r)
		}
		return p, func(b []byte) {
			e.feedPatch(c, "corrupt-patch", b)
			c19Call(c, "patch.FromBytes", "corrupt-patch", b, func() { patch.FromBytes(b) })
		}
	case "document":
		d := c14Doc(r)
		return d, func(b []byte) {
			c19Call(c, "patch.PatchesFromDocument", "corrupt-document", b, func() { patch.PatchesFromDocument(string(b)) })
			c19Call(c, "docvalidator", "corrupt-document", b, func() { docvalidator.New().IsValidOriginalDocument(b) })
			c19Call(c, "didvalidator", "corrupt-document", b, func() { didvalidator.New().IsValidOriginalDocument(b) })
			var doc document.Document
			if json.Unmarshal(b, &doc) == nil && doc != nil {
				e.feedDocument(c, "corrupt-document", doc, b)
				c19Call(c, "DocumentComposer.ApplyPatches", "corrupt-document", b, func() {
					lp, _ := sut.ToPatches([]interface{}{gen.PAddKeys(gen.RandDocKey(r, "k9")), gen.PRemoveKeys("key1"), gen.PAddServices(gen.RandService(r, "s9")), gen.PRemoveServices("svc1"),
						gen.PAddAka("did:example:z"), gen.PRemoveAka("did:example:z"), gen.PJSON(op("add", "/zz", "value", 1))})
					for _, p := range lp {
						e.loose.Composer.ApplyPatches(doc, []patch.Patch{p})
					}
				})
			}
			// as replace document
			c19Call(c, "patch.constructors", "corrupt-document", b, func() { patch.NewReplacePatch(string(b)) })
		}
	case "did-initial-state":
		return cs.Built.ReqObj, func(b []byte) {
			var g interface{}
			json.Unmarshal(b, &g)
			canon, err := oracle.JCSValue(oracle.MustGeneric(g))
			if err != nil {
				canon = b
			}
			sfx := cs.Built.Suffix
			if m, ok := g.(map[string]interface{}); ok {
				if sd, ok := m["suffixData"]; ok {
					if s2, err := oracle.ModelHash(18, oracle.MustGeneric(sd)); err == nil {
						sfx = s2
					}
				}
			}
			did := "did:ion:" + sfx + ":" + oracle.B64(canon)
			db := []byte(did)
			c19Call(c, "DocumentHandler.ResolveDocument", "corrupt-initial-state", db, func() { e.handler.ResolveDocument(did) })
			c19Call(c, "VDR.Read", "corrupt-initial-state", db, func() { e.vdr.Read(did) })
			c19Call(c, "Parser.ParseDID", "corrupt-initial-state", db, func() { e.loose.Parser.ParseDID("did:ion", did) })
		}
	case "delta-resigned":
		// corrupt the patches and rebuild hash + signature so the hostile value reaches delta validation and the composer
		var ps []interface{}
		if r.Bool() {
			ops, _ := gen.RandValidJSONPatch(r, map[string]interface{}{"foo": map[string]interface{}{"a": 1}, "arr": []interface{}{1, 2}}, 2, false)
			ps = []interface{}{gen.PJSON(ops...), gen.RandSimplePatch(r)}
		} else {
			ps = []interface{}{gen.RandSimplePatch(r), gen.RandSimplePatch(r)}
		}
		return ps, func(b []byte) {
			var g interface{}
			if json.Unmarshal(b, &g) != nil {
				return
			}
			l, ok := g.([]interface{})
			if !ok {
				l = []interface{}{g}
			}
			e.feedSignedDelta(c, "delta-resigned", l)
		}
	}
	return nil, nil
}

func c19Corrupt(c *fw.Case, e *c19Env, kind string, limit int) {
	art, feed := c19Artefact(c, e, kind)
	if art == nil {
		return
	}
	vs := corruptions(art, limit, c.Rng)
	c.Sig("corrupt", kind, len(vs) > 0)
	for _, b := range vs {
		feed(b)
	}
	c.Count("corruptions:"+kind, len(vs))
	if len(vs) > 0 {
		c.Sample(map[string]interface{}{"kind": kind, "variants": len(vs), "example": string(vs[len(vs)/2])})
	}
}

func c19Truncations(c *fw.Case, e *c19Env, kind string, part, parts int) {
	// the artefact must be the same in every part: derive it from a part-independent stream
	r := fw.CaseRand(int64(fw.Hash64(kind)), "C19trunc", int(c.Rng.U64()%1)) // constant stream per kind
	h := &histCtx{r: r, proto: e.loose.P, code: 18, keyType: gen.P256, hasIETF: true}
	small := []interface{}{gen.PAddKeys(gen.DocKey(r, "k1", gen.TJwk2020, []string{"authentication"}, "jwk"))}
	cs := planStep(h, 'c', "valid", 10, nil, func(h *histCtx, s *opStep) { s.Spec.Patches = small })
	var full []byte
	switch kind {
	case "create":
		full = cs.Built.Request
	case "update", "recover", "deactivate":
		s := planStep(h, kind[0], "valid", 20, nil, func(h *histCtx, s *opStep) {
			if kind != "deactivate" {
				s.Spec.Patches = small
			}
		})
		full = s.Built.Request
	case "did":
		full = []byte("did:ion:" + cs.Built.Suffix + ":" + oracle.B64(cs.Built.Request))
	case "jws":
		s := planStep(h, 'u', "valid", 20, nil, func(h *histCtx, s *opStep) { s.Spec.Patches = small })
		full = []byte(s.Built.JWS)
	case "jwk":
		full = gen.ToJSON(gen.NewKey(r, gen.P384).JWK())
	case "patch":
		full = gen.ToJSON(gen.PAddKeys(gen.DocKey(r, "k1", gen.TJwk2020, []string{"authentication"}, "jwk")))
	}
	n := 0
	for cut := part; cut < len(full); cut += parts {
		n++
		e.feedBytes(c, "truncated-"+kind, full[:cut])
		if kind == "patch" {
			e.feedPatch(c, "truncated-patch", full[:cut])
		}
	}
	c.Sig("trunc", kind, part)
	c.Sample(map[string]interface{}{"kind": kind, "full_length": len(full), "cuts": n})
}
