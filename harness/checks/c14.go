package checks

import (
	"encoding/json"
	"fmt"
	"regexp"
	"strings"
	"verifharness/sut"

	"github.com/trustbloc/sidetree-go/pkg/document"
	"github.com/trustbloc/sidetree-go/pkg/patch"
	"github.com/trustbloc/sidetree-go/pkg/versions/1_0/doccomposer"
	"github.com/trustbloc/sidetree-go/pkg/versions/1_0/operationparser/patchvalidator"

	"verifharness/fw"
	"verifharness/gen"
	"verifharness/oracle"
)

func init() {
	fw.Register(&fw.Check{
		ID:          "C14",
		Rule:        "cases: (a) documents without id whose members are non-empty lists of valid keys, services and also-known-as URIs plus 0..4 further members with ordinary names (no '/', '~', quotes; not beginning with publicKey/service, which the validator reserves) and arbitrary JSON values: PatchesFromDocument -> every patch validates -> ApplyPatches({}) must reproduce the document; (b) the eight constructors on valid input: output validates, Bytes/FromBytes round trip, GetAction/GetValue agree with the content; (c) documents with a string id refused; (d) FromBytes on each action x {value member missing, value member of another action, no action, unknown action} must fail. distinct = member-set shapes, constructor names and labelled byte classes.",
		Assumptions: []string{"JSON numbers compared as IEEE doubles", "harness JSON equality"},
		Require:     []string{"doc-roundtrip", "constructors", "bytes-roundtrip", "id-refused", "bad-bytes"},
		Run:         runC14,
	})
}

var c14Names = []string{"foo", "bar", "controller", "x", "meta", "tags", "created", "émoji", "with space", "a.b", "UPPER", "n1", "alsoKnownAs2", "verificationMethod", "authentication", "@context", "type",
	// names that differ from the reserved ones by letter case only are ordinary further members
	"ID", "Id", "iD", "identifier", "ids", "PublicKey", "Service", "AlsoKnownAs", "alsoknownas", "Publickey", "SERVICE",
	// characters that are no metacharacters of JSON or of JSON pointers, merely unusual: DEL, C1, a non-character, unassigned /
	// private-use / tag characters beyond the basic plane (what Go's %q would spell in a way JSON does not know)
	// names made of digits are member names (array indexes only where an array is addressed)
	"007", "00", "01", "0", "10", "-1", "1e3",
	"del\u007f", "c1\u0085x", "nc\ufffe", "tag\U000E0020", "pua\U000F0000", "last\U0010FFFF", "sep\u2028"}

func c14Doc(r *fw.Rand) map[string]interface{} {
	doc := map[string]interface{}{}
	for len(doc) == 0 {
		if r.Chance(3, 4) {
			doc["publicKey"] = gen.RandKeys(r, r.Range(1, 4))
		}
		if r.Chance(2, 3) {
			doc["service"] = gen.RandServices(r, r.Range(1, 3))
		}
		if r.Chance(1, 2) {
			var l []interface{}
			for _, u := range gen.PickURIs(r, r.Range(1, 4)) {
				l = append(l, u)
			}
			doc["alsoKnownAs"] = l
		}
	}
	for i, n := 0, r.Intn(5); i < n; i++ {
		doc[fw.Pick(r, c14Names)] = gen.RandValue(r, 2)
	}
	if r.Chance(1, 3) {
		// numbers of every size class as member values (beyond 2^53 and 2^63, huge and tiny exponents): they are doubles like any other
		doc[fw.Pick(r, []string{"numbers", "n1", "meta"})] = []interface{}{1e21, 1.5e300, -36028797018963968.0, 9007199254740993.0, 18446744073709551615.0, 5e-324, 1e-7, 123456789012345680000.0}
	}
	if svcs, ok := doc["service"].([]interface{}); ok && r.Chance(1, 4) {
		// endpoints without a scheme that the validator takes: a rooted path, a network-path reference
		if sm, ok := svcs[r.Intn(len(svcs))].(map[string]interface{}); ok {
			if _, plain := sm["serviceEndpoint"].(string); plain {
				sm["serviceEndpoint"] = fw.Pick(r, []string{"/hub/inbox", "//hub.example.com/inbox", "/"})
			}
		}
	}
	return doc
}

func runC14(r *fw.Runner) {
	composer := doccomposer.New()
	for b := 0; b < r.N(100, 4000); b++ {
		r.Case("doc-roundtrip", func(c *fw.Case) {
			for i := 0; i < 25; i++ {
				c14RoundTrip(c, composer)
			}
		})
	}
	for b := 0; b < r.N(40, 800); b++ {
		r.Case("constructors", func(c *fw.Case) {
			for i := 0; i < 10; i++ {
				c14Constructors(c)
			}
		})
	}
	r.Case("id-refused", func(c *fw.Case) {
		for i := 0; i < 50; i++ {
			doc := c14Doc(c.Rng)
			doc["id"] = fw.Pick(c.Rng, []string{"did:example:123", "x", "did:ion:EiA", "#frag"})
			c.Count("id-refused", 1)
			c.Evals(1)
			c.Sig("id", doc["id"])
			b := gen.ToJSON(doc)
			if ps, err := patch.PatchesFromDocument(string(b)); err == nil {
				c.Failf("id-accepted", map[string]interface{}{"document": doc, "patches": ps}, "PatchesFromDocument accepted a document carrying an id")
			}
		}
		c.Sample(map[string]interface{}{"document": map[string]interface{}{"id": "did:example:123"}, "expected": "refused"})
	})
	r.Case("bad-bytes", func(c *fw.Case) { c14BadBytes(c) })
}

func c14RoundTrip(c *fw.Case, composer *doccomposer.DocumentComposer) {
	r := c.Rng
	doc := c14Doc(r)
	var sb strings.Builder
	for _, k := range []string{"publicKey", "service", "alsoKnownAs"} {
		if _, ok := doc[k]; ok {
			sb.WriteString(k[:1])
		}
	}
	sb.WriteString(fmt.Sprint(len(doc)))
	c.Count("doc-roundtrip", 1)
	c.Evals(1)
	b := gen.Spell(r, doc, gen.SpellOpts{Shuffle: true, Whitespace: true})
	want, _ := oracle.ParseJSON(b)
	ps, err := patch.PatchesFromDocument(string(b))
	if err != nil {
		c.Failf("patches-from-document-error", map[string]interface{}{"document": string(b), "err": err.Error()}, "PatchesFromDocument refused a valid document: %v", err)
		return
	}
	acts := ""
	for _, p := range ps {
		a, _ := p.GetAction()
		acts += string(a)[:5] + ","
		if err := patchvalidator.Validate(p); err != nil {
			c.Failf("generated-patch-invalid", map[string]interface{}{"document": string(b), "patch": p, "err": err.Error()}, "patch produced by PatchesFromDocument fails validation: %v", err)
			return
		}
	}
	c.Sig("doc", sb.String(), acts)
	res, err := composer.ApplyPatches(make(document.Document), ps)
	if err != nil {
		c.Failf("apply-error", map[string]interface{}{"document": string(b), "patches": ps, "err": err.Error()}, "applying the document's patches failed: %v", err)
		return
	}
	got, err := oracle.Generic(res)
	if err != nil {
		c.Inconclusive("result-not-json")
		return
	}
	c.Sample(map[string]interface{}{"document": string(b), "patch_actions": acts})
	if !oracle.JSONEqual(got, want) {
		c.Failf("roundtrip-differs", map[string]interface{}{"document": string(b), "patches": ps, "got": got, "diff": describeDiff(want, got)}, "document -> patches -> document is not the identity (%s)", describeDiff(want, got))
	}
}

func c14Constructors(c *fw.Case) {
	r := c.Rng
	keys := gen.RandKeys(r, r.Range(1, 3))
	svcs := gen.RandServices(r, r.Range(1, 2))
	var uris []interface{}
	for _, u := range gen.PickURIs(r, r.Range(1, 3)) {
		uris = append(uris, u)
	}
	ids := []interface{}{}
	for _, id := range genPick(r, gen.KeyIDPool, r.Range(1, 3)) {
		ids = append(ids, id)
	}
	freeOps, _ := gen.RandValidJSONPatch(r, map[string]interface{}{"foo": map[string]interface{}{"a": 1}, "arr": []interface{}{1, 2}}, 3, true)
	if r.Chance(1, 3) {
		// relocations between members whose names (or indices) share a prefix are ordinary moves, not moves into a child
		freeOps = append(freeOps, fw.Pick(r, [][]interface{}{
			{map[string]interface{}{"op": "add", "path": "/email", "value": "a@b"}, map[string]interface{}{"op": "move", "from": "/email", "path": "/emailBackup"}},
			{map[string]interface{}{"op": "add", "path": "/tags", "value": []interface{}{0, 1, 2, 3, 4, 5, 6, 7, 8, 9, 10, 11}}, map[string]interface{}{"op": "move", "from": "/tags/1", "path": "/tags/10"}},
			{map[string]interface{}{"op": "add", "path": "/a", "value": map[string]interface{}{"b": 1}}, map[string]interface{}{"op": "copy", "from": "/a", "path": "/ab"}, map[string]interface{}{"op": "move", "from": "/a/b", "path": "/a/bc"}},
		})...)
	}
	if r.Chance(1, 3) {
		// values holding numbers of every size class (every double is a JSON number a patch can carry)
		freeOps = append(freeOps, map[string]interface{}{"op": "add", "path": "/measure", "value": map[string]interface{}{"big": 1e21, "huge": 1.5e300, "neg": -36028797018963968.0, "odd": 9007199254740994.0,
			"max": 18446744073709551615.0, "tiny": 5e-324, "list": []interface{}{1e22, gen.RandDouble(r), 0.1}}})
		c.Count("patch-values-with-large-numbers", 1)
	}
	if r.Chance(1, 3) {
		// the empty pointer is a well-formed pointer too (the whole document): as path and as from
		freeOps = append(freeOps, fw.Pick(r, []interface{}{
			map[string]interface{}{"op": "test", "path": "", "value": map[string]interface{}{"foo": "bar"}},
			map[string]interface{}{"op": "copy", "from": "", "path": "/snapshot"},
			map[string]interface{}{"op": "add", "path": "", "value": map[string]interface{}{}},
			map[string]interface{}{"op": "replace", "path": "", "value": map[string]interface{}{"a": 1}}}))
		c.Count("whole-document-pointers", 1)
	}
	js := func(v interface{}) string {
		return string(gen.Spell(r, oracle.MustGeneric(v), gen.SpellOpts{Whitespace: true, Shuffle: true}))
	}
	type ctor struct {
		name, action, valueKey string
		value                  interface{}
		make                   func() (patch.Patch, error)
	}
	replaceDoc := map[string]interface{}{"publicKeys": keys, "services": svcs}
	// both members of a replace document are optional
	switch r.Intn(5) {
	case 0:
		replaceDoc = map[string]interface{}{"publicKeys": keys}
	case 1:
		replaceDoc = map[string]interface{}{"services": svcs}
	case 2:
		replaceDoc = map[string]interface{}{}
	}
	ctors := []ctor{
		{"NewAddPublicKeysPatch", "add-public-keys", "publicKeys", keys, func() (patch.Patch, error) { return patch.NewAddPublicKeysPatch(js(keys)) }},
		{"NewRemovePublicKeysPatch", "remove-public-keys", "ids", ids, func() (patch.Patch, error) { return patch.NewRemovePublicKeysPatch(js(ids)) }},
		{"NewAddServiceEndpointsPatch", "add-services", "services", svcs, func() (patch.Patch, error) { return patch.NewAddServiceEndpointsPatch(js(svcs)) }},
		{"NewRemoveServiceEndpointsPatch", "remove-services", "ids", ids, func() (patch.Patch, error) { return patch.NewRemoveServiceEndpointsPatch(js(ids)) }},
		{"NewAddAlsoKnownAs", "add-also-known-as", "uris", uris, func() (patch.Patch, error) { return patch.NewAddAlsoKnownAs(js(uris)) }},
		{"NewRemoveAlsoKnownAs", "remove-also-known-as", "uris", uris, func() (patch.Patch, error) { return patch.NewRemoveAlsoKnownAs(js(uris)) }},
		{"NewReplacePatch", "replace", "document", replaceDoc, func() (patch.Patch, error) { return patch.NewReplacePatch(js(replaceDoc)) }},
		{"NewJSONPatch", "ietf-json-patch", "patches", freeOps, func() (patch.Patch, error) { return patch.NewJSONPatch(js(freeOps)) }},
	}
	var kept []keptBytes
	for _, ct := range ctors {
		c.Count("constructors", 1)
		c.Evals(3)
		c.Sig("ctor", ct.name)
		p, err := ct.make()
		w := map[string]interface{}{"constructor": ct.name, "input": ct.value}
		if err != nil {
			w["err"] = err.Error()
			c.Failf("constructor-error:"+ct.name, w, "%s refused valid input: %v", ct.name, err)
			continue
		}
		if err := patchvalidator.Validate(p); err != nil {
			w["patch"] = p
			w["err"] = err.Error()
			c.Failf("constructor-output-invalid:"+ct.name, w, "%s output fails validation: %v", ct.name, err)
		}
		act, err := p.GetAction()
		if err != nil || string(act) != ct.action {
			c.Failf("action-accessor:"+ct.name, w, "GetAction = %q (%v), want %q", act, err, ct.action)
		}
		val, err := p.GetValue()
		gv, _ := oracle.Generic(val)
		if err != nil || !oracle.JSONEqual(gv, oracle.MustGeneric(ct.value)) {
			w["got_value"] = gv
			c.Failf("value-accessor:"+ct.name, w, "GetValue disagrees with the constructor input")
		}
		if raw, ok := p[patch.Key(ct.valueKey)]; !ok {
			c.Failf("value-key:"+ct.name, w, "patch lacks its value member %q", ct.valueKey)
		} else if g, _ := oracle.Generic(raw); !oracle.JSONEqual(g, gv) {
			c.Failf("value-key:"+ct.name, w, "GetValue differs from member %q", ct.valueKey)
		}
		// bytes round trip
		c.Count("bytes-roundtrip", 1)
		b, err := p.Bytes()
		if err != nil {
			c.Failf("bytes-error:"+ct.name, w, "Bytes failed: %v", err)
			continue
		}
		back, err := patch.FromBytes(b)
		if err != nil {
			w["bytes"] = string(b)
			c.Failf("frombytes-error:"+ct.name, w, "FromBytes(Bytes()) failed: %v", err)
			continue
		}
		g1, _ := oracle.Generic(p)
		g2, _ := oracle.Generic(back)
		a2, _ := back.GetAction()
		v2, _ := back.GetValue()
		gv2, _ := oracle.Generic(v2)
		if !oracle.JSONEqual(g1, g2) || a2 != act || !oracle.JSONEqual(gv2, gv) {
			w["bytes"] = string(b)
			w["back"] = g2
			c.Failf("bytes-roundtrip-differs:"+ct.name, w, "FromBytes(Bytes()) is not an equal patch")
		}
		// the parsed form must again serialize to the same bytes
		b2, err := back.Bytes()
		if err != nil || string(b2) != string(b) {
			c.Failf("bytes-not-stable:"+ct.name, map[string]interface{}{"first": string(b), "second": string(b2)}, "Bytes() of the re-parsed patch differs")
		}
		if ct.name == "NewAddPublicKeysPatch" {
			c.Sample(map[string]interface{}{"constructor": ct.name, "bytes": string(b)})
		}
		kept = append(kept, keptBytes{ct.name, g1, b, append([]byte{}, b...)})
	}
	// the byte strings handed out stay what they were while other patches and documents are serialized: each is parsed only now
	if d, err := sut.ToDoc(map[string]interface{}{"publicKey": keys, "note": "serialized in between"}); err == nil {
		d.Bytes()
	}
	for _, k := range kept {
		c.Count("retained-bytes-parsed-later", 1)
		c.Evals(1)
		if string(k.b) != string(k.copyAtOnce) {
			c.Failf("bytes-changed-after-return:"+k.name, map[string]interface{}{"constructor": k.name, "at_return": string(k.copyAtOnce), "now": string(k.b)}, "the byte slice returned by Bytes() changed after later serializations")
			continue
		}
		back, err := patch.FromBytes(k.b)
		g2, _ := oracle.Generic(back)
		if err != nil || !oracle.JSONEqual(k.patch, g2) {
			c.Failf("bytes-roundtrip-differs:"+k.name, map[string]interface{}{"constructor": k.name, "bytes": string(k.b), "err": fmt.Sprint(err)}, "FromBytes of bytes retained while other patches were serialized is not an equal patch")
		}
	}
}

type keptBytes struct {
	name       string
	patch      interface{}
	b          []byte
	copyAtOnce []byte
}

func c14BadBytes(c *fw.Case) {
	r := c.Rng
	values := map[string]interface{}{
		"publicKeys": gen.RandKeys(r, 1), "services": gen.RandServices(r, 1), "ids": []interface{}{"key1"},
		"uris": []interface{}{"did:example:a"}, "patches": []interface{}{map[string]interface{}{"op": "add", "path": "/foo", "value": 1}},
		"document": map[string]interface{}{"publicKeys": gen.RandKeys(r, 1)},
	}
	for _, action := range gen.AllActions {
		vk := oracle.PatchValueKey(action)
		good := map[string]interface{}{"action": action, vk: values[vk]}
		c.Count("bad-bytes", 1)
		c.Evals(1)
		if _, err := patch.FromBytes(gen.ToJSON(good)); err != nil {
			c.Failf("good-bytes-refused:"+action, map[string]interface{}{"bytes": string(gen.ToJSON(good)), "err": err.Error()}, "FromBytes refused a well-formed %s patch", action)
		}
		type bad struct {
			name string
			m    map[string]interface{}
		}
		bads := []bad{
			{"value-member-missing", map[string]interface{}{"action": action}},
			{"no-action", map[string]interface{}{vk: values[vk]}},
			{"unknown-action", map[string]interface{}{"action": action + "x", vk: values[vk]}},
			{"action-not-string", map[string]interface{}{"action": 7, vk: values[vk]}},
			{"action-case", map[string]interface{}{"action": strings.ToUpper(action), vk: values[vk]}},
		}
		for ovk, ov := range values {
			if ovk != vk {
				bads = append(bads, bad{"value-member-of-other-action:" + ovk, map[string]interface{}{"action": action, ovk: ov}})
			}
		}
		// the value under a name that merely resembles the action's value member (another naming style, singular / plural, letter case)
		snake := strings.ToLower(regexp.MustCompile("([a-z])([A-Z])").ReplaceAllString(vk, "${1}_${2}"))
		for _, alt := range []string{snake, "public_keys", "service_endpoints", "serviceEndpoints", strings.TrimSuffix(vk, "s"), vk + "s", strings.ToUpper(vk[:1]) + vk[1:], strings.ToUpper(vk), "value", " " + vk} {
			if alt != vk {
				bads = append(bads, bad{"value-member-under-a-similar-name:" + alt, map[string]interface{}{"action": action, alt: values[vk]}})
			}
		}
		for _, b := range bads {
			c.Count("bad-bytes", 1)
			c.Evals(1)
			c.Sig("bad", action, strings.SplitN(b.name, ":", 2)[0])
			raw := gen.ToJSON(b.m)
			if p, err := patch.FromBytes(raw); err == nil {
				c.Failf("bad-bytes-accepted:"+strings.SplitN(b.name, ":", 2)[0], map[string]interface{}{"bytes": string(raw), "class": b.name, "patch": p}, "FromBytes accepted %s bytes (%s)", action, b.name)
			}
		}
	}
	for _, raw := range []string{"", "null", "[]", "\"add-public-keys\"", "{", "{}", "7"} {
		c.Count("bad-bytes", 1)
		c.Evals(1)
		c.Sig("bad-raw", raw)
		if _, err := patch.FromBytes([]byte(raw)); err == nil {
			c.Failf("bad-bytes-accepted:not-a-patch", map[string]interface{}{"bytes": raw}, "FromBytes accepted %q", raw)
		}
	}
	var any interface{}
	json.Unmarshal([]byte(`{"action":"replace"}`), &any)
	c.Sample(map[string]interface{}{"bytes": `{"action":"replace"}`, "expected": "refused: value member missing"})
}
