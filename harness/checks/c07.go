package checks

import (
	"bytes"
	"errors"
	"fmt"

	"github.com/trustbloc/sidetree-go/pkg/api/protocol"
	"github.com/trustbloc/sidetree-go/pkg/versions/1_0/operationparser"

	"verifharness/fw"
	"verifharness/gen"
	"verifharness/oracle"
	"verifharness/sut"
)

func init() {
	fw.Register(&fw.Check{
		ID:          "C07",
		Rule:        "cases: valid requests of the four types x signing key types parsed outside batch mode, and for each one labelled mutation per protocol rule (unknown type; each hash with an unconfigured algorithm; delta missing/empty/with disabled or invalid patches; disallowed alg; extra protected headers; disallowed curve; nonce size +-1; reveal value of another key; update commitment = current update key's commitment; recovery commitment = current recovery key's; update = recovery commitment; deactivate suffix mismatch; malformed JSON / missing members). Boundaries by configuration: for each limit L in {MaxOperationSize, MaxOperationHashLength, MaxDeltaSize, NonceSize} the same request is parsed under L = exact size (accept) and exact size - 1 (refuse); operation size is also moved from the request side by whitespace padding. Each algorithm list and the patch list lose one entry at a time (only requests using it flip). Anchor-origin and time validator options are exercised. The accepted operation's type, suffix, id, bytes and anchor origin are compared with the request's. distinct = (type, key type, rule / boundary / configuration, verdict).",
		Assumptions: []string{"labels (one rule violated per mutation) known by construction", "harness JCS for the delta size"},
		Require:     []string{"valid-accepted", "rule-violations", "boundary-accept", "boundary-refuse", "config-variations", "anchor-origin-reported"},
		Workers:     func(string) int { return 15 },
		Run:         runC07,
	})
}

// c07Expect derives the non-batch parser verdict from the labels of a failClass mutation.
func c07Expect(typ byte, s *opStep) bool {
	f := s.Facts
	if !f.ParseOK {
		return false
	}
	if typ == 'd' {
		return true
	}
	if s.Spec.OmitDelta || !f.DeltaValid {
		return false
	}
	if typ == 'c' && !f.DeltaBound {
		return false
	}
	return true
}

func c07Step(h *histCtx, typ byte, class string, extra func(h *histCtx, s *opStep)) *opStep {
	if typ != 'c' {
		h.ch = nil
		planStep(h, 'c', "valid", 1000, nil, nil)
	} else {
		h.ch = nil
	}
	return planStep(h, typ, class, 2000, nil, extra)
}

func c07CheckAccepted(c *fw.Case, ns string, s *opStep, typ byte, op interface{}, st *sut.Stack) {
}

func runC07(r *fw.Runner) {
	keyTypes := gen.SigningKeyTypes
	ns := "did:sidetree"
	// (1) valid requests and failClass-derived rule violations
	for _, typ := range []byte("curd") {
		typ := typ
		classes := append([]failClass{{name: "valid", types: "curd", mutate: func(*histCtx, *opStep) {}}}, classesFor(typ)...)
		for ci, fc := range classes {
			fc := fc
			if fc.name == "unknown-operation-type" {
				continue // that class mutates the anchoring envelope; the request-side variant is below
			}
			for ki, kt := range keyTypes {
				kt := kt
				if !r.Thorough && (ci+ki)%2 == 1 && kt != gen.Ed25519 {
					continue
				}
				reps := 1
				if fc.name == "valid" {
					reps = r.N(12, 150)
				}
				for rep := 0; rep < reps; rep++ {
					r.Case("rules-"+typeName(typ), func(c *fw.Case) {
						withIETF := c.Rng.Chance(3, 4)
						proto := histProto(withIETF)
						st := sut.SharedStack(proto)
						h := &histCtx{r: c.Rng, proto: proto, code: uint64(18 + c.Rng.Intn(2)), keyType: kt, hasIETF: withIETF}
						s := c07Step(h, typ, fc.name, nil)
						c07Parse(c, st, ns, typ, s, c07Expect(typ, s), fc.name)
					})
				}
			}
		}
	}
	// (2) C07-specific rule violations
	type rule struct {
		name   string
		types  string
		accept bool
		mut    func(h *histCtx, s *opStep)
	}
	rules := []rule{
		{"request-type-unknown", "curd", false, func(h *histCtx, s *opStep) {
			s.Spec.RequestEdit = func(m map[string]interface{}) { m["type"] = "frobnicate" }
		}},
		{"request-type-missing", "curd", false, func(h *histCtx, s *opStep) { s.Spec.RequestEdit = func(m map[string]interface{}) { delete(m, "type") } }},
		{"request-type-wrong-case", "curd", false, func(h *histCtx, s *opStep) {
			s.Spec.RequestEdit = func(m map[string]interface{}) { m["type"] = "Update" }
		}},
		{"update-commitment-equals-current-update-key", "u", false, func(h *histCtx, s *opStep) {
			s.Spec.UpdateCommitment = s.Spec.Signer.Commitment(h.code)
		}},
		{"update-commitment-equals-current-update-key-with-its-nonce", "u", false, func(h *histCtx, s *opStep) {
			s.Spec.Signer = s.Spec.Signer.WithNonce(h.r, int(h.proto.NonceSize))
			s.Spec.UpdateCommitment = s.Spec.Signer.Commitment(h.code)
		}},
		{"update-commitment-is-current-key-without-its-nonce (valid: another key)", "u", true, func(h *histCtx, s *opStep) {
			bare := *s.Spec.Signer
			bare.Nonce = ""
			s.Spec.Signer = s.Spec.Signer.WithNonce(h.r, int(h.proto.NonceSize))
			s.Spec.UpdateCommitment = bare.Commitment(h.code)
		}},
		{"update-commitment-is-current-key-with-another-nonce (valid: another key)", "u", true, func(h *histCtx, s *opStep) {
			s.Spec.UpdateCommitment = s.Spec.Signer.WithNonce(h.r, int(h.proto.NonceSize)).Commitment(h.code)
			s.Spec.Signer = s.Spec.Signer.WithNonce(h.r, int(h.proto.NonceSize))
		}},
		{"recovery-commitment-equals-current-recovery-key-with-its-nonce", "r", false, func(h *histCtx, s *opStep) {
			s.Spec.Signer = s.Spec.Signer.WithNonce(h.r, int(h.proto.NonceSize))
			s.Spec.RecoveryCommitment = s.Spec.Signer.Commitment(h.code)
		}},
		{"recovery-commitment-is-current-key-without-its-nonce (valid: another key)", "r", true, func(h *histCtx, s *opStep) {
			bare := *s.Spec.Signer
			bare.Nonce = ""
			s.Spec.Signer = s.Spec.Signer.WithNonce(h.r, int(h.proto.NonceSize))
			s.Spec.RecoveryCommitment = bare.Commitment(h.code)
		}},
		{"recovery-commitment-equals-current-recovery-key", "r", false, func(h *histCtx, s *opStep) {
			s.Spec.RecoveryCommitment = s.Spec.Signer.Commitment(h.code)
		}},
		{"update-commitment-equals-recovery-commitment", "cr", false, func(h *histCtx, s *opStep) {
			s.Spec.UpdateCommitment = s.Spec.RecoveryCommitment
		}},
		{"recover-update-commitment-equals-current-recovery-key (not demanded: accepted)", "r", true, func(h *histCtx, s *opStep) {
			s.Spec.UpdateCommitment = s.Spec.Signer.Commitment(h.code)
		}},
		{"bad-signature-is-not-a-parser-rule", "urd", true, func(h *histCtx, s *opStep) {
			s.Spec.PostJWS = func(j string) string { return flipSigBit(h.r, j) }
		}},
		{"kid-header-allowed", "urd", true, func(h *histCtx, s *opStep) {
			s.Spec.Headers = map[string]interface{}{"alg": s.Spec.Signer.Alg(), "kid": "signing-key"}
		}},
		{"nonce-of-configured-size", "urd", true, func(h *histCtx, s *opStep) { s.Spec.Signer = s.Spec.Signer.WithNonce(h.r, int(h.proto.NonceSize)) }},
		{"nonce-not-base64", "urd", false, func(h *histCtx, s *opStep) {
			k := *s.Spec.Signer
			k.Nonce = "!!!not-base64!!!"
			s.Spec.Signer = &k
		}},
		{"delta-patches-not-a-list", "cur", false, func(h *histCtx, s *opStep) {
			s.Spec.RequestDelta = map[string]interface{}{"updateCommitment": s.Spec.UpdateCommitment, "patches": "none"}
		}},
		{"delta-update-commitment-missing", "cur", false, func(h *histCtx, s *opStep) { s.Spec.UpdateCommitment = "" }},
		{"create-recovery-commitment-missing", "c", false, func(h *histCtx, s *opStep) {
			s.Spec.SuffixDataEdit = func(sd map[string]interface{}) { delete(sd, "recoveryCommitment") }
		}},
		{"create-delta-hash-missing", "c", false, func(h *histCtx, s *opStep) {
			s.Spec.SuffixDataEdit = func(sd map[string]interface{}) { delete(sd, "deltaHash") }
		}},
		{"did-suffix-empty", "urd", false, func(h *histCtx, s *opStep) {
			s.Spec.RequestEdit = func(m map[string]interface{}) { m["didSuffix"] = "" }
			s.Spec.SignedSuffix = gen.S("")
		}},
	}
	for _, ru := range rules {
		ru := ru
		for _, typ := range []byte(ru.types) {
			typ := typ
			for ki, kt := range keyTypes {
				kt := kt
				if !r.Thorough && ki > 1 {
					continue
				}
				r.Case("rules-"+typeName(typ), func(c *fw.Case) {
					proto := histProto(true)
					st := sut.SharedStack(proto)
					h := &histCtx{r: c.Rng, proto: proto, code: uint64(18 + c.Rng.Intn(2)), keyType: kt, hasIETF: true}
					s := c07Step(h, typ, "valid", ru.mut)
					c07Parse(c, st, ns, typ, s, ru.accept, ru.name)
				})
			}
		}
	}
	// (3) boundaries by configuration + whitespace padding
	for _, typ := range []byte("curd") {
		typ := typ
		for b := 0; b < r.N(4, 40); b++ {
			r.Case("boundaries-"+typeName(typ), func(c *fw.Case) { c07Boundaries(c, typ, ns) })
		}
	}
	// (4) configuration lists lose one entry at a time
	for b := 0; b < r.N(30, 400); b++ {
		r.Case("config-lists", func(c *fw.Case) { c07ConfigLists(c, ns) })
	}
	// (5) validator options
	for b := 0; b < r.N(6, 60); b++ {
		r.Case("validator-options", func(c *fw.Case) { c07Validators(c, ns) })
	}
}

func c07Parse(c *fw.Case, st *sut.Stack, ns string, typ byte, s *opStep, expect bool, rule string) {
	c.Evals(1)
	c.Sig(typ, s.Spec.Type, rule, expect)
	if rule == "valid" {
		c.Count("valid-accepted", 1)
	} else {
		c.Count("rule-violations", 1)
	}
	c.Journal(s.Built.Request)
	// the verdict on a request does not depend on what the same parser was asked before: half of the requests are first
	// parsed in batch mode (which skips the request-time rules) and have their reveal value / commitment extracted
	sandwich := c.Rng.Bool()
	if sandwich {
		c.Count("parsed-in-batch-mode-first", 1)
		st.Parser.ParseOperation(ns, s.Built.Request, true)
		st.Parser.GetRevealValue(s.Built.Request)
		st.Parser.GetCommitment(s.Built.Request)
	}
	if typ == 'c' && rule == "valid" && c.Rng.Bool() {
		// a twin of the create seen first by the same parser: same delta, same recovery commitment, another anchor origin / type (or
		// none) in the suffix data - another request, reported with its own suffix
		tw := *s.Spec
		pick := c.Rng.Intn(4)
		tw.SuffixDataEdit = func(sd map[string]interface{}) {
			switch pick {
			case 0:
				sd["anchorOrigin"] = "https://twin.example/" + fmt.Sprint(c.Rng.Intn(100))
			case 1:
				delete(sd, "anchorOrigin")
				sd["type"] = "tw" + fmt.Sprint(c.Rng.Intn(100))
			case 2:
				sd["anchorOrigin"] = map[string]interface{}{"twin": true}
			default:
				delete(sd, "anchorOrigin")
				delete(sd, "type")
			}
		}
		tb := tw.Build(c.Rng)
		c.Count("twin-creates", 1)
		if top, terr := st.Parser.Parse(ns, tb.Request); terr == nil {
			if want := oracle.MustModelHash(uint64(st.P.MultihashAlgorithms[0]), tb.SuffixData); top.UniqueSuffix != want || top.ID != ns+":"+want {
				c.Failf("operation-misreported", map[string]interface{}{"request": string(tb.Request), "got_suffix": top.UniqueSuffix, "got_id": top.ID, "expected_suffix": want}, "accepted create is reported with a suffix that is not the hash of its suffix data")
				return
			}
		}
	}
	op, err := st.Parser.Parse(ns, s.Built.Request)
	w := map[string]interface{}{"request": string(s.Built.Request), "type": typeName(typ), "rule": rule, "expected_accept": expect, "err": fmt.Sprint(err), "parsed_in_batch_mode_first": sandwich}
	if _, err2 := st.Parser.Parse(ns, s.Built.Request); (err2 == nil) != (err == nil) {
		w["second_err"] = fmt.Sprint(err2)
		c.Failf("repeated-parse-differs:"+rule, w, "%s (%s): first Parse returned err=%v, the identical second one err=%v", typeName(typ), rule, err, err2)
		return
	}
	if (err == nil) != expect {
		if expect {
			c.Failf("valid-refused:"+rule, w, "%s (%s): expected acceptance, parser refused: %v", typeName(typ), rule, err)
		} else {
			c.Failf("violation-accepted:"+rule, w, "%s violating rule %q was accepted", typeName(typ), rule)
		}
		return
	}
	if err != nil {
		return
	}
	// faithful report
	wantSuffix := s.Built.Suffix
	if typ == 'c' {
		wantSuffix = oracle.MustModelHash(uint64(st.P.MultihashAlgorithms[0]), s.Built.SuffixData)
	}
	if string(op.Type) != typeName(typ) || op.UniqueSuffix != wantSuffix || op.ID != ns+":"+wantSuffix || !bytes.Equal(op.OperationRequest, s.Built.Request) {
		w["got"] = map[string]interface{}{"type": op.Type, "suffix": op.UniqueSuffix, "id": op.ID, "request": string(op.OperationRequest)}
		w["expected_suffix"] = wantSuffix
		c.Failf("operation-misreported", w, "accepted %s is reported with wrong type/suffix/id/bytes", typeName(typ))
		return
	}
	if typ == 'c' || typ == 'r' {
		c.Count("anchor-origin-reported", 1)
		ga, _ := oracle.Generic(op.AnchorOrigin)
		ea, _ := oracle.Generic(s.Spec.AnchorOrigin)
		if !oracle.JSONEqual(ga, ea) {
			w["got_anchor_origin"], w["expected_anchor_origin"] = ga, ea
			c.Failf("anchor-origin-misreported", w, "accepted %s reports anchor origin %v, request says %v", typeName(typ), ga, ea)
			return
		}
	} else if op.AnchorOrigin != nil {
		c.Failf("anchor-origin-misreported", w, "%s reports an anchor origin", typeName(typ))
	}
	c.Sample(map[string]interface{}{"type": typeName(typ), "rule": rule, "request": string(s.Built.Request)})
}

func c07Boundaries(c *fw.Case, typ byte, ns string) {
	r := c.Rng
	kt := fw.Pick(r, gen.SigningKeyTypes)
	base := histProto(true)
	h := &histCtx{r: r, proto: base, code: uint64(18 + r.Intn(2)), keyType: kt, hasIETF: true}
	withNonce := typ != 'c' && r.Bool()
	nonASCII := r.Bool()
	s := c07Step(h, typ, "valid", func(h *histCtx, s *opStep) {
		if nonASCII && typ != 'd' {
			// multi-byte characters: every size limit counts bytes of the canonical form, not characters
			s.Spec.Patches = append(s.Spec.Patches, gen.PJSON(map[string]interface{}{"op": "add", "path": "/note", "value": "zażółć gęślą jaźń €😀" + fmt.Sprint(r.Intn(1000))}),
				gen.PAddServices(map[string]interface{}{"id": "svc-u", "type": "LinkedDomains", "serviceEndpoint": "https://example.com/straße/" + fmt.Sprint(r.Intn(100))}))
			s.Facts.Patches = s.Spec.Patches
		}
		if typ != 'c' {
			s.Spec.Signer = s.Spec.Signer // keep
			if withNonce {
				s.Spec.Signer = s.Spec.Signer.WithNonce(h.r, int(base.NonceSize))
			} else {
				k := *s.Spec.Signer
				k.Nonce = ""
				s.Spec.Signer = &k
			}
		}
	})
	req := s.Built.Request
	try := func(name string, p protocol.Protocol, request []byte, expect bool) {
		c.Evals(1)
		if expect {
			c.Count("boundary-accept", 1)
		} else {
			c.Count("boundary-refuse", 1)
		}
		c.Sig("boundary", typ, name, expect)
		_, err := sut.SharedStack(p).Parser.Parse(ns, request)
		if (err == nil) != expect {
			c.Failf("boundary:"+name, map[string]interface{}{"request": string(request), "boundary": name, "expected_accept": expect, "err": fmt.Sprint(err),
				"MaxOperationSize": p.MaxOperationSize, "MaxOperationHashLength": p.MaxOperationHashLength, "MaxDeltaSize": p.MaxDeltaSize, "NonceSize": p.NonceSize},
				"%s at boundary %s: expected accept=%v, got err=%v", typeName(typ), name, expect, err)
		}
	}
	// operation size
	p := base
	p.MaxOperationSize = uint(len(req))
	try("MaxOperationSize=len", p, req, true)
	p.MaxOperationSize = uint(len(req) - 1)
	try("MaxOperationSize=len-1", p, req, false)
	p.MaxOperationSize = uint(len(req) + 3)
	padded := append(append([]byte{}, req...), ' ', '\n', ' ')
	try("padded-to-limit", p, padded, true)
	try("padded-over-limit", p, append(padded, ' '), false)
	// hash length: the longest hash in the request decides
	longest := 0
	var hashes []string
	switch typ {
	case 'c':
		hashes = []string{s.Built.DeltaHash, s.Spec.RecoveryCommitment, s.Spec.UpdateCommitment}
	case 'u':
		hashes = []string{s.Built.Reveal, s.Built.DeltaHash, s.Spec.UpdateCommitment}
	case 'r':
		hashes = []string{s.Built.Reveal, s.Built.DeltaHash, s.Spec.UpdateCommitment, s.Spec.RecoveryCommitment}
	case 'd':
		hashes = []string{s.Built.Reveal}
	}
	for _, x := range hashes {
		if len(x) > longest {
			longest = len(x)
		}
	}
	p = base
	p.MaxOperationHashLength = uint(longest)
	try("MaxOperationHashLength=longest", p, req, true)
	p.MaxOperationHashLength = uint(longest - 1)
	try("MaxOperationHashLength=longest-1", p, req, false)
	// delta size
	if typ != 'd' {
		dsize := len(oracle.MustJCS(s.Built.Delta))
		p = base
		p.MaxDeltaSize = uint(dsize)
		try("MaxDeltaSize=size", p, req, true)
		p.MaxDeltaSize = uint(dsize - 1)
		try("MaxDeltaSize=size-1", p, req, false)
	}
	// nonce size
	if withNonce {
		p = base
		try("NonceSize=size", p, req, true)
		p.NonceSize = base.NonceSize - 1
		try("NonceSize=size-1", p, req, false)
		p.NonceSize = base.NonceSize + 1
		try("NonceSize=size+1", p, req, false)
	} else if typ != 'c' {
		p = base
		p.NonceSize = uint64(r.Range(0, 64))
		try("no-nonce-any-NonceSize", p, req, true)
	}
	c.Sample(map[string]interface{}{"type": typeName(typ), "request_size": len(req), "longest_hash": longest})
}

func without(list []string, x string) []string {
	var out []string
	for _, e := range list {
		if e != x {
			out = append(out, e)
		}
	}
	return out
}

func c07ConfigLists(c *fw.Case, ns string) {
	r := c.Rng
	base := histProto(true)
	typ := "curd"[r.Intn(4)]
	kt := fw.Pick(r, gen.SigningKeyTypes)
	code := uint64(18 + r.Intn(2))
	h := &histCtx{r: r, proto: base, code: code, keyType: kt, hasIETF: true}
	s := c07Step(h, typ, "valid", nil)
	usedActions := map[string]bool{}
	for _, raw := range s.Spec.Patches {
		usedActions[fmt.Sprint(raw.(map[string]interface{})["action"])] = true
	}
	alg := ""
	if s.Spec.Signer != nil {
		alg = s.Spec.Signer.Alg()
	}
	try := func(name string, p protocol.Protocol, expect bool) {
		c.Evals(1)
		c.Count("config-variations", 1)
		c.Sig("cfg", typ, name, expect)
		_, err := sut.SharedStack(p).Parser.Parse(ns, s.Built.Request)
		if (err == nil) != expect {
			c.Failf("config:"+name, map[string]interface{}{"request": string(s.Built.Request), "variation": name, "expected_accept": expect, "err": fmt.Sprint(err),
				"Patches": p.Patches, "SignatureAlgorithms": p.SignatureAlgorithms, "KeyAlgorithms": p.KeyAlgorithms, "MultihashAlgorithms": p.MultihashAlgorithms},
				"%s under %s: expected accept=%v, got err=%v", typeName(typ), name, expect, err)
		}
	}
	try("baseline", base, true)
	for _, a := range base.Patches {
		p := base
		p.Patches = without(base.Patches, a)
		try("patches-without-"+a, p, typ == 'd' || !usedActions[a])
	}
	for _, a := range base.SignatureAlgorithms {
		p := base
		p.SignatureAlgorithms = without(base.SignatureAlgorithms, a)
		try("signature-algorithms-without-"+a, p, typ == 'c' || a != alg)
	}
	for _, a := range base.KeyAlgorithms {
		p := base
		p.KeyAlgorithms = without(base.KeyAlgorithms, a)
		try("key-algorithms-without-"+a, p, typ == 'c' || a != kt)
	}
	for _, a := range []uint{18, 19} {
		p := base
		p.MultihashAlgorithms = []uint{37 - a} // the other one only
		try(fmt.Sprintf("multihash-algorithms-without-%d", a), p, uint64(a) != code)
	}
}

type rejectOrigin struct{ seen []interface{} }

func (v *rejectOrigin) Validate(o interface{}) error {
	v.seen = append(v.seen, o)
	if s, ok := o.(string); ok && s == "https://forbidden.example" {
		return errors.New("anchor origin not allowed")
	}
	return nil
}

func c07Validators(c *fw.Case, ns string) {
	r := c.Rng
	base := histProto(true)
	for _, typ := range []byte("cr") {
		for _, origin := range []interface{}{"https://forbidden.example", "https://fine.example", nil, map[string]interface{}{"k": "v"}} {
			ov := &rejectOrigin{}
			st := sut.NewStack(base, operationparser.WithAnchorOriginValidator(ov))
			h := &histCtx{r: r, proto: base, code: 18, keyType: fw.Pick(r, gen.SigningKeyTypes), hasIETF: true}
			s := c07Step(h, typ, "valid", func(h *histCtx, s *opStep) { s.Spec.AnchorOrigin = origin })
			expect := origin != "https://forbidden.example"
			c.Evals(1)
			c.Count("config-variations", 1)
			c.Sig("origin-validator", typ, fmt.Sprint(origin), expect)
			_, err := st.Parser.Parse(ns, s.Built.Request)
			w := map[string]interface{}{"request": string(s.Built.Request), "origin": origin, "validator_saw": ov.seen, "err": fmt.Sprint(err)}
			if (err == nil) != expect {
				c.Failf("anchor-origin-validator", w, "anchor origin validator verdict not honoured (origin %v, err %v)", origin, err)
				continue
			}
			eo, _ := oracle.Generic(origin)
			if len(ov.seen) != 1 {
				c.Failf("anchor-origin-validator-calls", w, "anchor origin validator called %d times", len(ov.seen))
				continue
			}
			if g, _ := oracle.Generic(ov.seen[0]); !oracle.JSONEqual(g, eo) {
				c.Failf("anchor-origin-validator-argument", w, "anchor origin validator received %v, request says %v", g, eo)
			}
		}
	}
}
