package checks

import (
	"encoding/json"
	"errors"
	"fmt"
	"github.com/trustbloc/sidetree-go/pkg/document"
	"github.com/trustbloc/sidetree-go/pkg/patch"
	"github.com/trustbloc/sidetree-go/pkg/versions/1_0/operationparser/patchvalidator"
	"runtime"
	"sort"
	"strings"
	"sync"
	"time"

	"github.com/anishathalye/porcupine"
	vdrapi "github.com/trustbloc/did-go/vdr/api"

	"github.com/trustbloc/sidetree-go/pkg/api/operation"
	"github.com/trustbloc/sidetree-go/pkg/api/protocol"
	"github.com/trustbloc/sidetree-go/pkg/canonicalizer"
	"github.com/trustbloc/sidetree-go/pkg/docutil"
	"github.com/trustbloc/sidetree-go/pkg/hashing"
	"github.com/trustbloc/sidetree-go/pkg/vdr/sidetreelongform"
	"github.com/trustbloc/sidetree-go/pkg/vdr/sidetreelongform/dochandler"
	"github.com/trustbloc/sidetree-go/pkg/vdr/sidetreelongform/dochandler/protocol/nsprovider"
	"github.com/trustbloc/sidetree-go/pkg/vdr/sidetreelongform/dochandler/protocol/verprovider"
	"github.com/trustbloc/sidetree-go/pkg/vdr/sidetreelongform/dochandler/protocolversion/clientregistry"
	vcommon "github.com/trustbloc/sidetree-go/pkg/vdr/sidetreelongform/dochandler/protocolversion/versions/common"
	"github.com/trustbloc/sidetree-go/pkg/versions/1_0/doctransformer/didtransformer"
	"github.com/trustbloc/sidetree-go/pkg/versions/1_0/doctransformer/doctransformer"

	"verifharness/fw"
	"verifharness/gen"
	"verifharness/oracle"
	"verifharness/sut"
)

func init() {
	fw.Register(&fw.Check{
		ID:          "C20",
		Rule:        "cases (binary built with -race; GORACE halt_on_error=0, reports counted from the log and deduplicated by stack pair): (1) stress: G in {2,8,32} goroutines x GOMAXPROCS in {1,2,4,16} issue interleaved parse / apply / compose / transform / resolve / create / read / lookup calls against ONE shared instance of each component on distinct inputs; every result (canonical JSON or error text) is compared with the same call made sequentially on fresh instances; (2) linearizability: concurrent Add/ForNamespace on the namespace provider and Register/CreateClientVersion on the client registry over 3..6 keys with a unique provider / factory per write, recorded at the client boundary with one monotonic clock and checked per key by porcupine against a sequential map model (duplicate Register => 'duplicate'); checker timeout => inconclusive. Evidence reports calls per component, overlapping call pairs from different goroutines, and the outcome split of lookups that raced with their key's registration. distinct = (G, GOMAXPROCS, call-mix) for stress and distinct per-key history shapes for linearizability.",
		Assumptions: []string{"the Go race detector sees only executed accesses under the schedules the runtime produced", "porcupine's checker; harness recorder state is per goroutine"},
		Require:     []string{"stress-calls", "overlapping-call-pairs", "histories", "linearizable-partitions", "lookup-found-while-racing", "lookup-notfound-while-racing", "register-duplicate-observed"},
		Workers:     func(string) int { return 6 },
		Race:        func(string) bool { return true },
		CaseTimeout: 600,
		// a case normally takes seconds; one that has not ended after ten minutes is a lock-up under concurrency (the in-case
		// detector below reports registry lock-ups with the goroutine dump long before that)
		TimeoutIsViolation: true,
		Run:                runC20,
	})
}

// ---------------------------------------------------------------------------
// stress + sequential == concurrent

type c20Env struct {
	st      *sut.Stack
	st0     *sut.Stack // the same protocol with MaxOperationTimeDelta left at zero (the shipped configuration leaves it unset)
	didTr   *didtransformer.Transformer
	docTr   *doctransformer.Transformer
	handler *dochandler.DocumentHandler
	vdr     *sidetreelongform.VDR
	nsp     *nsprovider.Provider
	reg     *clientregistry.Registry
	verp    *verprovider.ClientVersionProvider
	multi   *verprovider.ClientVersionProvider // three versions with different genesis times
	cfg     *vcommon.ProtocolConfig            // ONE configuration object (and method-context slice) handed to every CreateClientVersion call
}

func newC20Env() (*c20Env, error) {
	e := &c20Env{st: sut.NewStack(histProto(true))}
	p0 := histProto(true)
	p0.MaxOperationTimeDelta = 0
	e.st0 = sut.NewStack(p0)
	e.didTr = didtransformer.New(didtransformer.WithBase(true), didtransformer.WithIncludePublishedOperations(true), didtransformer.WithIncludeUnpublishedOperations(true),
		didtransformer.WithMethodContext([]string{"https://w3id.org/did/method/v1", "https://example.org/ctx"}))
	e.docTr = doctransformer.New(doctransformer.WithIncludePublishedOperations(true))
	var err error
	if e.handler, err = dochandler.New("did:ion"); err != nil {
		return nil, err
	}
	if e.vdr, err = sidetreelongform.New(); err != nil {
		return nil, err
	}
	e.reg = clientregistry.New()
	// the list repeats an entry and names the main DID context: whatever the library makes of that, it makes a copy for itself
	e.cfg = &vcommon.ProtocolConfig{EnableBase: true, MethodContext: append(make([]string, 0, 8), "https://w3id.org/did/method/v1", "https://www.w3.org/ns/did/v1",
		"https://example.org/ctx", "https://w3id.org/did/method/v1", "https://example.org/ctx2")}
	v, err := e.reg.CreateClientVersion("1.0", &vcommon.ProtocolConfig{EnableBase: true})
	if err != nil {
		return nil, err
	}
	if e.verp, err = verprovider.New([]protocol.Version{v}); err != nil {
		return nil, err
	}
	var vs []protocol.Version
	for _, g := range []uint64{5000, 0, 1000} {
		vs = append(vs, &vcommon.ProtocolVersion{VersionStr: fmt.Sprintf("v@%d", g), P: protocol.Protocol{GenesisTime: g}})
	}
	if e.multi, err = verprovider.New(vs); err != nil {
		return nil, err
	}
	e.nsp = nsprovider.New()
	for _, ns := range []string{"did:ion", "did:sidetree", "did:orb"} {
		e.nsp.Add(ns, e.verp)
	}
	return e, nil
}

type keepFn func(again func() string)

type c20Call struct {
	comp string
	// f runs the call on the shared environment and returns its canonical result. Through keep it may hand over a
	// function that re-serializes the retained result object after all calls have finished: a result must not change
	// because other calls ran on the same shared instance afterwards.
	f func(e *c20Env, keep keepFn) string
}

func resStr(v interface{}, err error) string {
	if err != nil {
		return "ERR:" + err.Error()
	}
	b, jerr := oracle.JCSValue(oracle.MustGenericSafe(v))
	if jerr != nil {
		return fmt.Sprintf("VAL:%v", v)
	}
	return string(b)
}

// c20Calls prepares n calls on distinct inputs (all inputs are built before any call runs).
func c20Calls(r *fw.Rand, n int) []c20Call {
	var calls []c20Call
	proto := histProto(true)
	for len(calls) < n {
		kt := gen.SigningKeyTypes[r.Intn(2)]
		h := &histCtx{r: r, proto: proto, code: uint64(18 + r.Intn(2)), keyType: kt, hasIETF: true}
		cs := planStep(h, 'c', "valid", 1000, nil, nil)
		class := "valid"
		if r.Chance(1, 4) {
			cl := classesFor('u')
			class = cl[r.Intn(len(cl))].name
		}
		us := planStep(h, "urd"[r.Intn(3)], class, 2000, nil, nil)
		suffix := h.ch.Suffix
		creq, ureq := cs.Built.Request, us.Built.Request
		// parse
		calls = append(calls, c20Call{"parser", func(e *c20Env, keep keepFn) string {
			op, err := e.st.Parser.Parse("did:ion", creq)
			if err != nil {
				return resStr(nil, err)
			}
			return resStr(map[string]interface{}{"t": op.Type, "s": op.UniqueSuffix, "id": op.ID, "ao": op.AnchorOrigin}, nil)
		}})
		calls = append(calls, c20Call{"parser", func(e *c20Env, keep keepFn) string {
			op, err := e.st.Parser.Parse("did:ion", ureq)
			if err != nil {
				return resStr(nil, err)
			}
			rv, _ := e.st.Parser.GetRevealValue(ureq)
			cm, _ := e.st.Parser.GetCommitment(ureq)
			return resStr(map[string]interface{}{"t": op.Type, "s": op.UniqueSuffix, "rv": rv, "cm": cm}, nil)
		}})
		// apply create then the second operation (own state per call)
		calls = append(calls, c20Call{"applier", func(e *c20Env, keep keepFn) string {
			s1, err := e.st.Applier.Apply(anchoredOf(cs, suffix), &protocol.ResolutionModel{})
			if err != nil {
				return resStr(nil, err)
			}
			s2, err := e.st.Applier.Apply(anchoredOf(us, suffix), s1)
			if err != nil {
				return "AFTER-CREATE:" + resStr(s1.Doc, nil) + "|" + resStr(nil, err)
			}
			return resStr(map[string]interface{}{"doc": s2.Doc, "u": s2.UpdateCommitment, "r": s2.RecoveryCommitment, "d": s2.Deactivated, "v": s2.VersionID}, nil)
		}})
		// an operation that names only the start of its window, through the applier whose protocol leaves the window length at zero
		{
			p0 := proto
			p0.MaxOperationTimeDelta = 0
			h0 := &histCtx{r: r, proto: p0, code: 18, keyType: gen.Ed25519, hasIETF: true}
			c0 := planStep(h0, 'c', "valid", 1000, nil, nil)
			at := uint64(2000 + r.Intn(3))
			u0 := planStep(h0, "urd"[r.Intn(3)], "valid", 2000, nil, func(h *histCtx, s *opStep) {
				s.Spec.AnchorFrom, s.Spec.AnchorUntil = 2001, 0
				s.Anchor.Time = at
			})
			sfx0 := h0.ch.Suffix
			calls = append(calls, c20Call{"applier", func(e *c20Env, keep keepFn) string {
				s1, err := e.st0.Applier.Apply(anchoredOf(c0, sfx0), &protocol.ResolutionModel{})
				if err != nil {
					return resStr(nil, err)
				}
				s2, err := e.st0.Applier.Apply(anchoredOf(u0, sfx0), s1)
				if err != nil {
					return "AFTER-CREATE:" + resStr(s1.Doc, nil) + "|" + resStr(nil, err)
				}
				return resStr(map[string]interface{}{"doc": s2.Doc, "u": s2.UpdateCommitment, "r": s2.RecoveryCommitment, "d": s2.Deactivated, "v": s2.VersionID}, nil)
			}})
		}
		// compose
		doc, _ := startDoc(r, true)
		pl := safePatchList(r, doc, 5)
		calls = append(calls, c20Call{"composer", func(e *c20Env, keep keepFn) string {
			ld, _ := sut.ToDoc(doc)
			lp, _ := sut.ToPatches(pl)
			out, err := e.st.Composer.ApplyPatches(ld, lp)
			if err == nil {
				keep(func() string { return resStr(out, nil) })
			}
			return resStr(out, err)
		}})
		// transform (own model per call: the metadata builder sorts the lists in place)
		_, tdoc := c18State(r)
		pubs, unpubs := c18OpList(r, "p"), c18OpList(r, "u")
		calls = append(calls, c20Call{"didtransformer", func(e *c20Env, keep keepFn) string {
			ld, _ := sut.ToDoc(tdoc)
			rm := &protocol.ResolutionModel{Doc: ld, UpdateCommitment: "u", RecoveryCommitment: "r", VersionID: "v", CreatedTime: 5,
				PublishedOperations: append([]*operation.AnchoredOperation{}, pubs...), UnpublishedOperations: append([]*operation.AnchoredOperation{}, unpubs...)}
			res, err := e.didTr.TransformDocument(rm, docutil.GetTransformationInfoForPublished("did:ion", "did:ion:"+suffix, suffix, rm))
			if err == nil {
				keep(func() string { return resStr(res, nil) })
			}
			return resStr(res, err)
		}})
		calls = append(calls, c20Call{"doctransformer", func(e *c20Env, keep keepFn) string {
			ld, _ := sut.ToDoc(tdoc)
			rm := &protocol.ResolutionModel{Doc: ld, PublishedOperations: append([]*operation.AnchoredOperation{}, pubs...)}
			res, err := e.docTr.TransformDocument(rm, protocol.TransformationInfo{"id": "doc:" + suffix, "published": true})
			return resStr(res, err)
		}})
		// long-form resolution, VDR create / read (shipped limits: small documents)
		small := []interface{}{gen.PAddKeys(gen.DocKey(r, "k1", gen.TJwk2020, []string{"authentication"}, "jwk")), gen.PAddServices(gen.RandService(r, "svc1"))}
		h2 := &histCtx{r: r, proto: proto, code: 18, keyType: gen.Ed25519, hasIETF: false}
		sc := planStep(h2, 'c', "valid", 1000, nil, func(h *histCtx, s *opStep) { s.Spec.Patches = small })
		did := "did:ion:" + sc.Built.Suffix + ":" + oracle.B64(sc.Built.Request)
		if r.Chance(1, 4) {
			did = did[:len(did)-3] + "AAA" // tampered: must be refused identically
		}
		sreq := sc.Built.Request
		// the same suffix with another initial state (a valid DID and a tampered one side by side, several times): each call gets its own answer
		goodDID := "did:ion:" + sc.Built.Suffix + ":" + oracle.B64(sc.Built.Request)
		sc2 := planStep(&histCtx{r: r, proto: proto, code: 18, keyType: gen.Ed25519, hasIETF: false}, 'c', "valid", 1000, nil, func(h *histCtx, s *opStep) { s.Spec.Patches = small })
		twinDID := "did:ion:" + sc.Built.Suffix + ":" + oracle.B64(sc2.Built.Request)
		for rep := 0; rep < 3; rep++ {
			for _, d := range []string{goodDID, twinDID} {
				d := d
				calls = append(calls, c20Call{"dochandler", func(e *c20Env, keep keepFn) string {
					res, err := e.handler.ResolveDocument(d)
					return resStr(res, err)
				}})
			}
		}
		calls = append(calls, c20Call{"dochandler", func(e *c20Env, keep keepFn) string {
			res, err := e.handler.ResolveDocument(did)
			if err == nil {
				keep(func() string { return resStr(res, nil) })
			}
			return resStr(res, err)
		}})
		// the same DID with a network segment between method and suffix (each call its own network name): whatever the handler and
		// the VDR make of it, they make the same of it when asked concurrently
		for rep := 0; rep < 2; rep++ {
			netDID := "did:ion:" + fw.Pick(r, []string{"test", "net", "main", "dev"}) + fmt.Sprint(r.Intn(40)) + ":" + sc.Built.Suffix + ":" + oracle.B64(sc.Built.Request)
			calls = append(calls, c20Call{"dochandler", func(e *c20Env, keep keepFn) string {
				res, err := e.handler.ResolveDocument(netDID)
				return resStr(res, err)
			}})
			calls = append(calls, c20Call{"vdr", func(e *c20Env, keep keepFn) string {
				res, err := e.vdr.Read(netDID)
				if err != nil {
					return resStr(nil, err)
				}
				b, jerr := res.JSONBytes()
				return resStr(string(b), jerr)
			}})
		}
		calls = append(calls, c20Call{"dochandler", func(e *c20Env, keep keepFn) string {
			res, err := e.handler.ProcessOperation(sreq)
			if err == nil {
				keep(func() string { return resStr(res, nil) })
			}
			return resStr(res, err)
		}})
		calls = append(calls, c20Call{"vdr", func(e *c20Env, keep keepFn) string {
			res, err := e.vdr.Read(did)
			if err != nil {
				return resStr(nil, err)
			}
			b, jerr := res.JSONBytes()
			return resStr(string(b), jerr)
		}})
		dd, _, _ := c17Doc(r)
		// update / recovery keys of every type the VDR takes (secp256k1 keys go through the library's own JWK encoder)
		ukt := fw.Pick(r, []string{gen.Ed25519, gen.P256, gen.P384, gen.Secp256k1, gen.Secp256k1})
		uk, rk := gen.NewKey(r, ukt), gen.NewKey(r, fw.Pick(r, []string{gen.P256, gen.Secp256k1, gen.Ed25519}))
		calls = append(calls, c20Call{"vdr", func(e *c20Env, keep keepFn) string {
			cp := *dd
			res, err := e.vdr.Create(&cp, vdrapi.WithOption(sidetreelongform.UpdatePublicKeyOpt, uk.Public()), vdrapi.WithOption(sidetreelongform.RecoveryPublicKeyOpt, rk.Public()))
			if err != nil {
				return resStr(nil, err)
			}
			return res.DIDDocument.ID
		}})
		// ... one more with both keys on secp256k1 (the library's own JWK encoder, not the JOSE library's) and a document of its own
		{
			doc2, _, _ := c17Doc(r)
			uk2, rk2 := gen.NewKey(r, gen.Secp256k1), gen.NewKey(r, gen.Secp256k1)
			calls = append(calls, c20Call{"vdr", func(e *c20Env, keep keepFn) string {
				cp := *doc2
				res, err := e.vdr.Create(&cp, vdrapi.WithOption(sidetreelongform.UpdatePublicKeyOpt, uk2.Public()), vdrapi.WithOption(sidetreelongform.RecoveryPublicKeyOpt, rk2.Public()))
				if err != nil {
					return resStr(nil, err)
				}
				return res.DIDDocument.ID
			}})
		}
		// ... and with the keys left to the VDR (it draws them itself: the DID differs from call to call, so the call reports only
		// whether what it got resolves to itself)
		if r.Chance(1, 2) {
			ownDoc, _, _ := c17Doc(r) // a document of its own: calls do not share inputs
			withUpdateKey := r.Bool()
			calls = append(calls, c20Call{"vdr", func(e *c20Env, keep keepFn) string {
				cp := *ownDoc
				opts := []vdrapi.DIDMethodOption{}
				if withUpdateKey {
					opts = append(opts, vdrapi.WithOption(sidetreelongform.UpdatePublicKeyOpt, uk.Public()))
				}
				res, err := e.vdr.Create(&cp, opts...)
				if err != nil {
					return resStr(nil, err)
				}
				back, err := e.vdr.Read(res.DIDDocument.ID)
				if err != nil || back.DIDDocument.ID != res.DIDDocument.ID {
					return "created DID does not resolve to itself: " + res.DIDDocument.ID + " " + fmt.Sprint(err)
				}
				return "created-with-own-keys:resolves"
			}})
		}
		// canonicalizer / hashing directly, on values with control characters, all Unicode planes and every number class
		obj := gen.RandObject(r, 3)
		obj["ctl"] = "a\x01b\x0b\x1f" + gen.RandString(r, 6)
		rawObj := gen.Spell(r, obj, gen.AllSpell)
		calls = append(calls, c20Call{"canonicalizer", func(e *c20Env, keep keepFn) string {
			b1, err := canonicalizer.MarshalCanonical(rawObj)
			if err != nil {
				return resStr(nil, err)
			}
			b2, err := canonicalizer.MarshalCanonical(obj)
			h, _ := hashing.CalculateModelMultihash(obj, 18)
			return string(b1) + "|" + string(b2) + "|" + h + fmt.Sprint(err)
		}})
		// a create whose suffix data / delta carry such strings, through the shared document handler
		weird := []interface{}{gen.PAddServices(map[string]interface{}{"id": "svc1", "type": "t\x02\x1e" + fmt.Sprint(r.Intn(100)), "serviceEndpoint": "https://weird.example"}),
			gen.PAddKeys(gen.DocKey(r, "k1", gen.TJwk2020, []string{"authentication"}, "jwk"))}
		h3 := &histCtx{r: r, proto: proto, code: 18, keyType: gen.Ed25519, hasIETF: false}
		wc := planStep(h3, 'c', "valid", 1000, nil, func(h *histCtx, s *opStep) {
			s.Spec.Patches = weird
			s.Spec.AnchorOrigin = "origin\x03\x7f" + fmt.Sprint(r.Intn(1000))
		})
		wreq := wc.Built.Request
		calls = append(calls, c20Call{"dochandler", func(e *c20Env, keep keepFn) string {
			res, err := e.handler.ProcessOperation(wreq)
			return resStr(res, err)
		}})
		// version provider with several versions: many lookups for different times per call
		times := []uint64{0, 1000, 5000, 7, 1000, 0, 5000, 5000, 0}
		offs := r.Intn(len(times))
		calls = append(calls, c20Call{"verprovider", func(e *c20Env, keep keepFn) string {
			var sb strings.Builder
			for i := 0; i < 120; i++ {
				t := times[(i*7+offs)%len(times)]
				v, err := e.multi.Get(t)
				if err != nil {
					sb.WriteString("E,")
					continue
				}
				sb.WriteString(v.Version())
				sb.WriteByte(',')
			}
			cur, _ := e.multi.Current()
			return sb.String() + cur.Version()
		}})
		// registries: lookups of keys registered before the run
		ns := fw.Pick(r, []string{"did:ion", "did:sidetree", "did:orb", "did:unknown"})
		calls = append(calls, c20Call{"nsprovider", func(e *c20Env, keep keepFn) string {
			cvp, err := e.nsp.ForNamespace(ns)
			if err != nil {
				return resStr(nil, err)
			}
			v, err := cvp.Current()
			if err != nil {
				return resStr(nil, err)
			}
			g, err := cvp.Get(0)
			if err != nil {
				return resStr(nil, err)
			}
			return "version:" + v.Version() + "/" + g.Version()
		}})
		ver := fw.Pick(r, []string{"1.0", "1", "1.0.5", "2.0", ""})
		calls = append(calls, c20Call{"clientregistry", func(e *c20Env, keep keepFn) string {
			v, err := e.reg.CreateClientVersion(ver, &vcommon.ProtocolConfig{EnableBase: true, MethodContext: []string{"ctx"}})
			if err != nil {
				return resStr(nil, err)
			}
			return "version:" + v.Version() + fmt.Sprint(v.Protocol().MaxOperationSize)
		}})
		// client versions created from the one shared configuration object, and what their transformer emits as @context
		calls = append(calls, c20Call{"clientregistry", func(e *c20Env, keep keepFn) string {
			v, err := e.reg.CreateClientVersion("1.0", e.cfg)
			if err != nil {
				return resStr(nil, err)
			}
			rm := &protocol.ResolutionModel{Doc: document.Document{}, RecoveryCommitment: "r", UpdateCommitment: "u"}
			res, err := v.DocumentTransformer().TransformDocument(rm, protocol.TransformationInfo{"id": "did:ion:EiShared", "published": true})
			if err != nil {
				return resStr(nil, err)
			}
			b, _ := json.Marshal(res.Document["@context"])
			return "ctx:" + string(b)
		}})
		calls = append(calls, c20Call{"didtransformer", func(e *c20Env, keep keepFn) string {
			tr := didtransformer.New(didtransformer.WithMethodContext(e.cfg.MethodContext), didtransformer.WithBase(true))
			rm := &protocol.ResolutionModel{Doc: document.Document{}, RecoveryCommitment: "r", UpdateCommitment: "u"}
			res, err := tr.TransformDocument(rm, protocol.TransformationInfo{"id": "did:ion:EiShared2", "published": true})
			if err != nil {
				return resStr(nil, err)
			}
			b, _ := json.Marshal(res.Document["@context"])
			return "ctx:" + string(b)
		}})
	}
	return calls[:n]
}

type span struct {
	g          int
	start, end int64
	comp       string
}

func c20Stress(c *fw.Case, goroutines, procs, ncalls int) {
	r := c.Rng
	calls := c20Calls(r, ncalls)
	// sequential reference on fresh instances
	seqEnv, err := newC20Env()
	if err != nil {
		c.Failf("env", nil, "cannot build components: %v", err)
		return
	}
	want := make([]string, len(calls))
	noKeep := func(func() string) {}
	// in every other case the concurrent run comes FIRST, so that anything initialised on first use is first used concurrently
	seqFirst := c.Idx%2 == 1
	sequential := func() {
		for i, cl := range calls {
			want[i] = cl.f(seqEnv, noKeep)
		}
	}
	if seqFirst {
		sequential()
	} else {
		c.Count("concurrent-run-before-sequential-reference", 1)
	}
	// concurrent run on ONE shared instance of each component
	env, _ := newC20Env()
	old := runtime.GOMAXPROCS(procs)
	defer runtime.GOMAXPROCS(old)
	got := make([]string, len(calls))
	kept := make([]func() string, len(calls)) // slot i is written only by the goroutine executing call i
	spans := make([]span, len(calls))
	var wg sync.WaitGroup
	startGate := make(chan struct{})
	t0 := time.Now()
	order := r.Perm(len(calls))
	for g := 0; g < goroutines; g++ {
		wg.Add(1)
		go func(g int) {
			defer wg.Done()
			<-startGate
			for k := g; k < len(order); k += goroutines {
				i := order[k]
				func() {
					defer func() {
						if rec := recover(); rec != nil {
							got[i] = fmt.Sprintf("PANIC:%v", rec)
						}
					}()
					s := time.Since(t0).Nanoseconds()
					got[i] = calls[i].f(env, func(again func() string) { kept[i] = again })
					spans[i] = span{g: g, start: s, end: time.Since(t0).Nanoseconds(), comp: calls[i].comp}
				}()
			}
		}(g)
	}
	close(startGate)
	// a call that never returns is a lock-up under concurrency (every call returns within milliseconds when made alone): reported
	// here with the goroutine dump, long before the case watchdog
	finished := make(chan struct{})
	go func() { wg.Wait(); close(finished) }()
	select {
	case <-finished:
	case <-time.After(120 * time.Second):
		buf := make([]byte, 1<<17)
		buf = buf[:runtime.Stack(buf, true)]
		stuck := map[string]int{}
		for i := range calls {
			if got[i] == "" {
				stuck[calls[i].comp]++
			}
		}
		c.Failf("lock-up:stress", map[string]interface{}{"goroutines": goroutines, "GOMAXPROCS": procs, "calls_not_returned_by_component": stuck, "stacks": firstN(string(buf), 8000)},
			"concurrent calls on shared instances did not all return within 120 s (%v calls outstanding)", stuck)
		return
	}
	if !seqFirst {
		sequential()
	}
	c.Evals(len(calls))
	c.Count("stress-calls", len(calls))
	perComp := map[string]int{}
	for i := range calls {
		perComp[calls[i].comp]++
		if got[i] != want[i] {
			c.Failf("concurrent-result-differs:"+calls[i].comp, map[string]interface{}{"component": calls[i].comp, "sequential": want[i], "concurrent": got[i], "goroutines": goroutines, "GOMAXPROCS": procs},
				"%s: result of a concurrent call differs from the same call made sequentially", calls[i].comp)
			break
		}
	}
	for k, v := range perComp {
		c.Count("calls:"+k, v)
	}
	for i := range calls {
		if kept[i] == nil {
			continue
		}
		c.Count("retained-results-rechecked", 1)
		if again := kept[i](); again != got[i] {
			c.Failf("retained-result-changed:"+calls[i].comp, map[string]interface{}{"component": calls[i].comp, "at_return": got[i], "after_all_calls": again, "goroutines": goroutines, "GOMAXPROCS": procs},
				"%s: a result changed after other calls ran on the same shared instance", calls[i].comp)
			break
		}
	}
	// overlap statistics: pairs of calls from different goroutines whose intervals intersect
	idx := make([]int, len(spans))
	for i := range idx {
		idx[i] = i
	}
	sort.Slice(idx, func(a, b int) bool { return spans[idx[a]].start < spans[idx[b]].start })
	overlaps, sameComp := 0, 0
	patterns := map[string]bool{}
	for a := 0; a < len(idx); a++ {
		sa := spans[idx[a]]
		for b := a + 1; b < len(idx) && spans[idx[b]].start < sa.end; b++ {
			sb := spans[idx[b]]
			if sb.g != sa.g {
				overlaps++
				if sa.comp == sb.comp {
					sameComp++
				}
				patterns[sa.comp+"|"+sb.comp] = true
			}
		}
	}
	c.Count("overlapping-call-pairs", overlaps)
	c.Count("overlapping-call-pairs-same-component", sameComp)
	c.Sig("stress", goroutines, procs, len(patterns))
	for p := range patterns {
		c.Sig("overlap", p)
	}
	c.Sample(map[string]interface{}{"goroutines": goroutines, "GOMAXPROCS": procs, "calls": len(calls), "overlapping_pairs": overlaps, "distinct_overlap_patterns": len(patterns)})
}

// c20Volume sends a few thousand distinct, correctly signed operations through ONE applier from several goroutines (each on its own
// previous state): whatever the applier keeps between calls has to cope with more entries than it cares to keep, while in use.
func c20Volume(c *fw.Case, n, goroutines int) {
	r := c.Rng
	proto := histProto(true)
	ref, shared := sut.NewStack(proto), sut.NewStack(proto)
	type item struct {
		op   *operation.AnchoredOperation
		prev *protocol.ResolutionModel
		want string
	}
	show := func(s *protocol.ResolutionModel, err error) string {
		if err != nil {
			return resStr(nil, err)
		}
		return resStr(map[string]interface{}{"doc": s.Doc, "u": s.UpdateCommitment, "r": s.RecoveryCommitment, "d": s.Deactivated, "v": s.VersionID}, nil)
	}
	small := []interface{}{gen.PAddKeys(gen.DocKey(r, "k1", gen.TJwk2020, []string{"authentication"}, "jwk"))}
	items := make([]item, 0, n)
	for i := 0; i < n; i++ {
		h := &histCtx{r: r, proto: proto, code: 18, keyType: gen.Ed25519, hasIETF: false}
		cs := planStep(h, 'c', "valid", 1000, nil, func(h *histCtx, s *opStep) { s.Spec.Patches = small })
		typ := "uuurd"[i%5]
		us := planStep(h, typ, "valid", 2000, nil, func(h *histCtx, s *opStep) {
			if typ != 'd' {
				s.Spec.Patches = []interface{}{gen.PAddAka(fmt.Sprintf("did:example:%d", i))}
			}
		})
		prev, err := ref.Applier.Apply(anchoredOf(cs, h.ch.Suffix), &protocol.ResolutionModel{})
		if err != nil {
			c.Failf("env", map[string]interface{}{"err": err.Error()}, "valid create refused: %v", err)
			return
		}
		op := anchoredOf(us, h.ch.Suffix)
		items = append(items, item{op: op, prev: prev, want: show(ref.Applier.Apply(anchoredOf(us, h.ch.Suffix), prev))})
	}
	got := make([]string, n)
	var wg sync.WaitGroup
	gate := make(chan struct{})
	for g := 0; g < goroutines; g++ {
		wg.Add(1)
		go func(g int) {
			defer wg.Done()
			<-gate
			for i := g; i < n; i += goroutines {
				func() {
					defer func() {
						if rec := recover(); rec != nil {
							got[i] = fmt.Sprintf("PANIC:%v", rec)
						}
					}()
					got[i] = show(shared.Applier.Apply(items[i].op, items[i].prev))
				}()
			}
		}(g)
	}
	done := make(chan struct{})
	go func() { wg.Wait(); close(done) }()
	close(gate)
	select {
	case <-done:
	case <-time.After(150 * time.Second):
		buf := make([]byte, 1<<16)
		buf = buf[:runtime.Stack(buf, true)]
		c.Failf("lock-up:applier", map[string]interface{}{"operations": n, "goroutines": goroutines, "stacks": firstN(string(buf), 6000)}, "%d goroutines applying %d distinct signed operations through one applier did not finish within 150 s", goroutines, n)
		return
	}
	c.Evals(n)
	c.Count("volume-operations", n)
	c.Sig("volume", goroutines)
	for i := range items {
		if got[i] != items[i].want {
			c.Failf("concurrent-result-differs:applier", map[string]interface{}{"component": "applier", "sequential": items[i].want, "concurrent": got[i], "goroutines": goroutines, "operation_number": i, "operations": n},
				"applier: operation %d of %d distinct signed operations gives another result through the shared applier than sequentially", i, n)
			return
		}
	}
	c.Sample(map[string]interface{}{"operations": n, "goroutines": goroutines})
}

// ---------------------------------------------------------------------------
// linearizability of the two registries

type regIn struct {
	key   string
	write bool
	arg   string // unique id of the provider / factory being written
}

var regModel = porcupine.Model{
	Partition: func(history []porcupine.Operation) [][]porcupine.Operation {
		m := map[string][]porcupine.Operation{}
		for _, op := range history {
			k := op.Input.(regIn).key
			m[k] = append(m[k], op)
		}
		keys := make([]string, 0, len(m))
		for k := range m {
			keys = append(keys, k)
		}
		sort.Strings(keys)
		out := make([][]porcupine.Operation, 0, len(m))
		for _, k := range keys {
			out = append(out, m[k])
		}
		return out
	},
	Init: func() interface{} { return "" },
	DescribeOperation: func(in, out interface{}) string {
		i := in.(regIn)
		if i.write {
			return fmt.Sprintf("write(%s,%s)->%v", i.key, i.arg, out)
		}
		return fmt.Sprintf("read(%s)->%v", i.key, out)
	},
}

// overwrite semantics (namespace provider): Add always succeeds and replaces.
func nsStep(st, in, out interface{}) (bool, interface{}) {
	i := in.(regIn)
	if i.write {
		return out.(string) == "ok", i.arg
	}
	cur := st.(string)
	if cur == "" {
		return out.(string) == "notfound", st
	}
	return out.(string) == cur, st
}

// insert-once semantics (client registry): Register on a present key reports a duplicate.
func regStep(st, in, out interface{}) (bool, interface{}) {
	i := in.(regIn)
	cur := st.(string)
	if i.write {
		if cur == "" {
			return out.(string) == "ok", i.arg
		}
		return out.(string) == "duplicate", st
	}
	if cur == "" {
		return out.(string) == "notfound", st
	}
	return out.(string) == cur, st
}

type idProvider struct{ id string }

func (p *idProvider) Current() (protocol.Version, error) {
	return &vcommon.ProtocolVersion{VersionStr: p.id}, nil
}
func (p *idProvider) Get(uint64) (protocol.Version, error) { return nil, errors.New("n/a") }

type idFactory struct{ id string }

func (f *idFactory) Create(version string, _ *vcommon.ProtocolConfig) (protocol.Version, error) {
	return &vcommon.ProtocolVersion{VersionStr: f.id}, nil
}

func c20History(c *fw.Case, kind string, clients, opsPerClient, procs int) {
	r := c.Rng
	old := runtime.GOMAXPROCS(procs)
	defer runtime.GOMAXPROCS(old)
	nkeys := r.Range(3, 6)
	var keys []string
	for i := 0; i < nkeys; i++ {
		if kind == "nsprovider" {
			keys = append(keys, fmt.Sprintf("did:ns%d", i))
		} else {
			keys = append(keys, fmt.Sprintf("%d.%d", i+2, i%3))
		}
	}
	nsp := nsprovider.New()
	reg := clientregistry.New()
	type planned struct {
		in regIn
	}
	plans := make([][]planned, clients)
	for cl := 0; cl < clients; cl++ {
		for k := 0; k < opsPerClient; k++ {
			key := keys[r.Intn(len(keys))]
			write := r.Chance(1, 3)
			arg := ""
			if write {
				arg = fmt.Sprintf("w%d-%d", cl, k)
			}
			plans[cl] = append(plans[cl], planned{regIn{key: key, write: write, arg: arg}})
		}
	}
	recs := make([][]porcupine.Operation, clients)
	var wg sync.WaitGroup
	gate := make(chan struct{})
	t0 := time.Now()
	for cl := 0; cl < clients; cl++ {
		wg.Add(1)
		go func(cl int) {
			defer wg.Done()
			<-gate
			for _, p := range plans[cl] {
				in := p.in
				call := time.Since(t0).Nanoseconds()
				var out string
				if kind == "nsprovider" {
					if in.write {
						nsp.Add(in.key, &idProvider{id: in.arg})
						out = "ok"
					} else if cvp, err := nsp.ForNamespace(in.key); err != nil {
						out = "notfound"
					} else {
						v, _ := cvp.Current()
						out = v.Version()
					}
				} else {
					if in.write {
						func() {
							defer func() {
								if rec := recover(); rec != nil {
									out = "duplicate"
									if !strings.Contains(fmt.Sprint(rec), "already registered") {
										out = "panic:" + fmt.Sprint(rec)
									}
								}
							}()
							reg.Register(in.key, &idFactory{id: in.arg})
							out = "ok"
						}()
					} else if v, err := reg.CreateClientVersion(in.key, &vcommon.ProtocolConfig{}); err != nil {
						out = "notfound"
					} else {
						out = v.Version()
					}
				}
				ret := time.Since(t0).Nanoseconds()
				recs[cl] = append(recs[cl], porcupine.Operation{ClientId: cl, Input: in, Call: call, Output: out, Return: ret})
			}
		}(cl)
	}
	close(gate)
	finished := make(chan struct{})
	go func() { wg.Wait(); close(finished) }()
	select {
	case <-finished:
	case <-time.After(90 * time.Second):
		// a history of a few hundred map operations takes milliseconds; after 90 s the clients are blocked for good
		buf := make([]byte, 1<<20)
		dump := string(buf[:runtime.Stack(buf, true)])
		blocked := strings.Count(dump, "sync.(*RWMutex)") + strings.Count(dump, "sync.(*Mutex)")
		c.Failf("registry-lock-up:"+kind, map[string]interface{}{"kind": kind, "clients": clients, "goroutines_blocked_on_a_lock": blocked, "goroutine_dump": firstLines(dump, 120)},
			"concurrent registration / lookup on the %s did not finish within 90 s (%d goroutine frames blocked on a lock): lock-up", kind, blocked)
		return
	}
	var hist []porcupine.Operation
	for _, rc := range recs {
		hist = append(hist, rc...)
	}
	c.Count("histories", 1)
	c.Evals(len(hist))
	model := regModel
	if kind == "nsprovider" {
		model.Step = nsStep
	} else {
		model.Step = regStep
	}
	// statistics: lookups overlapping the first successful write of their key
	firstWrite := map[string][2]int64{}
	for _, op := range hist {
		in := op.Input.(regIn)
		if in.write && op.Output.(string) == "ok" {
			if fw, ok := firstWrite[in.key]; !ok || op.Call < fw[0] {
				firstWrite[in.key] = [2]int64{op.Call, op.Return}
			}
		}
		if op.Output.(string) == "duplicate" {
			c.Count("register-duplicate-observed", 1)
		}
		if strings.HasPrefix(op.Output.(string), "panic:") {
			c.Failf("registry-panic", map[string]interface{}{"output": op.Output}, "registry panicked: %v", op.Output)
			return
		}
	}
	for _, op := range hist {
		in := op.Input.(regIn)
		if in.write {
			continue
		}
		if fwr, ok := firstWrite[in.key]; ok && op.Call < fwr[1] && op.Return > fwr[0] {
			if op.Output.(string) == "notfound" {
				c.Count("lookup-notfound-while-racing", 1)
			} else {
				c.Count("lookup-found-while-racing", 1)
			}
		}
	}
	res, info := porcupine.CheckOperationsVerbose(model, hist, 60*time.Second)
	shape := fmt.Sprintf("%s/c%d/k%d/p%d", kind, clients, nkeys, procs)
	c.Sig(shape, len(hist)/20)
	switch res {
	case porcupine.Ok:
		c.Count("linearizable-partitions", nkeys)
	case porcupine.Unknown:
		c.Inconclusive("porcupine-timeout")
	case porcupine.Illegal:
		var lines []string
		for _, op := range hist {
			lines = append(lines, fmt.Sprintf("client=%d %s call=%d return=%d", op.ClientId, model.DescribeOperation(op.Input, op.Output), op.Call, op.Return))
		}
		sort.Strings(lines)
		_ = info
		c.Failf("not-linearizable:"+kind, map[string]interface{}{"registry": kind, "clients": clients, "keys": keys, "GOMAXPROCS": procs, "history": lines},
			"%s history with %d operations is not linearizable with respect to the sequential map model", kind, len(hist))
	}
	c.Sample(map[string]interface{}{"registry": kind, "clients": clients, "keys": keys, "operations": len(hist), "first_operations": fmt.Sprint(hist[:min(4, len(hist))])})
}

// c20FirstUse is run as the very first case of each worker process: many goroutines at once take every key type x purpose
// combination, every patch action, every signing key type and both hash algorithms through validation, parsing, application,
// signature verification, canonicalization and transformation - so that whatever the library initialises on first use is first used
// concurrently (a warm-up by an earlier sequential call would hide an unsynchronised first use from the race detector).
func c20FirstUse(c *fw.Case) {
	r := c.Rng
	var docs []map[string]interface{}
	for _, typ := range gen.DocKeyTypes {
		for _, pur := range gen.Purposes {
			if !gen.PurposeAllowed(typ, pur) {
				continue
			}
			for _, material := range []string{"jwk", "b58"} {
				if material == "b58" && typ == gen.TJwk2020 {
					continue
				}
				docs = append(docs, gen.DocKey(r, "k1", typ, []string{pur}, material))
			}
		}
	}
	var patches []patch.Patch
	for _, k := range docs {
		if lp, err := sut.ToPatch(gen.PAddKeys(k)); err == nil {
			patches = append(patches, lp)
		}
	}
	for _, raw := range []map[string]interface{}{gen.PAddServices(gen.RandService(r, "svc1")), gen.PRemoveKeys("k1"), gen.PRemoveServices("svc1"), gen.PAddAka("did:example:a"), gen.PRemoveAka("did:example:a"),
		gen.PReplace(gen.RandKeys(r, 2), gen.RandServices(r, 1)), gen.PJSON(map[string]interface{}{"op": "add", "path": "/foo", "value": 1})} {
		if lp, err := sut.ToPatch(raw); err == nil {
			patches = append(patches, lp)
		}
	}
	proto := histProto(true)
	type opItem struct {
		anch *operation.AnchoredOperation
		prev *protocol.ResolutionModel
	}
	var ops []opItem
	for _, kt := range gen.SigningKeyTypes {
		for _, code := range []uint64{18, 19} {
			h := &histCtx{r: r, proto: proto, code: code, keyType: kt, hasIETF: true}
			cs := planStep(h, 'c', "valid", 1000, nil, nil)
			ops = append(ops, opItem{anchoredOf(cs, cs.Built.Suffix), &protocol.ResolutionModel{}})
			// previous state written by hand: no library call is made before the storm
			base := &protocol.ResolutionModel{Doc: document.Document{}, UpdateCommitment: cs.Spec.UpdateCommitment, RecoveryCommitment: cs.Spec.RecoveryCommitment}
			for _, typ := range []byte("urd") {
				s := planStep(h, typ, "valid", 2000, nil, nil)
				ops = append(ops, opItem{anchoredOf(s, cs.Built.Suffix), base})
			}
		}
	}
	env, err := newC20Env()
	if err != nil {
		c.Failf("env", nil, "cannot build components: %v", err)
		return
	}
	fresh := sut.NewStack(proto) // parser / applier / composer that have not been used yet
	const G = 24
	results := make([]string, G)
	var wg sync.WaitGroup
	gate := make(chan struct{})
	for g := 0; g < G; g++ {
		wg.Add(1)
		go func(g int) {
			defer wg.Done()
			defer func() {
				if rec := recover(); rec != nil {
					results[g] = fmt.Sprintf("PANIC:%v", rec)
				}
			}()
			<-gate
			var sb strings.Builder
			for _, lp := range patches {
				fmt.Fprint(&sb, patchvalidator.Validate(lp) == nil, ";")
				d, err := fresh.Composer.ApplyPatches(document.Document{}, []patch.Patch{lp})
				fmt.Fprint(&sb, err == nil, ";")
				if err == nil {
					res, terr := env.didTr.TransformDocument(&protocol.ResolutionModel{Doc: d, UpdateCommitment: "u", RecoveryCommitment: "r"}, protocol.TransformationInfo{"id": "did:ion:EiFirst", "published": true})
					sb.WriteString(resStr(res, terr))
				}
			}
			for _, o := range ops {
				res, err := fresh.Applier.Apply(o.anch, o.prev)
				sb.WriteString(resStr(res, err))
				_, perr := fresh.Parser.Parse("did:sidetree", o.anch.OperationRequest)
				fmt.Fprint(&sb, perr == nil, ";")
			}
			results[g] = sb.String()
		}(g)
	}
	close(gate)
	wg.Wait()
	c.Count("first-use-storm-calls", G*(2*len(patches)+2*len(ops)))
	c.Evals(G)
	c.Sig("first-use")
	for g := 1; g < G; g++ {
		if results[g] != results[0] {
			c.Failf("first-use-results-differ", map[string]interface{}{"goroutine_0": firstN(results[0], 400), "goroutine": g, "other": firstN(results[g], 400)}, "goroutines making the same first calls concurrently got different results")
			break
		}
	}
}

func firstN(s string, n int) string {
	if len(s) > n {
		return s[:n]
	}
	return s
}

func runC20(r *fw.Runner) {
	// the first cases of the run are the first case of each worker process
	for i := 0; i < 12; i++ {
		r.Case("first-use-storm", func(c *fw.Case) { c20FirstUse(c) })
	}
	gs := []int{2, 8, 32}
	procs := []int{1, 2, 4, 16}
	seeds := r.N(6, 24)
	for s := 0; s < seeds; s++ {
		for _, g := range gs {
			for _, p := range procs {
				g, p := g, p
				if !r.Thorough && (g == 32 && p == 1 || g == 2 && p == 16) {
					continue
				}
				r.Case("stress", func(c *fw.Case) { c20Stress(c, g, p, r.N(130, 390)) })
			}
		}
	}
	// volume: more distinct signed operations through one applier than any bounded memory inside it would keep
	for b := 0; b < r.N(1, 3); b++ {
		b := b
		r.Case("volume", func(c *fw.Case) { c20Volume(c, 2600, []int{8, 4, 16}[b%3]) })
	}
	for b := 0; b < r.N(400, 6000); b++ {
		b := b
		r.Case("linearizability", func(c *fw.Case) {
			kind := []string{"nsprovider", "clientregistry"}[b%2]
			c20History(c, kind, fw.Pick(c.Rng, []int{2, 3, 4, 8}), c.Rng.Range(8, 24), procs[b%4])
		})
	}
}
