package checks

import (
	"fmt"
	"github.com/trustbloc/sidetree-go/pkg/patch"
	"github.com/trustbloc/sidetree-go/pkg/versions/1_0/model"
	"sync"

	"github.com/trustbloc/sidetree-go/pkg/api/protocol"
	"github.com/trustbloc/sidetree-go/pkg/document"
	"github.com/trustbloc/sidetree-go/pkg/versions/1_0/doccomposer"
	"github.com/trustbloc/sidetree-go/pkg/versions/1_0/doctransformer/didtransformer"
	"github.com/trustbloc/sidetree-go/pkg/versions/1_0/operationparser/patchvalidator"

	"verifharness/fw"
	"verifharness/gen"
	"verifharness/oracle"
	"verifharness/sut"
)

func init() {
	fw.Register(&fw.Check{
		ID:          "C11",
		Rule:        "cases: documents with 0..3 keys and services plus sibling members sharing a name prefix; (a) the complete grid of single RFC 6902 operations: 6 kinds x path x from over protected members, their elements and sub-members, prefix siblings, escaped tokens, root, '/', pointers without a leading slash or with leading garbage, trailing slashes, array indices 0 / - / out of range; (b) random sequences of 2..3 operations (e.g. copy then modify below the copy), alone and after other patches. Oracle: invariant - whenever patch validation accepts and ApplyPatches succeeds, the publicKey and service members are deeply equal before and after, and so are the keys/services reported by the typed document accessors (Document.PublicKeys, DIDDocument.PublicKeys/Services) and the key and service sections (verificationMethod, authentication, assertionMethod, keyAgreement, capabilityDelegation, capabilityInvocation, service) of the resolved DID document. distinct = distinct (kind, path class, from class, accepted?, applied?) tuples.",
		Assumptions: []string{"deep JSON equality of the two protected members is the observable for 'altered'"},
		Require:     []string{"validated", "validated-and-applied", "refused-by-validator", "grid", "accessor-views", "resolved-views", "two-ietf-patches-around-dedicated-actions"},
		Run:         runC11,
	})
}

var c11Paths = []string{
	"/publicKey", "/publicKey/0", "/publicKey/0/id", "/publicKey/0/publicKeyJwk/x", "/publicKey/-", "/publicKey/1", "/publicKey/99", "/publicKey/",
	"/service", "/service/0", "/service/0/serviceEndpoint", "/service/-", "/service/0/id", "/service/",
	"/publicKeys", "/serviceEndpoint", "/services", "/publicKeyX/0", "/service2",
	"/foo", "/foo/a", "/foo/publicKey", "/arr/0", "/arr/-", "/arr/99", "/new", "/alsoKnownAs", "/alsoKnownAs/0",
	"", "/", "//publicKey", "publicKey", "service", "z/publicKey", "z/service", "x/publicKey/0", "x/service/0/id", " /publicKey", "#/publicKey", "~/service", "./publicKey",
	// the URI-fragment representation of pointers (RFC 6901 section 6), with characters of the protected names percent-encoded
	"#/%73ervice/0", "#/public%4Bey/0", "#/servic%65", "#/%70ublicKey/-", "#/service/0", "#", "#/foo",
	"/~0publicKey", "/public~1Key", "/publicKey~0", "/service~1x", "/PublicKey", "/Service",
	// member names that carry keys in the resolved (external) DID document
	"/verificationMethod", "/authentication", "/keyAgreement", "/assertionMethod",
}

// paths the validator lets through: used to get long validated sequences that try to reach the protected members indirectly
var c11FreePaths = []string{"/foo", "/foo/a", "/foo/publicKey", "/arr", "/arr/0", "/arr/2", "/arr/2/k", "/arr/-", "/new", "/new/0", "/new/id", "/alsoKnownAs", "/alsoKnownAs/0", "/alsoKnownAs/-",
	"", "/", "/~0publicKey", "/public~1Key", "/PublicKey", "/Service", "/pub", "/publicKe", "/servic", "/x/publicKey", "/foo/service", "/id", "/@context", "/controller", "/controller", "/alsoKnownAs2", "/type",
	"/verificationMethod", "/verificationMethod/-", "/authentication", "/authentication/-", "/assertionMethod", "/keyAgreement", "/capabilityDelegation", "/capabilityInvocation"}

func c11Doc(r *fw.Rand) map[string]interface{} {
	doc := map[string]interface{}{
		"foo": map[string]interface{}{"a": 1, "publicKey": "inner"},
		"arr": []interface{}{1, 2, map[string]interface{}{"k": "v"}},
	}
	if nk := r.Intn(4); nk > 0 {
		doc["publicKey"] = gen.RandKeys(r, nk)
	}
	if ns := r.Intn(4); ns > 0 {
		doc["service"] = gen.RandServices(r, ns)
	}
	if r.Bool() {
		doc["alsoKnownAs"] = []interface{}{"did:example:a"}
	}
	if r.Bool() {
		doc["publicKeys"] = []interface{}{"sibling"}
	}
	if r.Bool() {
		doc["serviceEndpoint"] = "sibling"
	}
	if r.Bool() {
		doc["services"] = map[string]interface{}{"s": 1}
	}
	return doc
}

func c11Value(r *fw.Rand) interface{} {
	if r.Chance(1, 8) {
		// what a DID-valued top-level member of a DID document looks like (controller, id)
		return fw.Pick(r, []interface{}{"did:example:mallory", "did:sidetree:EiOther", []interface{}{"did:example:mallory"}})
	}
	switch r.Intn(8) {
	case 6:
		// what a key section of a resolved document looks like: embedded verification methods and references
		k := gen.RandDocKey(r, "evil")
		k["controller"] = "did:sidetree:EiSuffix"
		k["id"] = "did:sidetree:EiSuffix#evil"
		return []interface{}{k, "#evil2"}
	case 7:
		return []interface{}{gen.RandService(r, "evilsvc")}
	case 0:
		return []interface{}{}
	case 1:
		return map[string]interface{}{}
	case 2:
		return "x"
	case 3:
		return []interface{}{gen.RandDocKey(r, "evil")}
	case 4:
		return nil
	}
	return r.Intn(10)
}

func pathClass(p string) string {
	if len(p) > 14 {
		return p[:14]
	}
	return p
}

func runC11(r *fw.Runner) {
	composer := doccomposer.New()
	kinds := []string{"add", "remove", "replace", "move", "copy", "test"}
	// (a) complete single-operation grid, sharded by (kind, path)
	for _, kind := range kinds {
		kind := kind
		for _, path := range c11Paths {
			path := path
			r.Case("grid-"+kind, func(c *fw.Case) {
				doc := c11Doc(c.Rng)
				// make sure both protected members exist for most of the grid
				if _, ok := doc["publicKey"]; !ok && c.Rng.Chance(3, 4) {
					doc["publicKey"] = gen.RandKeys(c.Rng, 2)
				}
				if _, ok := doc["service"]; !ok && c.Rng.Chance(3, 4) {
					doc["service"] = gen.RandServices(c.Rng, 1)
				}
				froms := []string{""}
				if kind == "move" || kind == "copy" {
					froms = c11Paths
				}
				// the same grid cell on a document that has neither protected member
				bare := c11Doc(c.Rng)
				delete(bare, "publicKey")
				delete(bare, "service")
				for _, from := range froms {
					if kind == "add" || kind == "replace" || from == "/foo" || from == "/arr" {
						op := map[string]interface{}{"op": kind, "path": path, "value": c11Value(c.Rng)}
						if kind == "move" || kind == "copy" {
							op["from"] = from
						}
						c11Check(c, composer, bare, nil, []interface{}{op}, fmt.Sprint("bare|", kind, "|", pathClass(path), "|", pathClass(from)))
					}
					op := map[string]interface{}{"op": kind, "path": path}
					if kind == "move" || kind == "copy" {
						op["from"] = from
					}
					if kind == "add" || kind == "replace" || kind == "test" {
						op["value"] = c11Value(c.Rng)
					}
					c.Count("grid", 1)
					c11Check(c, composer, doc, nil, []interface{}{op}, fmt.Sprint(kind, "|", pathClass(path), "|", pathClass(from)))
				}
			})
		}
	}
	// (c) several goroutines apply validated ietf patches to their own documents through one composer at once: each result keeps
	// the keys and services of its own document
	for b := 0; b < r.N(2, 10); b++ {
		r.Case("concurrent-json-patches", func(c *fw.Case) {
			rr := c.Rng
			const G, rounds = 16, 30
			type job struct {
				doc  document.Document
				want interface{}
			}
			jobs := make([]job, G)
			for g := range jobs {
				d := map[string]interface{}{"publicKey": gen.RandKeys(rr, 2), "service": gen.RandServices(rr, 2), "note": g}
				ld, err := sut.ToDoc(d)
				if err != nil {
					c.Inconclusive("conversion")
					return
				}
				jobs[g] = job{ld, oracle.NormalizeDoc(protectedView(d))}
			}
			lp, _ := sut.ToPatch(gen.PJSON(map[string]interface{}{"op": "add", "path": "/stamp", "value": "x"}))
			var mu sync.Mutex
			var bad []string
			var wg sync.WaitGroup
			for g := 0; g < G; g++ {
				wg.Add(1)
				go func(g int) {
					defer wg.Done()
					for i := 0; i < rounds; i++ {
						res, err := composer.ApplyPatches(jobs[g].doc, []patch.Patch{lp})
						var got map[string]interface{}
						if err == nil {
							got, err = sut.FromDoc(res)
						}
						if err != nil || !oracle.JSONEqual(oracle.NormalizeDoc(protectedView(got)), jobs[g].want) {
							mu.Lock()
							bad = append(bad, fmt.Sprintf("goroutine %d round %d: err=%v", g, i, err))
							mu.Unlock()
						}
					}
				}(g)
			}
			wg.Wait()
			c.Count("concurrent-json-patch-applications", G*rounds)
			c.Evals(G * rounds)
			c.Sig("concurrent-ietf")
			if len(bad) > 0 {
				c.Failf("protected-member-altered-under-concurrent-use", map[string]interface{}{"failures": len(bad), "first": bad[0]}, "%d of %d concurrent applications of a validated ietf-json-patch altered keys / services (or failed): %s", len(bad), G*rounds, bad[0])
			}
		})
	}
	// (d) the same question at the level of anchored operations: an update / recover / create whose delta carries an ietf-json-patch
	// that validation refuses never changes the keys or services, however often the applier is handed the operation
	for _, typ := range []byte("cur") {
		typ := typ
		for _, variant := range []int{20, 21} {
			variant := variant
			for b := 0; b < r.N(2, 10); b++ {
				r.Case("refused-patch-through-the-applier", func(c *fw.Case) {
					c.Count("refused-patch-operations-applied", 1)
					c.Sig("applier-route", typ, variant)
					plan := []planEntry{{'c', "valid", nil}, {typ, fmt.Sprintf("delta-invalid-patch/%d", variant), nil}}
					if typ == 'c' {
						plan = plan[1:]
					}
					runHistory(c, plan, fw.Pick(c.Rng, gen.SigningKeyTypes), 18, true, "C01")
				})
			}
		}
	}
	// (b) random sequences
	for b := 0; b < r.N(150, 6000); b++ {
		r.Case("sequences", func(c *fw.Case) {
			rr := c.Rng
			for i := 0; i < 60; i++ {
				doc := c11Doc(rr)
				n := rr.Range(2, 3)
				var ops []interface{}
				sig := ""
				for j := 0; j < n; j++ {
					kind := fw.Pick(rr, kinds)
					pool := c11Paths
					if rr.Chance(7, 10) {
						pool = c11FreePaths
					}
					op := map[string]interface{}{"op": kind, "path": fw.Pick(rr, pool)}
					if kind == "move" || kind == "copy" {
						op["from"] = fw.Pick(rr, pool)
					}
					if kind == "add" || kind == "replace" || kind == "test" {
						op["value"] = c11Value(rr)
					}
					if rr.Chance(1, 3) && j > 0 {
						// aim below the destination of the previous op
						prev := ops[j-1].(map[string]interface{})
						op["path"] = fmt.Sprint(prev["path"]) + fw.Pick(rr, []string{"/0", "/-", "/id", "/new", "/0/id"})
					}
					ops = append(ops, op)
					sig += kind[:2]
				}
				var before []interface{}
				if rr.Chance(1, 3) {
					before = []interface{}{gen.PAddKeys(gen.RandDocKey(rr, "key1")), gen.PAddServices(gen.RandService(rr, "svc1"))}
				}
				c11Check(c, composer, doc, before, ops, "seq|"+sig)
				if i%3 == 0 {
					// ietf patch, dedicated key / service actions, ietf patch - all in one call
					var mid []interface{}
					for _, k := range rr.Perm(4)[:rr.Range(1, 3)] {
						switch k {
						case 0:
							mid = append(mid, gen.PAddKeys(gen.RandDocKey(rr, fw.Pick(rr, []string{"key1", "midkey"}))))
						case 1:
							ids := []string{"ghost"}
							if l, ok := doc["publicKey"].([]interface{}); ok && len(l) > 0 {
								ids = append(ids, fmt.Sprint(l[0].(map[string]interface{})["id"]))
							}
							mid = append(mid, gen.PRemoveKeys(ids...))
						case 2:
							mid = append(mid, gen.PAddServices(gen.RandService(rr, fw.Pick(rr, []string{"svc1", "midsvc"}))))
						case 3:
							ids := []string{"ghost"}
							if l, ok := doc["service"].([]interface{}); ok && len(l) > 0 {
								ids = append(ids, fmt.Sprint(l[len(l)-1].(map[string]interface{})["id"]))
							}
							mid = append(mid, gen.PRemoveServices(ids...))
						}
					}
					ops2 := []interface{}{map[string]interface{}{"op": "add", "path": fw.Pick(rr, c11FreePaths[:8]), "value": c11Value(rr)}}
					c11CheckSeq(c, composer, doc, before, ops, mid, ops2, "seq3|"+sig)
				}
			}
		})
	}
}

func protectedView(doc map[string]interface{}) map[string]interface{} {
	out := map[string]interface{}{}
	for _, k := range []string{"publicKey", "service"} {
		if v, ok := doc[k]; ok {
			out[k] = v
		}
	}
	return out
}

func c11Check(c *fw.Case, composer *doccomposer.DocumentComposer, doc map[string]interface{}, before []interface{}, ops []interface{}, sig string) {
	c11CheckSeq(c, composer, doc, before, ops, nil, nil, sig)
}

// c11CheckSeq applies, in ONE ApplyPatches call: before (dedicated actions), the ietf patch ops, mid (dedicated actions), and - when
// ops2 is given - a second ietf patch. The keys and services afterwards must be what the dedicated actions alone produce.
func c11CheckSeq(c *fw.Case, composer *doccomposer.DocumentComposer, doc map[string]interface{}, before []interface{}, ops []interface{}, mid []interface{}, ops2 []interface{}, sig string) {
	c.Evals(1)
	p := gen.PJSON(ops...)
	lp, err := sut.ToPatch(p)
	if err != nil {
		c.Inconclusive("conversion")
		return
	}
	route := c.Rng.Intn(6)
	if verr := c11Validate(c, route, lp); verr != nil {
		c.Count("refused-by-validator", 1)
		c.Sig(sig, "refused")
		return
	}
	var p2 map[string]interface{}
	if ops2 != nil {
		p2 = gen.PJSON(ops2...)
		lp2, err := sut.ToPatch(p2)
		if err != nil || c11Validate(c, route, lp2) != nil {
			c.Count("refused-by-validator", 1)
			c.Sig(sig, "refused")
			return
		}
		c.Count("two-ietf-patches-around-dedicated-actions", 1)
	}
	c.Count("validated", 1)
	// alias cycles kill the process inside json-patch (C19 known finding): do not feed them
	_, aerr1 := oracle.ApplyRFC6902(doc, ops, oracle.Quirks{AliasCopy: true, MoveCopySet: true}) // the document is serialized after each ietf patch
	if _, aerr := oracle.ApplyRFC6902(doc, append(append([]interface{}{}, ops...), ops2...), oracle.Quirks{AliasCopy: true, MoveCopySet: true}); oracle.IsCycleErr(aerr) || oracle.IsCycleErr(aerr1) {
		c.Count("excluded:alias-cycle (C19 known finding)", 1)
		return
	}
	start := doc
	if before != nil || mid != nil {
		// state after the dedicated patches alone, per the model
		s2, err := oracle.ApplyPatchesModel(doc, append(append([]interface{}{}, before...), mid...), oracle.Quirks{})
		if err != nil {
			c.Inconclusive("model")
			return
		}
		start = s2
	}
	ldoc, err := sut.ToDoc(doc)
	if err != nil {
		c.Inconclusive("conversion")
		return
	}
	all := append(append(append([]interface{}{}, before...), p), mid...)
	if p2 != nil {
		all = append(all, p2)
	}
	lps, err := sut.ToPatches(all)
	if err != nil {
		c.Inconclusive("conversion")
		return
	}
	c.Journal(gen.ToJSON(map[string]interface{}{"doc": doc, "patches": all}))
	res, aerr := composer.ApplyPatches(ldoc, lps)
	if aerr != nil {
		c.Sig(sig, "accepted", "apply-error")
		return
	}
	c.Count("validated-and-applied", 1)
	c.Sig(sig, "accepted", "applied")
	got, err := sut.FromDoc(res)
	if err != nil {
		c.Inconclusive("result-not-json")
		return
	}
	wantP, gotP := oracle.NormalizeDoc(protectedView(start)), oracle.NormalizeDoc(protectedView(got))
	c.Sample(map[string]interface{}{"operations": ops, "protected_before": wantP, "protected_after": gotP})
	if !oracle.JSONEqual(wantP, gotP) {
		c.Failf("protected-member-altered", map[string]interface{}{"document": doc, "patches_before": before, "operations": ops,
			"protected_before": wantP, "protected_after": gotP, "diff": describeDiff(wantP, gotP)},
			"a validated ietf-json-patch altered publicKey/service (%s)", describeDiff(wantP, gotP))
		return
	}
	// the same question asked where a user of the document reads its keys and services: through the typed accessors
	// and in the resolved (external) DID document
	lstart, err := sut.ToDoc(start)
	if err != nil {
		c.Inconclusive("conversion")
		return
	}
	c.Count("accessor-views", 1)
	wantA, gotA := c11AccessorView(lstart), c11AccessorView(res)
	if !oracle.JSONEqual(wantA, gotA) {
		c.Failf("keys-or-services-altered-in-accessor-view", map[string]interface{}{"document": doc, "patches_before": before, "operations": ops,
			"accessors_before": wantA, "accessors_after": gotA, "diff": describeDiff(wantA, gotA)},
			"a validated ietf-json-patch altered the keys/services the document accessors report (%s)", describeDiff(wantA, gotA))
		return
	}
	wantR, ok1 := c11ResolvedView(lstart)
	gotR, ok2 := c11ResolvedView(res)
	if !ok1 || !ok2 {
		c.Count("resolved-view-not-available", 1)
		return
	}
	c.Count("resolved-views", 1)
	if !oracle.JSONEqual(wantR, gotR) {
		c.Failf("keys-or-services-altered-in-resolved-document", map[string]interface{}{"document": doc, "patches_before": before, "operations": ops,
			"resolved_before": wantR, "resolved_after": gotR, "diff": describeDiff(wantR, gotR)},
			"a validated ietf-json-patch altered the key/service sections of the resolved DID document (%s)", describeDiff(wantR, gotR))
	}
}

func c11AccessorView(d document.Document) interface{} {
	dd := document.DidDocumentFromJSONLDObject(d.JSONLdObject())
	g, err := oracle.Generic(map[string]interface{}{"Document.PublicKeys": d.PublicKeys(), "DIDDocument.PublicKeys": dd.PublicKeys(), "DIDDocument.Services": dd.Services()})
	if err != nil {
		return "not-serializable: " + err.Error()
	}
	return g
}

var c11Transformer = didtransformer.New()

// c11ResolvedView is the part of the resolved DID document that carries keys and services.
func c11ResolvedView(d document.Document) (interface{}, bool) {
	rm := &protocol.ResolutionModel{Doc: d, RecoveryCommitment: "EiR", UpdateCommitment: "EiU"}
	info := protocol.TransformationInfo{document.IDProperty: "did:sidetree:EiSuffix", document.PublishedProperty: true}
	res, err := c11Transformer.TransformDocument(rm, info)
	if err != nil || res == nil {
		return nil, false
	}
	out := map[string]interface{}{}
	for _, k := range []string{"verificationMethod", "authentication", "assertionMethod", "keyAgreement", "capabilityDelegation", "capabilityInvocation", "service", "publicKey"} {
		if v, ok := res.Document[k]; ok {
			out[k] = v
		}
	}
	g, err := oracle.Generic(out)
	if err != nil {
		return nil, false
	}
	return g, true
}

var c11Commitment = oracle.B64(oracle.WrapDigest(18, make([]byte, 32)))

// c11Validate asks one of the public routes to patch validation for its verdict on an ietf-json-patch: the dispatching Validate, the
// JSON validator as a zero value / through its constructor, or the parser's delta validation under several lists of enabled actions
// (a protocol that enables nothing validates nothing successfully).
func c11Validate(c *fw.Case, route int, lp patch.Patch) error {
	switch route {
	case 2:
		c.Count("validator-route:zero-value-JSONValidator", 1)
		return (&patchvalidator.JSONValidator{}).Validate(lp)
	case 3:
		c.Count("validator-route:NewJSONValidator", 1)
		return patchvalidator.NewJSONValidator().Validate(lp)
	case 4, 5:
		p := sut.Proto()
		p.Patches = fw.Pick(c.Rng, [][]string{nil, {}, {"ietf-json-patch"}, p.Patches, {"replace", "ietf-json-patch"}})
		c.Count("validator-route:Parser.ValidateDelta", 1)
		return sut.SharedStack(p).Parser.ValidateDelta(&model.DeltaModel{UpdateCommitment: c11Commitment, Patches: []patch.Patch{lp}})
	}
	c.Count("validator-route:Validate", 1)
	return patchvalidator.Validate(lp)
}
