package checks

import (
	"encoding/json"
	"fmt"
	"github.com/trustbloc/sidetree-go/pkg/canonicalizer"
	"github.com/trustbloc/sidetree-go/pkg/versions/1_0/operationparser"
	"strings"

	"github.com/trustbloc/sidetree-go/pkg/commitment"
	"github.com/trustbloc/sidetree-go/pkg/jws"

	"verifharness/fw"
	"verifharness/gen"
	"verifharness/oracle"
	"verifharness/sut"
)

func init() {
	fw.Register(&fw.Check{
		ID:          "C04",
		Rule:        "cases: (a) keys of all five types (with and without nonce, coordinates with leading zero bytes when found) x codes 18/19: reveal, commitment and commitment-from-reveal compared with the reference formulas, every unsupported code must error, every single-member perturbation of the JWK must change the commitment; (b) generated well-formed chains create -> (update|recover)* -> deactivate (length 2..8): for every non-create operation the commitment derived from the parser-reported reveal value must equal the commitment reported for (or, for create/recover->update links, committed by) its predecessor on the same chain; deactivate reports no commitment. distinct = distinct (key type, code, nonce, perturbed member) and distinct chain type sequences.",
		Assumptions: []string{"harness JCS / multihash oracle", "crypto/sha256, crypto/sha512"},
		Require:     []string{"keys", "perturbations", "chain-links", "deactivate-no-commitment", "algorithm-migrations", "key-object-reused-after-change"},
		Run:         runC04,
	})
}

func toLibJWK(m map[string]interface{}) *jws.JWK {
	b, _ := json.Marshal(m)
	var k jws.JWK
	if err := json.Unmarshal(b, &k); err != nil {
		panic(err)
	}
	return &k
}

func runC04(r *fw.Runner) {
	for b := 0; b < r.N(60, 1200); b++ {
		r.Case("keys", func(c *fw.Case) { c04Keys(c, r.N(10, 25)) })
	}
	for b := 0; b < r.N(200, 3000); b++ {
		r.Case("chains", func(c *fw.Case) { c04Chain(c) })
	}
	// chains whose requests are built by the long-form client (its own reveal-value and commitment plumbing, with algorithm
	// migration on update and recover): each request must open the commitment installed before it
	for b := 0; b < r.N(30, 300); b++ {
		r.Case("client-built-chains", func(c *fw.Case) { c08Client(c) })
	}
}

// c04Poison hands the canonicalizer a document it has to give up on half-way (duplicate member, truncated, bad literal): nothing of
// it may show in what is canonicalized next.
func c04Poison(c *fw.Case) {
	bad := fw.Pick(c.Rng, []string{`{"a":1,"crv":"P-256","a":2}`, `{"kty":"EC","x":{"b":1,"b":2}`, `{"zz":tru}`, `{"x":"unterminated`, `{"k":1,"nonce":"n",}`, `{"crv":"X","kty":"Y","x":"Z","y":"W","x":"dup"}`, `[{"a":1,"b":`})
	if _, err := canonicalizer.MarshalCanonical([]byte(bad)); err == nil {
		c.Observe("canonicalizer accepted a malformed document: " + bad)
	}
	c.Count("malformed-documents-canonicalized-in-between", 1)
}

func c04Keys(c *fw.Case, n int) {
	r := c.Rng
	for i := 0; i < n; i++ {
		if i%2 == 1 {
			c04Poison(c)
		}
		typ := gen.AllKeyTypes[(c.Idx+i)%len(gen.AllKeyTypes)]
		k := gen.NewKey(r, typ)
		nonce := r.Chance(1, 2)
		if nonce {
			k = k.WithNonce(r, fw.Pick(r, []int{16, 1, 32}))
		}
		j := k.JWK()
		if i%6 == 5 {
			// RSA-shaped key model: members n / e / nonce next to empty crv, x, y ("n" is a prefix of "nonce")
			j = map[string]interface{}{"kty": "RSA", "crv": "", "x": "", "y": "", "n": oracle.B64(r.Bytes(64)), "e": "AQAB"}
			if nonce {
				j["nonce"] = k.Nonce
			}
			typ = "RSA"
		}
		if i%5 == 3 {
			// members are free text for the hash formula: characters the canonical form escapes, must not escape, or orders by
			j["nonce"] = fw.Pick(r, []string{"a\u0001b", "\u001f", "tab\there", "line\nbreak\r", "\b\f", "quote\"back\\slash/", "del\u007f", "sep\u2028\u2029", "<&>", "\u00e9\u20ac\U0001F600", "\u0000"}) + fmt.Sprint(r.Intn(10))
			nonce = true
			c.Count("free-text-members", 1)
		}
		x, y := k.XY()
		lz := 0
		if len(x) > 0 && x[0] == 0 {
			lz++
		}
		if len(y) > 0 && y[0] == 0 {
			lz++
		}
		for _, code := range []uint64{18, 19} {
			c.Count("keys", 1)
			c.Evals(3)
			c.Sig("key", typ, code, nonce, lz)
			wantR, _ := oracle.RevealValue(code, j)
			wantC, _ := oracle.Commitment(code, j)
			lk := toLibJWK(j)
			gotR, err1 := commitment.GetRevealValue(lk, uint(code))
			gotC, err2 := commitment.GetCommitment(lk, uint(code))
			w := map[string]interface{}{"jwk": j, "code": code, "expected_reveal": wantR, "expected_commitment": wantC, "got_reveal": gotR, "got_commitment": gotC}
			if err1 != nil || gotR != wantR {
				c.Failf("reveal-formula", w, "GetRevealValue != b64(mh(H(JCS(jwk)))): %v", err1)
			}
			if err2 != nil || gotC != wantC {
				c.Failf("commitment-formula", w, "GetCommitment != b64(mh(H(H(JCS(jwk))))): %v", err2)
			}
			fromR, err3 := commitment.GetCommitmentFromRevealValue(gotR)
			if err3 != nil || fromR != wantC {
				w["from_reveal"] = fromR
				c.Failf("commitment-from-reveal", w, "GetCommitmentFromRevealValue(reveal(k)) != commitment(k): %v", err3)
			}
			if gotR == gotC {
				c.Failf("reveal-equals-commitment", w, "reveal value equals commitment")
			}
			// the same key object, asked again after one of its members was changed in place (a rotated nonce), answers for its new content
			{
				lk.Nonce = oracle.B64(r.Bytes(16))
				j2 := map[string]interface{}{}
				for kk, vv := range j {
					j2[kk] = vv
				}
				j2["nonce"] = lk.Nonce
				want2, _ := oracle.Commitment(code, j2)
				wantR2, _ := oracle.RevealValue(code, j2)
				got2, err := commitment.GetCommitment(lk, uint(code))
				gotR2, errR := commitment.GetRevealValue(lk, uint(code))
				c.Count("key-object-reused-after-change", 1)
				c.Evals(2)
				if err != nil || got2 != want2 || errR != nil || gotR2 != wantR2 {
					c.Failf("stale-value-for-changed-key-object", map[string]interface{}{"jwk_before": j, "jwk_after": j2, "expected_commitment": want2, "got_commitment": got2, "expected_reveal": wantR2, "got_reveal": gotR2},
						"GetCommitment/GetRevealValue on a key object whose nonce was changed in place do not answer for its new content")
				}
			}
			// perturb every member
			// a key differing only in the case of one letter of x is a different key
			{
				p := map[string]interface{}{}
				for kk, vv := range j {
					p[kk] = vv
				}
				xs, _ := p["x"].(string)
				for bi := 0; bi < len(xs); bi++ {
					ch := xs[bi]
					if (ch >= 'a' && ch <= 'z') || (ch >= 'A' && ch <= 'Z') {
						p["x"] = xs[:bi] + string(ch^0x20) + xs[bi+1:]
						break
					}
				}
				if p["x"] != j["x"] {
					c.Count("perturbations", 1)
					c.Evals(1)
					c.Sig("perturb", typ, "x-letter-case", nonce)
					if pc, err := commitment.GetCommitment(toLibJWK(p), uint(code)); err == nil && pc == gotC {
						c.Failf("commitment-collision", map[string]interface{}{"jwk": j, "perturbed": p, "member": "x (letter case)"}, "keys differing in the case of one letter of x have the same commitment")
					}
				}
			}
			for _, member := range []string{"x", "y", "crv", "kty", "nonce"} {
				p := map[string]interface{}{}
				for kk, vv := range j {
					p[kk] = vv
				}
				old, _ := p[member].(string)
				switch {
				case member == "nonce" && old == "":
					p[member] = oracle.B64(r.Bytes(16))
				case old == "":
					p[member] = "A"
				case old[len(old)-1] == 'A':
					p[member] = old[:len(old)-1] + "Q"
				default:
					p[member] = old[:len(old)-1] + "A"
				}
				c.Count("perturbations", 1)
				c.Evals(1)
				c.Sig("perturb", typ, member, nonce)
				pc, err := commitment.GetCommitment(toLibJWK(p), uint(code))
				if err != nil {
					c.Inconclusive("perturbed-key-error")
					continue
				}
				if pc == gotC {
					c.Failf("commitment-collision", map[string]interface{}{"jwk": j, "perturbed": p, "member": member, "commitment": pc}, "keys differing in %q have the same commitment", member)
				}
				pr, _ := commitment.GetRevealValue(toLibJWK(p), uint(code))
				if pr == gotR {
					c.Failf("reveal-collision", map[string]interface{}{"jwk": j, "perturbed": p, "member": member}, "keys differing in %q have the same reveal value", member)
				}
			}
		}
		for _, code := range []uint{0, 1, 17, 20, 22, 0xb220} {
			c.Evals(1)
			lk := toLibJWK(j)
			if _, err := commitment.GetCommitment(lk, code); err == nil {
				c.Failf("unsupported-code", map[string]interface{}{"code": code}, "GetCommitment accepted unsupported code %d", code)
			}
			if _, err := commitment.GetRevealValue(lk, code); err == nil {
				c.Failf("unsupported-code", map[string]interface{}{"code": code}, "GetRevealValue accepted unsupported code %d", code)
			}
		}
		if i == 0 {
			c.Sample(map[string]interface{}{"jwk": j, "reveal_sha256": k.Reveal(18), "commitment_sha256": k.Commitment(18)})
		}
	}
}

func c04Chain(c *fw.Case) {
	r := c.Rng
	code := uint64(18 + r.Intn(2))
	// all five key types: the configuration admits P-521 / ES512 next to the four shipped ones
	keyType := gen.AllKeyTypes[c.Idx%len(gen.AllKeyTypes)]
	proto := sut.Proto()
	proto.KeyAlgorithms = append(proto.KeyAlgorithms, "P-521")
	proto.SignatureAlgorithms = append(proto.SignatureAlgorithms, "ES512")
	// the nonce size is a protocol parameter: small and large values
	proto.NonceSize = fw.Pick(r, []uint64{16, 16, 1, 32, 33, 48, 64, 128})
	st := sut.SharedStack(proto)
	// anchored operations are judged without the request-time validators: a quarter of the chains is read by a parser whose
	// anchor-origin and anchor-time validators refuse everything - reveal values and commitments are reported all the same
	hostile := &hostileValidators{}
	if c.Idx%4 == 3 {
		st = sut.NewStack(proto, operationparser.WithAnchorOriginValidator(hostile), operationparser.WithAnchorTimeValidator(hostileTime{hostile}))
		c.Count("chains-read-with-refusing-validators", 1)
		defer func() {
			if hostile.calls > 0 {
				c.Failf("request-time-validators-consulted-for-anchored-operations", map[string]interface{}{"calls": hostile.calls}, "GetRevealValue / GetCommitment consulted request-time validators %d times", hostile.calls)
			}
		}()
	}
	nonceMode := c.Idx / len(gen.AllKeyTypes) % 4 // 0: bare keys, 1: every key carries a nonce, 2/3: successors reuse key material and differ in the nonce only
	patches := []interface{}{gen.PAddKeys(gen.RandDocKey(r, "key1"))}
	cs, ch := gen.NewChainCreate(r, code, keyType, patches)
	if nonceMode != 0 {
		ch.UpdateKey = ch.UpdateKey.WithNonce(r, int(proto.NonceSize))
		ch.RecoverKey = ch.RecoverKey.WithNonce(r, int(proto.NonceSize))
		cs.UpdateCommitment = ch.UpdateKey.Commitment(code)
		cs.RecoveryCommitment = ch.RecoverKey.Commitment(code)
	}
	// successor derives the key that follows cur on its chain according to the nonce mode
	successor := func(cur, fresh *gen.Key) *gen.Key {
		switch nonceMode {
		case 1:
			return fresh.WithNonce(r, int(proto.NonceSize))
		case 2, 3:
			// same key material, the nonce alone differs: nonce A -> nonce B -> none -> nonce C ...
			if cur.Nonce != "" && r.Chance(1, 3) {
				k := *cur
				k.Nonce = ""
				return &k
			}
			return cur.WithNonce(r, int(proto.NonceSize))
		}
		return fresh
	}
	cb := cs.Build(r)
	ch.Suffix = cb.Suffix
	// ground truth commitments currently installed on each chain
	updCommit := cs.UpdateCommitment
	recCommit := cs.RecoveryCommitment
	seq := "c"
	if _, err := st.Parser.GetCommitment(cb.Request); err == nil {
		c.Observe("GetCommitment(create) returned a value")
	}
	n := r.Range(1, 7)
	// a chain may move to the other hash algorithm part-way: the reveal value of the next operation still opens a commitment
	// made under the earlier algorithm while its own delta hash and next commitments use the new one
	migrate := c.Idx%3 == 2
	updCode, recCode := code, code
	var sample []string
	sample = append(sample, string(cb.Request))
	for i := 0; i < n; i++ {
		last := i == n-1
		var spec *gen.OpSpec
		var kind string
		switch {
		case last && r.Chance(2, 3):
			kind = "deactivate"
			spec = ch.NextDeactivate()
		case r.Chance(1, 3):
			kind = "recover"
		default:
			kind = "update"
		}
		if migrate && r.Chance(1, 2) {
			code = 37 - code // 18 <-> 19
			c.Count("algorithm-migrations", 1)
		}
		ch.Code = code
		if spec != nil {
			spec.Code = code
		}
		var nextU, nextR *gen.Key
		if kind == "update" {
			spec, nextU = ch.NextUpdate(r, []interface{}{gen.RandSimplePatch(r)})
			nextU = successor(ch.UpdateKey, nextU)
			spec.UpdateCommitment = nextU.Commitment(code)
		} else if kind == "recover" {
			spec, nextU, nextR = ch.NextRecover(r, []interface{}{gen.PAddKeys(gen.RandDocKey(r, "key2"))})
			nextU = successor(ch.UpdateKey, nextU)
			nextR = successor(ch.RecoverKey, nextR)
			spec.UpdateCommitment = nextU.Commitment(code)
			spec.RecoveryCommitment = nextR.Commitment(code)
		}
		if r.Chance(1, 4) && kind != "deactivate" {
			spec.AnchorFrom = int64(r.Range(1, 1000))
		}
		if kind == "update" {
			spec.RevealCode = updCode
		} else {
			spec.RevealCode = recCode
		}
		if r.Chance(1, 3) {
			spec.AnchorFrom, spec.AnchorUntil = int64(r.Range(1, 1000)), int64(r.Range(1000, 2000))
		}
		if r.Chance(1, 3) {
			// the optional key id header is free text: fragments, DID URLs, long values
			spec.Headers = map[string]interface{}{"alg": spec.Signer.Alg(), "kid": fw.Pick(r, []string{"key-1", "#update-key", "did:example:123#key-1", strings.Repeat("k", 80), "key with blanks", "cl\u00e9"})}
		}
		if r.Chance(1, 4) {
			// the signed data may also name the reveal value (an optional member of the signed-data models): still well-formed
			own := spec
			spec.PayloadEdit = func(p map[string]interface{}) {
				k := own.Signer.JWK()
				if rv, err := oracle.RevealValue(own.RevealCode, gen.StructJWK(k)); err == nil {
					p["revealValue"] = rv
				}
			}
		}
		if r.Chance(1, 3) {
			// the key in the signed data in another spelling of the same key model: the empty y of an OKP key left out (RFC 8037 style), an
			// explicit empty nonce, members the model does not have (kid, use, alg, key_ops) - reveal value and commitment are those of the model
			pk := map[string]interface{}{}
			for kk, vv := range spec.Signer.JWK() {
				pk[kk] = vv
			}
			if y, ok := pk["y"]; ok && y == "" {
				delete(pk, "y")
			}
			if _, ok := pk["nonce"]; !ok && r.Bool() {
				pk["nonce"] = ""
			}
			for _, extra := range [][2]string{{"kid", "key-1"}, {"use", "sig"}, {"alg", spec.Signer.Alg()}} {
				if r.Bool() {
					pk[extra[0]] = extra[1]
				}
			}
			spec.PayloadKey = pk
			c.Count("signed-key-in-another-spelling-of-the-model", 1)
		}
		if r.Chance(1, 3) {
			// ... and members its operation type has no use for (a deactivate that names a next commitment or a delta hash, an update that
			// names a recovery commitment): ignored, the operation reports what its type reports
			own, inner := spec, spec.PayloadEdit
			stray := gen.NewKey(r, gen.Ed25519).Commitment(code)
			spec.PayloadEdit = func(p map[string]interface{}) {
				if inner != nil {
					inner(p)
				}
				switch own.Type {
				case "deactivate":
					p["recoveryCommitment"], p["deltaHash"], p["updateCommitment"] = stray, stray, stray
				case "update":
					p["recoveryCommitment"], p["recoveryKey"] = stray, gen.NewKey(r, gen.Ed25519).JWK()
				case "recover":
					p["updateCommitment"], p["updateKey"] = stray, gen.NewKey(r, gen.Ed25519).JWK()
				}
			}
			c.Count("signed-data-with-members-of-other-operation-types", 1)
		}
		b := spec.Build(r)
		seq += kind[:1]
		sample = append(sample, kind)
		// the same request under a parser whose maximum operation size equals its length exactly
		if i == 0 {
			tight := proto
			tight.MaxOperationSize = uint(len(b.Request))
			if rv2, err := sut.SharedStack(tight).Parser.GetRevealValue(b.Request); err != nil {
				c.Failf("reveal-error-at-size-limit", map[string]interface{}{"request": string(b.Request), "MaxOperationSize": len(b.Request), "err": err.Error()}, "GetRevealValue fails when the operation is exactly MaxOperationSize bytes: %v", err)
			} else {
				_ = rv2
			}
		}
		if r.Chance(1, 3) {
			c04Poison(c)
		}
		rv, err := st.Parser.GetRevealValue(b.Request)
		c.Evals(2)
		c.Count("chain-links", 1)
		if err != nil {
			c.Failf("reveal-error", map[string]interface{}{"request": string(b.Request), "err": err.Error()}, "parser.GetRevealValue failed on a well-formed %s: %v", kind, err)
			return
		}
		derived, err := commitment.GetCommitmentFromRevealValue(rv)
		if err != nil {
			c.Failf("derive-error", map[string]interface{}{"reveal": rv, "err": err.Error()}, "GetCommitmentFromRevealValue failed: %v", err)
			return
		}
		prev := updCommit
		if kind != "update" {
			prev = recCommit
		}
		if derived != prev {
			c.Failf("chain-link-broken", map[string]interface{}{"request": string(b.Request), "reveal": rv, "derived_commitment": derived, "predecessor_commitment": prev, "sequence": seq},
				"%s: commitment derived from reveal value does not match its predecessor's commitment", kind)
		}
		got, err := st.Parser.GetCommitment(b.Request)
		if err != nil {
			c.Failf("commitment-error", map[string]interface{}{"request": string(b.Request), "err": err.Error()}, "parser.GetCommitment failed on a well-formed %s: %v", kind, err)
			return
		}
		switch kind {
		case "update":
			if got != spec.UpdateCommitment {
				c.Failf("reported-commitment", map[string]interface{}{"got": got, "want": spec.UpdateCommitment}, "update reports wrong next commitment")
			}
			updCommit = spec.UpdateCommitment
			ch.UpdateKey = nextU
			updCode = code
		case "recover":
			if got != spec.RecoveryCommitment {
				c.Failf("reported-commitment", map[string]interface{}{"got": got, "want": spec.RecoveryCommitment}, "recover reports wrong next commitment")
			}
			recCommit = spec.RecoveryCommitment
			updCommit = spec.UpdateCommitment
			ch.UpdateKey = nextU
			ch.RecoverKey = nextR
			updCode, recCode = code, code
		case "deactivate":
			c.Count("deactivate-no-commitment", 1)
			if got != "" {
				c.Failf("deactivate-commitment", map[string]interface{}{"got": got}, "deactivate reports a next commitment")
			}
		}
	}
	c.Sig("chain", seq, keyType, code, nonceMode, migrate)
	c.Sample(map[string]interface{}{"sequence": seq, "key_type": keyType, "code": code, "nonce_mode": nonceMode, "create_request": fmt.Sprintf("%.300s", cb.Request)})
}
