package checks

import (
	"bytes"
	"encoding/json"
	"fmt"
	"math"
	"strconv"
	"strings"
	"sync"

	"github.com/trustbloc/sidetree-go/pkg/canonicalizer"

	"verifharness/fw"
	"verifharness/gen"
	"verifharness/oracle"
)

func init() {
	fw.Register(&fw.Check{
		ID:          "C05",
		Rule:        "cases: (a) batches of doubles drawn from directed classes (random bit patterns, subnormals, powers of 2/10 and neighbours, the 1e21/1e-6 layout switch points, integers in [1e11,1e21) with trailing zeros, 2^53 neighbourhood, extremes), each fed in a random JSON spelling and as a Go value; (b) strings / member names over all Unicode planes in random escape spellings; (c) nested structured values re-spelled 3x (member order, whitespace, escapes, number spelling); (d) fixed RFC 8785 vectors. Oracle: harness RFC 8785 serializer with an exact math/big ES6 number formatter. distinct_nontrivial = distinct (class, decimal exponent, digit count) for numbers and distinct token-shape hashes for structured values.",
		Assumptions: []string{"encoding/json decoding, strconv.ParseFloat correctly rounded, math/big", "harness reference JCS implementation (self-tested against RFC 8785 vectors at worker start)"},
		Require:     []string{"numbers", "strings", "structured", "govalue-path", "bytes-path"},
		Run:         runC05,
	})
}

type jcsVector struct{ in, out string }

var jcsVectors = []jcsVector{
	{`{"numbers":[333333333.33333329,1E30,4.50,2e-3,0.000000000000000000000000001],"string":"\u20ac$\u000F\u000aA'\u0042\u0022\u005c\\\"\/","literals":[null,true,false]}`,
		`{"literals":[null,true,false],"numbers":[333333333.3333333,1e+30,4.5,0.002,1e-27],"string":"€$\u000f\nA'B\"\\\\\"/"}`},
	{`{"\u20ac":"Euro Sign","\r":"Carriage Return","\ufb33":"Hebrew Letter Dalet With Dagesh","1":"One","\ud83d\ude00":"Emoji: Grinning Face","\u0080":"Control","\u00f6":"Latin Small Letter O With Diaeresis"}`,
		"{\"\\r\":\"Carriage Return\",\"1\":\"One\",\"\u0080\":\"Control\",\"ö\":\"Latin Small Letter O With Diaeresis\",\"€\":\"Euro Sign\",\"😀\":\"Emoji: Grinning Face\",\"\ufb33\":\"Hebrew Letter Dalet With Dagesh\"}"},
}

var es6Vectors = []struct {
	bits uint64
	out  string
}{
	{0x0000000000000000, "0"}, {0x8000000000000000, "0"}, {0x0000000000000001, "5e-324"}, {0x8000000000000001, "-5e-324"},
	{0x7fefffffffffffff, "1.7976931348623157e+308"}, {0xffefffffffffffff, "-1.7976931348623157e+308"},
	{0x4340000000000000, "9007199254740992"}, {0xc340000000000000, "-9007199254740992"}, {0x4430000000000000, "295147905179352830000"},
	{0x44b52d02c7e14af5, "9.999999999999997e+22"}, {0x44b52d02c7e14af6, "1e+23"}, {0x44b52d02c7e14af7, "1.0000000000000001e+23"},
	{0x444b1ae4d6e2ef4e, "999999999999999700000"}, {0x444b1ae4d6e2ef4f, "999999999999999900000"}, {0x444b1ae4d6e2ef50, "1e+21"},
	{0x3eb0c6f7a0b5ed8c, "9.999999999999997e-7"}, {0x3eb0c6f7a0b5ed8d, "0.000001"},
	{0x41b3de4355555553, "333333333.3333332"}, {0x41b3de4355555554, "333333333.33333325"}, {0x41b3de4355555555, "333333333.3333333"},
	{0x41b3de4355555556, "333333333.3333334"}, {0x41b3de4355555557, "333333333.33333343"},
	{0xbecbf647612f3696, "-0.0000033333333333333333"}, {0x43143ff3c1cb0959, "1424953923781206.2"},
}

func c05SelfTest() error {
	for _, v := range es6Vectors {
		got, err := oracle.ES6Number(math.Float64frombits(v.bits))
		if err != nil || got != v.out {
			return fmt.Errorf("oracle ES6 self-test failed for %x: got %q want %q (%v)", v.bits, got, v.out, err)
		}
	}
	for _, v := range jcsVectors {
		got, err := oracle.JCS([]byte(v.in))
		if err != nil || string(got) != v.out {
			return fmt.Errorf("oracle JCS self-test failed: got %q want %q (%v)", got, v.out, err)
		}
	}
	return nil
}

func canon(c *fw.Case, in []byte) ([]byte, error) {
	c.Count("bytes-path", 1)
	if c.Rng.Chance(1, 8) {
		// a document the canonicalizer has to give up on half-way comes first: nothing of it shows in the next result
		bad := fw.Pick(c.Rng, []string{`{"alpha":1,"beta":tru}`, `{"a":1,"a":2}`, `{"k":{"x":1,"y":[1,2,`, `[{"m":1},{"n":"unterminated]`, `{"z":1,}`, `{"p":{"q":{"r":1,"r":2}}}`})
		canonicalizer.MarshalCanonical([]byte(bad))
		c.Count("malformed-documents-canonicalized-in-between", 1)
	}
	return canonicalizer.MarshalCanonical(in)
}

func runC05(r *fw.Runner) {
	if err := c05SelfTest(); err != nil {
		panic("SELFTEST " + err.Error())
	}
	// wide, flat documents: thousands of empty or small containers next to each other are not deep nesting
	for _, shape := range []string{"empty-objects", "empty-arrays", "pairs", "records-with-empty-member", "mixed"} {
		shape := shape
		for _, n := range []int{1200, 12000} {
			n := n
			r.Case("wide-documents", func(c *fw.Case) {
				var sb strings.Builder
				sb.WriteString(`{"list":[`)
				for i := 0; i < n; i++ {
					if i > 0 {
						sb.WriteByte(',')
					}
					switch shape {
					case "empty-objects":
						sb.WriteString("{}")
					case "empty-arrays":
						sb.WriteString("[]")
					case "pairs":
						fmt.Fprintf(&sb, "[%d,%d]", i, i+1)
					case "records-with-empty-member":
						fmt.Fprintf(&sb, `{"meta":{},"id":%d,"tags":[]}`, i)
					default:
						sb.WriteString([]string{"{}", "[]", `[[]]`, `{"a":{}}`, "1"}[i%5])
					}
				}
				sb.WriteString(`],"z":1,"a":{}}`)
				in := []byte(sb.String())
				c.Count("wide-documents", 1)
				c.Evals(2)
				c.Sig("wide", shape, n)
				v, _ := oracle.ParseJSON(in)
				want := string(oracle.MustJCS(v))
				out, err := canonicalizer.MarshalCanonical(in)
				if err != nil || string(out) != want {
					c.Failf("wide-document", map[string]interface{}{"shape": shape, "containers": n, "err": fmt.Sprint(err), "got_prefix": fmt.Sprintf("%.80s", out)}, "a flat document with %d %s is not canonicalized (err=%v)", n, shape, err)
					return
				}
				var gv interface{}
				if json.Unmarshal(in, &gv) == nil {
					out2, err2 := canonicalizer.MarshalCanonical(gv)
					if err2 != nil || string(out2) != want {
						c.Failf("wide-document", map[string]interface{}{"shape": shape, "containers": n, "route": "go-value", "err": fmt.Sprint(err2)}, "a flat Go value with %d %s is not canonicalized (err=%v)", n, shape, err2)
					}
				}
			})
		}
	}
	// the canonical form of a value does not depend on what other goroutines canonicalize at the same moment
	for b := 0; b < r.N(1, 3); b++ {
		r.Case("canonicalized-from-many-goroutines", func(c *fw.Case) { c05Concurrent(c) })
	}
	// very many distinct documents of one length, each already canonical (its canonical form is itself): whatever the canonicalizer
	// remembers between calls under a short key (a 32-bit digest and the length, say) hands out another document's form sooner or later
	for b := 0; b < r.N(40, 400); b++ {
		b := b
		r.Case("many-distinct-documents-of-one-length", func(c *fw.Case) {
			const per = 500000
			buf := []byte(`["0000000000000000"]`)
			base := uint64(b)*per + uint64(r.Seed)<<40
			for i := uint64(0); i < per; i++ {
				// scrambled, so that documents remembered at the same time differ in every position (digests with weak diffusion
				// seldom collide on neighbours)
				v := (base + i) * 0x9E3779B97F4A7C15
				v ^= v >> 29
				v *= 0xBF58476D1CE4E5B9
				v ^= v >> 32
				for d := 17; d >= 2; d-- {
					buf[d] = "0123456789abcdef"[v&15]
					v >>= 4
				}
				out, err := canonicalizer.MarshalCanonical(buf)
				if err != nil || string(out) != string(buf) {
					c.Failf("canonical-document-not-a-fixed-point", map[string]interface{}{"input": string(buf), "output": string(out), "err": fmt.Sprint(err), "documents_before_in_this_case": i},
						"a canonical document did not canonicalize to itself (after %d other documents of the same length in this case)", i)
					return
				}
			}
			c.Evals(per)
			c.Count("distinct-documents-of-one-length", per)
			c.Sig("one-length-sweep", b%4)
		})
	}
	// (d) fixed vectors against the code under test
	r.Case("rfc8785-vectors", func(c *fw.Case) {
		for i, v := range jcsVectors {
			out, err := canon(c, []byte(v.in))
			c.Evals(1)
			c.Sig("vec", i)
			if err != nil || string(out) != v.out {
				c.Failf("vector", map[string]interface{}{"input": v.in, "expected": v.out, "got": string(out), "err": fmt.Sprint(err)}, "RFC 8785 vector %d mismatch", i)
			}
		}
		for _, v := range es6Vectors {
			f := math.Float64frombits(v.bits)
			in := "[" + strconv.FormatFloat(f, 'e', -1, 64) + "]"
			out, err := canon(c, []byte(in))
			c.Evals(1)
			c.Sig("es6vec", v.bits)
			if err != nil || string(out) != "["+v.out+"]" {
				c.Failf("es6-vector", map[string]interface{}{"input": in, "expected": v.out, "got": string(out), "err": fmt.Sprint(err)}, "ES6 number vector %x mismatch", v.bits)
			}
		}
		c.Sample(map[string]interface{}{"input": jcsVectors[0].in, "output": jcsVectors[0].out})
	})

	// (a0) systematic numbers: every binary exponent x characteristic mantissas, every power of ten and its two neighbours
	for part := 0; part < 8; part++ {
		part := part
		r.Case("numbers-systematic", func(c *fw.Case) {
			mants := []uint64{0, 1, 2, 0x8000000000000, 0xfffffffffffff, 0xaaaaaaaaaaaaa, 0x5555555555555, 0xffffffffffffe, 0x10000000, 0xfffff00000000}
			n := 0
			for e := uint64(part); e < 2047; e += 8 {
				for _, m := range mants {
					f := math.Float64frombits(e<<52 | m)
					c05OneNumber(c, f, "systematic-exponent")
					c05OneNumber(c, -f, "systematic-exponent")
					n += 2
				}
			}
			if part == 0 {
				for e10 := -324; e10 <= 308; e10++ {
					f, err := strconv.ParseFloat("1e"+strconv.Itoa(e10), 64)
					if err != nil && !math.IsInf(f, 0) && f != 0 {
						continue
					}
					if math.IsInf(f, 0) {
						continue
					}
					for d := -2; d <= 2; d++ {
						g := math.Float64frombits(uint64(int64(math.Float64bits(f)) + int64(d)))
						if !math.IsNaN(g) && !math.IsInf(g, 0) {
							c05OneNumber(c, g, "systematic-pow10")
							n++
						}
					}
				}
			}
			c.Count("numbers", n)
		})
	}
	// (a) numbers
	nb := r.N(60, 2400)
	per := r.N(2500, 8000)
	for b := 0; b < nb; b++ {
		r.Case("numbers", func(c *fw.Case) {
			c05Numbers(c, per)
		})
	}
	// (b) strings
	for b := 0; b < r.N(40, 600); b++ {
		r.Case("strings", func(c *fw.Case) {
			c05Strings(c, r.N(300, 1000))
		})
	}
	// (c) structured
	for b := 0; b < r.N(60, 1500); b++ {
		r.Case("structured", func(c *fw.Case) {
			c05Structured(c, r.N(150, 400))
		})
	}
	// deep nesting
	r.Case("nesting", func(c *fw.Case) {
		for _, depth := range []int{1, 2, 8, 33, 64, 200, 1000} {
			var v interface{} = float64(1)
			for i := 0; i < depth; i++ {
				if i%2 == 0 {
					v = []interface{}{v, "x"}
				} else {
					v = map[string]interface{}{"b": v, "a": nil}
				}
			}
			c05CheckValue(c, v, "nest", 2)
			c.Sig("nest", depth)
		}
	})
}

func c05Numbers(c *fw.Case, n int) {
	r := c.Rng
	c.Count("numbers", n)
	for i := 0; i < n; i++ {
		f, class := gen.RandDoubleClass(r)
		want, err := oracle.ES6Number(f)
		if err != nil {
			c.Inconclusive("oracle-number-error")
			continue
		}
		c.Evals(1)
		exp := 0
		if f != 0 {
			exp = int(math.Floor(math.Log10(math.Abs(f))))
		}
		c.Sig("num", class, exp/4, len(want))
		sp := gen.SpellNumber(r, f)
		in := "[" + sp + "]"
		out, cerr := canon(c, []byte(in))
		if cerr != nil || string(out) != "["+want+"]" {
			c.Failf("number-format", map[string]interface{}{"double_bits": fmt.Sprintf("%016x", math.Float64bits(f)), "spelling": sp, "expected": want, "got": string(out), "err": fmt.Sprint(cerr), "class": class},
				"number %s canonicalized to %s, ES6 says %s", sp, out, want)
			continue
		}
		if i%16 == 0 {
			// Go-value path and a second spelling
			c.Count("govalue-path", 1)
			out2, err2 := canonicalizer.MarshalCanonical(map[string]interface{}{"n": f})
			if err2 != nil || string(out2) != `{"n":`+want+`}` {
				c.Failf("number-format-govalue", map[string]interface{}{"double_bits": fmt.Sprintf("%016x", math.Float64bits(f)), "expected": want, "got": string(out2), "err": fmt.Sprint(err2)},
					"Go value %v canonicalized to %s, ES6 says %s", f, out2, want)
			}
			// fixed point
			out3, err3 := canon(c, out)
			if err3 != nil || !bytes.Equal(out3, out) {
				c.Failf("not-fixed-point", map[string]interface{}{"input": string(out), "got": string(out3)}, "canon(canon(x)) != canon(x)")
			}
		}
		if i == 0 {
			c.Sample(map[string]interface{}{"class": class, "spelling": sp, "canonical": want})
		}
	}
}

func c05Strings(c *fw.Case, n int) {
	r := c.Rng
	c.Count("strings", n)
	for i := 0; i < n; i++ {
		s := gen.RandString(r, 12)
		name := gen.RandString(r, 4)
		v := map[string]interface{}{name: s}
		c05CheckValue(c, v, "str", 2)
		if i == 0 {
			c.Sample(map[string]interface{}{"value": v, "canonical": string(oracle.MustJCS(v))})
		}
	}
}

func shape(v interface{}, sb *strings.Builder, depth int) {
	switch t := v.(type) {
	case nil:
		sb.WriteByte('n')
	case bool:
		sb.WriteByte('b')
	case string:
		k := 's'
		for _, c := range t {
			if c < 0x20 {
				k = 'c'
			} else if c >= 0x10000 {
				k = 'S'
			} else if c >= 0x80 && k == 's' {
				k = 'u'
			}
		}
		sb.WriteRune(k)
	case float64, json.Number, int:
		sb.WriteByte('#')
	case []interface{}:
		sb.WriteByte('[')
		if depth < 3 {
			for _, e := range t {
				shape(e, sb, depth+1)
			}
		}
		sb.WriteByte(']')
	case map[string]interface{}:
		sb.WriteByte('{')
		fmt.Fprintf(sb, "%d", len(t))
		if depth < 2 {
			keys := make([]string, 0, len(t))
			for k := range t {
				keys = append(keys, k)
			}
			oracle.SortUTF16(keys)
			for _, k := range keys {
				shape(t[k], sb, depth+1)
			}
		}
		sb.WriteByte('}')
	}
}

func c05Structured(c *fw.Case, n int) {
	r := c.Rng
	c.Count("structured", n)
	for i := 0; i < n; i++ {
		var v interface{}
		if r.Bool() {
			v = gen.RandObject(r, 3)
		} else {
			v = []interface{}{gen.RandValue(r, 3), gen.RandValue(r, 2)}
		}
		c05CheckValue(c, v, "struct", 3)
		if i == 0 {
			c.Sample(map[string]interface{}{"spelling": string(gen.Spell(r, v, gen.AllSpell)), "canonical": string(oracle.MustJCS(v))})
		}
	}
}

// c05CheckValue runs every C05 oracle on one value with k random spellings.
func c05CheckValue(c *fw.Case, v interface{}, kind string, k int) {
	r := c.Rng
	want, err := oracle.JCSValue(v)
	if err != nil {
		c.Inconclusive("oracle-error")
		return
	}
	var sb strings.Builder
	shape(v, &sb, 0)
	c.Sig(kind, sb.String())
	var first []byte
	for j := 0; j < k; j++ {
		in := gen.Spell(r, v, gen.AllSpell)
		// sanity: the spelling must denote v (trusted decoder); otherwise the generator is wrong
		back, perr := oracle.ParseJSON(in)
		if perr != nil || !oracle.JSONEqual(back, v) {
			c.Inconclusive("generator-spelling-not-equal")
			continue
		}
		out, cerr := canon(c, in)
		c.Evals(1)
		if cerr != nil {
			c.Failf("error-on-valid-input", map[string]interface{}{"input": string(in), "err": cerr.Error()}, "canonicalizer refused valid I-JSON: %v", cerr)
			return
		}
		if !bytes.Equal(out, want) {
			c.Failf("not-rfc8785", map[string]interface{}{"input": string(in), "expected": string(want), "got": string(out)}, "output differs from RFC 8785 form")
			return
		}
		if first == nil {
			first = out
			// fixed point + denotes same value
			out2, err2 := canon(c, out)
			if err2 != nil || !bytes.Equal(out2, out) {
				c.Failf("not-fixed-point", map[string]interface{}{"input": string(out), "got": string(out2), "err": fmt.Sprint(err2)}, "canon(canon(x)) != canon(x)")
			}
			pv, err3 := oracle.ParseJSON(out)
			if err3 != nil || !oracle.JSONEqual(pv, v) {
				c.Failf("value-changed", map[string]interface{}{"input": string(in), "got": string(out)}, "canonical output does not denote the input value")
			}
		} else if !bytes.Equal(out, first) {
			c.Failf("spelling-dependent", map[string]interface{}{"input": string(in), "got": string(out), "other": string(first)}, "two spellings of one value canonicalize differently")
		}
	}
	// Go-value path
	c.Count("govalue-path", 1)
	out, gerr := canonicalizer.MarshalCanonical(v)
	c.Evals(1)
	if gerr != nil || !bytes.Equal(out, want) {
		c.Failf("govalue-not-rfc8785", map[string]interface{}{"expected": string(want), "got": string(out), "err": fmt.Sprint(gerr)}, "Go value canonicalized differently from RFC 8785 form")
	}
}

// c05OneNumber checks one double through the byte path against the ES6 oracle.
func c05OneNumber(c *fw.Case, f float64, class string) {
	want, err := oracle.ES6Number(f)
	if err != nil {
		return
	}
	c.Evals(1)
	sp := gen.SpellNumber(c.Rng, f)
	out, cerr := canon(c, []byte("["+sp+"]"))
	exp := 0
	if f != 0 {
		exp = int(math.Floor(math.Log10(math.Abs(f))))
	}
	c.Sig("num", class, exp/4, len(want))
	if cerr != nil || string(out) != "["+want+"]" {
		c.Failf("number-format", map[string]interface{}{"double_bits": fmt.Sprintf("%016x", math.Float64bits(f)), "spelling": sp, "expected": want, "got": string(out), "err": fmt.Sprint(cerr), "class": class},
			"number %s canonicalized to %s, ES6 says %s", sp, out, want)
	}
}

// c05Concurrent: 16 goroutines canonicalize their own values (Go values and raw bytes) at once; every result is the reference form.
func c05Concurrent(c *fw.Case) {
	r := c.Rng
	const G, per = 16, 40
	type job struct {
		v    interface{}
		raw  []byte
		want string
	}
	jobs := make([][]job, G)
	for g := 0; g < G; g++ {
		for i := 0; i < per; i++ {
			v := gen.RandObject(r, 2)
			v["goroutine"], v["i"] = g, i
			v["pad"] = strings.Repeat(string(rune('a'+g)), r.Range(10, 3000))
			j := job{v: v, want: string(oracle.MustJCS(v))}
			if i%2 == 1 {
				j.raw = gen.Spell(r, oracle.MustGeneric(v), gen.AllSpell)
				j.v = nil
			}
			jobs[g] = append(jobs[g], j)
		}
	}
	var mu sync.Mutex
	var bad []string
	var wg sync.WaitGroup
	for g := 0; g < G; g++ {
		wg.Add(1)
		go func(g int) {
			defer wg.Done()
			defer func() {
				if p := recover(); p != nil {
					mu.Lock()
					bad = append(bad, fmt.Sprintf("panic: %v", p))
					mu.Unlock()
				}
			}()
			for round := 0; round < 3; round++ {
				for _, j := range jobs[g] {
					var out []byte
					var err error
					if j.raw != nil {
						out, err = canonicalizer.MarshalCanonical(j.raw)
					} else {
						out, err = canonicalizer.MarshalCanonical(j.v)
					}
					if err != nil || string(out) != j.want {
						mu.Lock()
						bad = append(bad, fmt.Sprintf("err=%v got=%.120s want=%.120s", err, out, j.want))
						mu.Unlock()
					}
				}
			}
		}(g)
	}
	wg.Wait()
	c.Count("concurrent-canonicalizations", G*per*3)
	c.Evals(G * per * 3)
	c.Sig("concurrent")
	if len(bad) > 0 {
		c.Failf("wrong-canonical-form-under-concurrent-use", map[string]interface{}{"failures": len(bad), "first": bad[0], "goroutines": G}, "%d of %d canonicalizations made by %d goroutines at once are wrong: %s", len(bad), G*per*3, G, bad[0])
	}
}
