package checks

import (
	"bytes"
	"fmt"
	"github.com/trustbloc/sidetree-go/pkg/versions/1_0/doccomposer"
	"github.com/trustbloc/sidetree-go/pkg/versions/1_0/operationapplier"
	"strconv"

	"github.com/trustbloc/sidetree-go/pkg/api/protocol"
	"github.com/trustbloc/sidetree-go/pkg/versions/1_0/operationparser"

	"verifharness/fw"
	"verifharness/gen"
	"verifharness/oracle"
	"verifharness/sut"
)

func init() {
	fw.Register(&fw.Check{
		ID:          "C09",
		Rule:        "cases: the finite grid from in {absent, a} (plus negative signed bounds: from in {-5, -50, -2^62, -D-5, -D+7}, until in {-50, -5, -2^62}) x until in {absent, a-5, a, a+5, a+D-1, a+D, a+D+1} x anchoring time t in {from-1, from, from+1, until-1, until, until+1, from+D-1, from+D, from+D+1} x {update, recover, deactivate} x D=MaxOperationTimeDelta in {0, 1, 600, 7200}, enumerated completely; each grid point executed through the real applier after a valid create and compared in full with the state model whose window predicate is the one-line statement; then each other numeric protocol limit (MaxDeltaSize, MaxOperationSize, MaxOperationHashLength, NonceSize, MaxOperationCount, MaxCasURILength, the four file-size limits, GenesisTime, MaxMemoryDecompressionFactor) is set to values bracketing the grid's times and the verdicts must not move; finally non-batch parsing with a recording time validator must hand over exactly (from, until'). distinct = distinct (type, D, from?, until class, t class, verdict).",
		Assumptions: []string{"harness state machine and patch model", "the window predicate of the statement"},
		Exhaustive:  func(tier string) bool { return tier == "thorough" },
		Require:     []string{"grid-points", "in-window", "out-of-window", "other-parameter-variations", "time-validator-calls", "applier-with-refusing-validator"},
		Workers:     func(string) int { return 15 },
		Run:         runC09,
	})
}

const c09A = int64(1000000)

type gridPoint struct {
	from, until int64
	t           uint64
	untilClass  string
	tClass      string
}

func c09Grid(delta int64) []gridPoint {
	var pts []gridPoint
	seen := map[string]bool{}
	for _, from := range []int64{0, c09A} {
		untils := []struct {
			v int64
			c string
		}{{0, "absent"}, {c09A - 5, "before-from"}, {c09A, "equal-from"}, {c09A + 5, "after-from"}, {c09A + delta - 1, "from+D-1"}, {c09A + delta, "from+D"}, {c09A + delta + 1, "from+D+1"}}
		for _, u := range untils {
			if u.v < 0 {
				continue
			}
			base := from
			if base == 0 {
				base = c09A
			}
			ts := []struct {
				v int64
				c string
			}{{base - 1, "from-1"}, {base, "from"}, {base + 1, "from+1"}, {base + delta - 1, "from+D-1"}, {base + delta, "from+D"}, {base + delta + 1, "from+D+1"}}
			if u.v != 0 {
				ts = append(ts, struct {
					v int64
					c string
				}{u.v - 1, "until-1"}, struct {
					v int64
					c string
				}{u.v, "until"}, struct {
					v int64
					c string
				}{u.v + 1, "until+1"})
			}
			for _, t := range ts {
				if t.v <= 0 {
					continue
				}
				key := fmt.Sprint(from, u.v, t.v)
				if seen[key] {
					continue
				}
				seen[key] = true
				pts = append(pts, gridPoint{from: from, until: u.v, t: uint64(t.v), untilClass: u.c, tClass: t.c})
			}
		}
	}
	// negative signed bounds: the comparison stays a signed one (from <= t always holds for from < 0, a negative until' has always passed)
	for _, n := range []struct {
		from, until int64
		c           string
	}{{-5, 0, "neg-from"}, {-5, c09A, "neg-from"}, {0, -50, "neg-until"}, {c09A, -50, "neg-until"}, {-5, -50, "neg-both"}, {-50, -5, "neg-both"},
		{-1 << 62, 0, "neg-from-huge"}, {0, -1 << 62, "neg-until-huge"}, {-delta - 5, 0, "neg-from-default-until-neg"}, {-delta + 7, 0, "neg-from-default-until-pos"}} {
		for _, t := range []struct {
			v int64
			c string
		}{{1, "one"}, {6, "six"}, {7, "seven"}, {8, "eight"}, {delta - 6, "D-6"}, {delta - 5, "D-5"}, {delta - 4, "D-4"}, {c09A - 1, "A-1"}, {c09A, "A"}, {c09A + 1, "A+1"}} {
			if t.v <= 0 {
				continue
			}
			key := fmt.Sprint(n.from, n.until, t.v)
			if seen[key] {
				continue
			}
			seen[key] = true
			pts = append(pts, gridPoint{from: n.from, until: n.until, t: uint64(t.v), untilClass: n.c, tClass: t.c})
		}
	}
	// a default until' of exactly zero (from = -D, until absent) is a bound like any other: passed at every later anchoring time
	if delta > 0 {
		for _, t := range []uint64{1, 6, uint64(c09A), 1 << 40} {
			pts = append(pts, gridPoint{from: -delta, until: 0, t: t, untilClass: "neg-from-default-until-zero", tClass: fmt.Sprint("t", t)})
		}
		pts = append(pts, gridPoint{from: -delta, until: 0, t: 0, untilClass: "neg-from-default-until-zero", tClass: "zero"})
	}
	// bounds one beyond what a double can tell apart (2^53 + 1, 2^53 + 3, 2^62 + 1): the comparison is one of integers
	for _, b := range []int64{1 << 53, 1 << 62} {
		for _, n := range []struct {
			from, until int64
			t           uint64
			c           string
		}{{b + 1, 0, uint64(b), "from-1"}, {b + 1, 0, uint64(b) + 1, "from"}, {b + 1, b + 3, uint64(b) + 3, "until"}, {b + 1, b + 3, uint64(b) + 4, "until+1"},
			{c09A, b + 3, uint64(b) + 4, "until+1"}, {c09A, b + 3, uint64(b) + 2, "until-1"}, {b - 1, b + 1, uint64(b) + 2, "until+1"}, {b + 3, b + 5, uint64(b) + 2, "from-1"}} {
			pts = append(pts, gridPoint{from: n.from, until: n.until, t: n.t, untilClass: "beyond-double-precision", tClass: n.c})
		}
	}
	// no bounds at all: effective at every anchoring time, up to the largest the field can hold
	for _, t := range []uint64{1 << 62, 1<<63 - 1, 1 << 63, 1<<63 + 5, 1<<64 - 1} {
		pts = append(pts, gridPoint{from: 0, until: 0, t: t, untilClass: "none", tClass: "huge"})
	}
	// anchoring time 0 is an anchoring time like any other
	for _, n := range []struct {
		from, until int64
		c           string
	}{{c09A, 0, "absent"}, {1, 0, "absent"}, {1, 5, "after-from"}, {0, 5, "until-only"}, {0, -50, "neg-until"}, {-5, 0, "neg-from"}, {-5, -1, "neg-both"}, {0, 0, "none"}} {
		pts = append(pts, gridPoint{from: n.from, until: n.until, t: 0, untilClass: n.c, tClass: "zero"})
	}
	return pts
}

func c09Proto(delta uint64) protocol.Protocol {
	p := histProto(true)
	p.MaxOperationTimeDelta = delta
	return p
}

func c09Run(c *fw.Case, typ byte, keyType string, proto protocol.Protocol, g gridPoint) {
	delta := proto.MaxOperationTimeDelta
	in := oracle.Window(g.from, g.until, g.t, delta)
	if in {
		c.Count("in-window", 1)
	} else {
		c.Count("out-of-window", 1)
	}
	c.Count("grid-points", 1)
	c.Sig(typ, delta, g.from != 0, g.from < 0, g.untilClass, g.tClass, in)
	plan := []planEntry{{'c', "valid", nil}, {typ, fmt.Sprintf("window[from=%d,until=%d,t=%d,D=%d]", g.from, g.until, g.t, delta), func(h *histCtx, s *opStep) {
		s.Spec.AnchorFrom, s.Spec.AnchorUntil = g.from, g.until
		// integers beyond 2^53 are no doubles: their exact digits are written into the serialized payload in place of stand-ins
		const big = int64(1) << 53
		if g.from > big || g.from < -big {
			s.Spec.AnchorFrom = 1234567890123
			s.Spec.RawPayload = func(b []byte) []byte {
				return bytes.Replace(b, []byte(`"anchorFrom":1234567890123`), []byte(`"anchorFrom":`+strconv.FormatInt(g.from, 10)), 1)
			}
		}
		if g.until > big || g.until < -big {
			s.Spec.AnchorUntil = 1234567890124
			inner := s.Spec.RawPayload
			s.Spec.RawPayload = func(b []byte) []byte {
				if inner != nil {
					b = inner(b)
				}
				return bytes.Replace(b, []byte(`"anchorUntil":1234567890124`), []byte(`"anchorUntil":`+strconv.FormatInt(g.until, 10)), 1)
			}
		}
		s.Anchor.Time = g.t
		s.Facts.InWindow = in
	}}}
	// longer histories in front of the operation under test: an earlier operation anchored LATER than it (windows are judged at the
	// operation's own anchoring time), or a recover that was out of its window and left an empty document behind
	switch (c.Idx / 3) % 4 {
	case 1:
		later := g.t + 5000
		plan = []planEntry{plan[0], {'u', "valid-anchored-later", func(h *histCtx, s *opStep) {
			s.Spec.AnchorFrom, s.Spec.AnchorUntil = 0, 0
			s.Anchor.Time = later
		}}, plan[1]}
		c.Count("histories-with-non-monotonic-times", 1)
	case 2:
		plan = []planEntry{plan[0], {'r', "recover-before-its-window", func(h *histCtx, s *opStep) {
			s.Spec.AnchorFrom, s.Spec.AnchorUntil = int64(s.Anchor.Time)+1000, 0
			s.Facts.InWindow = false
		}}, plan[1]}
		c.Count("histories-after-degraded-recover", 1)
	}
	// the applier is also reachable as a struct literal over its exported members, and its protocol member may be (re)assigned
	// after construction: the window follows the applier's protocol by every route
	route := c.Idx % 3
	if histNoRequestParse {
		route = 0 // the caller installed its own stack factory
	}
	switch route {
	case 1:
		old := histStackFactory
		histStackFactory = func(p protocol.Protocol) *sut.Stack {
			parser := operationparser.New(p)
			dc := doccomposer.New()
			return &sut.Stack{P: p, Parser: parser, Composer: dc, Applier: &operationapplier.Applier{Protocol: p, OperationParser: parser, DocumentComposer: dc}}
		}
		defer func() { histStackFactory = old }()
		c.Count("applier-as-struct-literal", 1)
	case 2:
		old := histStackFactory
		histStackFactory = func(p protocol.Protocol) *sut.Stack {
			first := p
			first.MaxOperationTimeDelta = p.MaxOperationTimeDelta + 777
			st := sut.NewStack(first)
			st.Applier.Protocol = p
			st.P = p
			return st
		}
		defer func() { histStackFactory = old }()
		c.Count("applier-protocol-assigned-after-construction", 1)
	}
	// both configured hash algorithms (the protocol lists SHA-256 first, SHA-512 second)
	runHistoryProto(c, plan, keyType, uint64(18+c.Idx%2), proto, true, "C01")
}

// valueValidator is a validator passed BY VALUE whose value is the zero value of its type (e.g. a server-time validator whose
// clock reads 0): configured is configured.
type valueValidator struct{ serverTime int64 }

var valueValidatorCalls [][2]int64

func (v valueValidator) Validate(from, until int64) error {
	valueValidatorCalls = append(valueValidatorCalls, [2]int64{from, until})
	return nil
}

type recValidator struct {
	calls [][2]int64
	err   error
}

func (v *recValidator) Validate(from, until int64) error {
	v.calls = append(v.calls, [2]int64{from, until})
	return v.err
}

func runC09(r *fw.Runner) {
	deltas := []uint64{0, 600}
	keyTypes := []string{gen.Ed25519}
	if r.Thorough {
		deltas = []uint64{0, 1, 600, 7200}
		keyTypes = []string{gen.Ed25519, gen.P256, gen.Secp256k1}
	}
	for _, d := range deltas {
		d := d
		grid := c09Grid(int64(d))
		for _, typ := range []byte("urd") {
			typ := typ
			for ki, kt := range keyTypes {
				kt := kt
				for gi, g := range grid {
					g := g
					if ki > 0 && gi%3 != ki-1 {
						continue // the other key types sample a third of the grid each
					}
					r.Case("grid-"+typeName(typ), func(c *fw.Case) { c09Run(c, typ, kt, c09Proto(d), g) })
				}
			}
		}
	}
	// deltas far beyond any duration type's range in nanoseconds (292 years are 9.2e9 s): the default end is from + D all the same
	for _, d := range []uint64{1 << 34, 1 << 40, 10000000000, 1 << 50} { // (grid values stay below 2^53: exact in the serialized payload)
		d := d
		grid := c09Grid(int64(d))
		for gi, g := range grid {
			g := g
			if !r.Thorough && gi%6 != int(d%6) {
				continue
			}
			typ := "urd"[gi%3]
			r.Case("grid-huge-delta-"+typeName(typ), func(c *fw.Case) { c09Run(c, typ, gen.Ed25519, c09Proto(d), g) })
		}
	}
	// other parameters must not move the window
	type variation struct {
		name string
		edit func(p *protocol.Protocol, v uint64)
	}
	vars := []variation{
		{"MaxDeltaSize", func(p *protocol.Protocol, v uint64) { p.MaxDeltaSize = uint(v) }},
		{"MaxOperationSize", func(p *protocol.Protocol, v uint64) { p.MaxOperationSize = uint(v) }},
		{"MaxOperationHashLength", func(p *protocol.Protocol, v uint64) { p.MaxOperationHashLength = uint(v) }},
		{"MaxOperationCount", func(p *protocol.Protocol, v uint64) { p.MaxOperationCount = uint(v) }},
		{"MaxCasURILength", func(p *protocol.Protocol, v uint64) { p.MaxCasURILength = uint(v) }},
		{"MaxCoreIndexFileSize", func(p *protocol.Protocol, v uint64) { p.MaxCoreIndexFileSize = uint(v) }},
		{"MaxProofFileSize", func(p *protocol.Protocol, v uint64) { p.MaxProofFileSize = uint(v) }},
		{"MaxProvisionalIndexFileSize", func(p *protocol.Protocol, v uint64) { p.MaxProvisionalIndexFileSize = uint(v) }},
		{"MaxChunkFileSize", func(p *protocol.Protocol, v uint64) { p.MaxChunkFileSize = uint(v) }},
		{"GenesisTime", func(p *protocol.Protocol, v uint64) { p.GenesisTime = v }},
		{"MaxMemoryDecompressionFactor", func(p *protocol.Protocol, v uint64) { p.MaxMemoryDecompressionFactor = uint(v) }},
		{"NonceSize", func(p *protocol.Protocol, v uint64) { p.NonceSize = v }},
	}
	const d = uint64(600)
	grid := c09Grid(int64(d))
	values := []uint64{7000, 7200, uint64(c09A) - 7000, uint64(c09A), uint64(c09A) + d, uint64(c09A) + 7200, 2 * uint64(c09A)}
	for vi, v := range vars {
		v := v
		for xi, val := range values {
			val := val
			if !r.Thorough && (vi+xi)%3 != 0 {
				continue
			}
			r.Case("vary-"+v.name, func(c *fw.Case) {
				p := c09Proto(d)
				v.edit(&p, val)
				// boundary-heavy sample of the grid
				n := 0
				for gi, g := range grid {
					if g.untilClass != "absent" && gi%4 != 0 {
						continue
					}
					typ := "urd"[(gi+n)%3]
					n++
					c.Count("other-parameter-variations", 1)
					c09Run(c, typ, gen.Ed25519, p, g)
				}
			})
		}
	}
	// anchored operations are judged by their anchoring time only: a parser whose time validator refuses everything
	// (server time far away) must not change any applier verdict, and must not even be consulted
	for b := 0; b < r.N(4, 20); b++ {
		r.Case("applier-ignores-time-validator", func(c *fw.Case) {
			rv := &recValidator{err: operationparser.ErrOperationExpired}
			old := histStackFactory
			histStackFactory = func(p protocol.Protocol) *sut.Stack {
				return sut.NewStack(p, operationparser.WithAnchorTimeValidator(rv))
			}
			histNoRequestParse = true
			defer func() { histStackFactory, histNoRequestParse = old, false }()
			grid := c09Grid(600)
			for i := 0; i < 40; i++ {
				g := grid[c.Rng.Intn(len(grid))]
				typ := "urd"[c.Rng.Intn(3)]
				c.Count("applier-with-refusing-validator", 1)
				c09Run(c, typ, gen.Ed25519, c09Proto(600), g)
			}
			if len(rv.calls) != 0 {
				c.Failf("applier-consults-time-validator", map[string]interface{}{"calls": len(rv.calls)}, "applying anchored operations called the request-time validator %d times", len(rv.calls))
			}
		})
	}
	// the parser hands (from, until') to the time validator
	for b := 0; b < r.N(6, 60); b++ {
		r.Case("time-validator", func(c *fw.Case) { c09Validator(c) })
	}
}

func c09Validator(c *fw.Case) {
	r := c.Rng
	delta := fw.Pick(r, []uint64{0, 1, 600, 7200, 1 << 34, 1 << 40, 10000000000})
	proto := c09Proto(delta)
	if r.Bool() {
		proto.MaxDeltaSize = uint(fw.Pick(r, []uint64{7000, 7200, 100000}))
	}
	kt := fw.Pick(r, gen.SigningKeyTypes)
	for _, typ := range []byte("urd") {
		for _, fu := range [][2]int64{{0, 0}, {c09A, 0}, {0, c09A + 5}, {c09A, c09A + 5}, {c09A, c09A - 5}, {c09A, c09A}, {1, 0}, {-5, 0}, {0, -50}, {-5, -50}, {-int64(r.Range(1, 1<<30)), 0}, {int64(r.Range(1, 1<<30)), 0}, {int64(r.Range(1, 1<<30)), int64(r.Range(1, 1<<30))}} {
			rv := &recValidator{}
			if r.Chance(1, 4) {
				rv.err = operationparser.ErrOperationExpired
			}
			st := sut.NewStack(proto, operationparser.WithAnchorTimeValidator(rv))
			h := &histCtx{r: r, proto: proto, code: 18, keyType: kt, hasIETF: true}
			planStep(h, 'c', "valid", 1000, nil, nil)
			s := planStep(h, typ, "valid", 2000, nil, func(h *histCtx, s *opStep) { s.Spec.AnchorFrom, s.Spec.AnchorUntil = fu[0], fu[1] })
			c.Count("time-validator-calls", 1)
			c.Evals(1)
			c.Sig("tv", typ, delta, fu[0] != 0, fu[1] != 0)
			batchFirst := r.Bool()
			if batchFirst {
				// the same bytes looked at as an anchored operation first (batch mode: no request-time checks, the validator is not asked)
				st.Parser.ParseOperation("did:sidetree", s.Built.Request, true)
				st.Parser.GetRevealValue(s.Built.Request)
				st.Parser.GetCommitment(s.Built.Request)
				c.Count("time-validator-calls-after-batch-mode-lookups", 1)
				if len(rv.calls) != 0 {
					c.Failf("time-validator-consulted-in-batch-mode", map[string]interface{}{"request": string(s.Built.Request), "validator_calls": rv.calls}, "the request-time validator was consulted %d times while the request was parsed in batch mode", len(rv.calls))
					continue
				}
			}
			_, err := st.Parser.Parse("did:sidetree", s.Built.Request)
			want := [2]int64{fu[0], oracle.EffectiveUntil(fu[0], fu[1], delta)}
			w := map[string]interface{}{"request": string(s.Built.Request), "type": typeName(typ), "from": fu[0], "until": fu[1], "delta": delta, "MaxDeltaSize": proto.MaxDeltaSize,
				"validator_calls": rv.calls, "expected_call": want, "err": fmt.Sprint(err), "parsed_in_batch_mode_first": batchFirst}
			if len(rv.calls) != 1 || rv.calls[0] != want {
				c.Failf("time-validator-arguments", w, "time validator received %v, expected one call with %v", rv.calls, want)
				continue
			}
			// a validator compares with the time of day: it is asked again whenever the same request arrives again
			if rv.err == nil {
				st.Parser.Parse("did:sidetree", s.Built.Request)
				if len(rv.calls) != 2 || rv.calls[1] != want {
					w["validator_calls"] = rv.calls
					c.Failf("time-validator-arguments", w, "time validator received %v over two request-time parses of one request, expected two calls with %v", rv.calls, want)
					continue
				}
			}
			// the same request with a validator handed over by value (zero value / non-zero value of a struct type)
			for _, vv := range []valueValidator{{}, {serverTime: 5}} {
				valueValidatorCalls = nil
				sut.NewStack(proto, operationparser.WithAnchorTimeValidator(vv)).Parser.Parse("did:sidetree", s.Built.Request)
				c.Count("by-value-validator-calls", 1)
				if len(valueValidatorCalls) != 1 || valueValidatorCalls[0] != want {
					w["validator"] = fmt.Sprintf("%#v", vv)
					c.Failf("by-value-time-validator-not-consulted", w, "a time validator configured by value (%#v) received %v, expected one call with %v", vv, valueValidatorCalls, want)
					break
				}
			}
			if (rv.err != nil) != (err != nil) {
				c.Failf("time-validator-verdict-ignored", w, "validator verdict %v but Parse returned %v", rv.err, err)
			}
			c.Sample(w)
		}
	}
}
