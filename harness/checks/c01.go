package checks

import (
	"verifharness/fw"
	"verifharness/gen"
)

func init() {
	fw.Register(&fw.Check{
		ID:          "C01",
		Rule:        "cases: operation histories executed step by step through the real parser + composer + applier (all eight patch actions, both hash algorithms, signing keys Ed25519/P-256/P-384/secp256k1). Systematic part: for each template (cuud, crud, cururd, cuuuuurd, cud, cd) x every position x every failure class of that position's operation type (" + "≈45 labelled classes: wrong state, unknown type, malformed/missing members, reveal/signature/header/algorithm/curve/nonce violations, delta unbound/missing/invalid in 8 ways, out-of-window in 3 ways, inapplicable patches, commitment rule violations, suffix mismatch) exactly that step is invalidated; random part: histories of length 1..8 with each step invalid with probability 0.3. Anchoring metadata and the incoming operation lists are drawn independently per step. Oracle: harness state machine folded over the generator's labels + harness patch model; every field of the returned state is compared. distinct = distinct (outcome sequence, key type) signatures.",
		Assumptions: []string{"harness state machine written from the property statement", "harness patch model (validated against the composer by C10)", "Go crypto for signing"},
		Require:     []string{"steps", "outcome:applied", "outcome:refused:parse", "outcome:refused:signature", "outcome:degraded:out-of-window", "outcome:degraded:delta-not-bound", "outcome:degraded:patches-inapplicable", "outcome:refused:create-on-existing"},
		Workers:     func(string) int { return 15 },
		Run:         runC01,
	})
}

var histTemplates = []string{"cuud", "crud", "cururd", "cuuuuurd", "cud", "cd"}

// systematicPlans enumerates: every template x every position x every failure class of that position's type,
// plus wrong-state plans.
func systematicPlans() [][]planEntry {
	var plans [][]planEntry
	for _, tpl := range histTemplates {
		base := make([]planEntry, len(tpl))
		for i := range tpl {
			base[i] = planEntry{tpl[i], "valid", nil}
		}
		plans = append(plans, append([]planEntry{}, base...))
		for pos := range tpl {
			for _, fc := range classesFor(tpl[pos]) {
				p := append([]planEntry{}, base...)
				p[pos] = planEntry{tpl[pos], fc.name, nil}
				plans = append(plans, p)
			}
			// a create inserted at a position where the state already exists
			if pos > 0 {
				p := append([]planEntry{}, base[:pos]...)
				p = append(p, planEntry{'c', "wrong-state", nil})
				p = append(p, base[pos:]...)
				plans = append(plans, p)
			}
		}
		// histories that do not start with a create: everything is refused until one arrives
		for _, first := range "urd" {
			p := append([]planEntry{{byte(first), "wrong-state", nil}}, base...)
			plans = append(plans, p)
		}
	}
	return plans
}

func randomPlan(r *fw.Rand) []planEntry {
	n := r.Range(1, 8)
	var p []planEntry
	for i := 0; i < n; i++ {
		var t byte
		switch {
		case i == 0 && r.Chance(9, 10):
			t = 'c'
		case i == n-1 && r.Chance(1, 2):
			t = 'd'
		default:
			t = "uuuurrcd"[r.Intn(8)]
		}
		class := "valid"
		if r.Chance(3, 10) {
			cl := classesFor(t)
			class = cl[r.Intn(len(cl))].name
		}
		p = append(p, planEntry{t, class, nil})
	}
	return p
}

func runC01(r *fw.Runner) {
	plans := systematicPlans()
	keyTypes := gen.SigningKeyTypes
	reps := 1
	if r.Thorough {
		reps = len(keyTypes)
	}
	for i, plan := range plans {
		plan := plan
		for k := 0; k < reps; k++ {
			kt := keyTypes[(i+k)%len(keyTypes)]
			if !r.Thorough && i%3 != 0 {
				kt = gen.Ed25519 // quick tier: most systematic histories with the fastest key type, every third one rotates
			}
			code := uint64(18 + (i+k)%2)
			withIETF := (i+k)%5 != 0
			r.Case("systematic", func(c *fw.Case) { runHistory(c, plan, kt, code, withIETF, "C01") })
		}
	}
	for b := 0; b < r.N(500, 8000); b++ {
		r.Case("random", func(c *fw.Case) {
			kt := keyTypes[c.Rng.Intn(len(keyTypes))]
			if !r.Thorough && c.Rng.Chance(1, 2) {
				kt = gen.Ed25519
			}
			runHistory(c, randomPlan(c.Rng), kt, uint64(18+c.Rng.Intn(2)), c.Rng.Chance(4, 5), "C01")
		})
	}
}
