package checks

import (
	"bytes"
	"crypto/sha256"
	"encoding/json"
	"errors"
	"fmt"
	"github.com/trustbloc/bbs-signature-go/bbs12381g2pub"
	"github.com/trustbloc/kms-go/doc/jose/jwk"
	"github.com/trustbloc/sidetree-go/pkg/util/ecsigner"
	"strings"

	docdid "github.com/trustbloc/did-go/doc/did"
	"github.com/trustbloc/did-go/doc/did/endpoint"
	"github.com/trustbloc/kms-go/doc/jose/jwk/jwksupport"

	"github.com/trustbloc/sidetree-go/pkg/api/operation"
	"github.com/trustbloc/sidetree-go/pkg/api/protocol"
	"github.com/trustbloc/sidetree-go/pkg/jws"
	"github.com/trustbloc/sidetree-go/pkg/util/pubkey"
	"github.com/trustbloc/sidetree-go/pkg/vdr/sidetreelongform/sidetree"
	sdoc "github.com/trustbloc/sidetree-go/pkg/vdr/sidetreelongform/sidetree/doc"
	"github.com/trustbloc/sidetree-go/pkg/vdr/sidetreelongform/sidetree/option/create"
	"github.com/trustbloc/sidetree-go/pkg/vdr/sidetreelongform/sidetree/option/deactivate"
	"github.com/trustbloc/sidetree-go/pkg/vdr/sidetreelongform/sidetree/option/recovery"
	"github.com/trustbloc/sidetree-go/pkg/vdr/sidetreelongform/sidetree/option/update"
	"github.com/trustbloc/sidetree-go/pkg/versions/1_0/client"
	"github.com/trustbloc/sidetree-go/pkg/versions/1_0/model"

	"verifharness/fw"
	"verifharness/gen"
	"verifharness/oracle"
	"verifharness/sut"
)

func init() {
	fw.Register(&fw.Check{
		ID:          "C08",
		Rule:        "cases: lifecycles create -> update* -> recover -> update* -> deactivate built (a) with the four request builders (patches or opaque document, both hash algorithms, optional anchor origin / type / anchoring window, all four operation key types) and (b) with the Sidetree client whose request function is replaced by a recorder (keys with 0..5 purposes of every document key type, JWK and base58 material, services with string / list / object endpoints and extra members, also-known-as, add/remove options). Every recorded request must be accepted by a parser with the matching protocol; applying the requests in order must give the document (harness patch model), commitments (reference formulas) and flags the caller asked for; GetAnchoredOperation of each parsed request must be the reference canonical bytes, keep suffix / type / anchor origin and apply to the same state. Builders must refuse reused keys, equal commitments and commitments of the wrong hash algorithm. distinct = (builder or client, operation sequence, key type, code, option set).",
		Assumptions: []string{"harness patch model, state machine and JCS / multihash oracle", "did-go / kms-go value types used to feed the client"},
		Require:     []string{"builder-requests", "client-requests", "lifecycles-completed", "anchored-form", "builder-refusals"},
		Workers:     func(string) int { return 15 },
		Run:         runC08,
	})
}

// libKey bundles a harness key with the library-side views of it.
type libKey struct {
	k   *gen.Key
	jwk *jws.JWK
}

func newLibKey(r *fw.Rand, typ string) (*libKey, error) {
	k := gen.NewKey(r, typ)
	j, err := pubkey.GetPublicKeyJWK(k.Public())
	if err != nil {
		return nil, err
	}
	return &libKey{k: k, jwk: j}, nil
}

type apiSigner struct {
	libSigner
	jwk *jws.JWK
}

func (s *apiSigner) PublicKeyJWK() *jws.JWK { return s.jwk }

func (lk *libKey) signer(kid string) *apiSigner {
	return &apiSigner{libSigner: signerFor(lk.k, kid), jwk: lk.jwk}
}

// c08Signer: the "alg" header a signer announces is any of the configured algorithm names - the protocol does not tie the name to
// the key's curve (the shipped configuration allows P-384 keys and no ES384), so a quarter of the EC signers announce another
// allowed name than the one matching their curve.
func c08Signer(r *fw.Rand, k *gen.Key, kid string) libSigner {
	if k.Type != gen.Ed25519 && r.Chance(1, 4) {
		return ecsigner.New(k.EC, fw.Pick(r, []string{"ES256", "ES384", "ES256K", "ES512"}), kid)
	}
	return signerFor(k, kid)
}

func runC08(r *fw.Runner) {
	for b := 0; b < r.N(150, 3000); b++ {
		r.Case("builders", func(c *fw.Case) { c08Builders(c) })
	}
	for b := 0; b < r.N(150, 3000); b++ {
		r.Case("client", func(c *fw.Case) { c08Client(c) })
	}
	for b := 0; b < r.N(20, 200); b++ {
		r.Case("builder-refusals", func(c *fw.Case) { c08Refusals(c) })
	}
}

// safePatchList draws a validated patch list whose result does not depend on the known
// json-patch v4.1.0 deviations (those are C10's known findings, not C08's subject).
func safePatchList(r *fw.Rand, doc map[string]interface{}, maxLen int) []interface{} {
	for tries := 0; tries < 20; tries++ {
		pl := genPatchList(r, doc, maxLen, false)
		if len(pl.Patches) == 0 {
			continue
		}
		a, e1 := oracle.ApplyPatchesModel(doc, pl.Patches, oracle.Quirks{})
		b, e2 := oracle.ApplyPatchesModel(doc, pl.Patches, oracle.Quirks{AliasCopy: true, MoveCopySet: true, NullTest: true})
		if e1 == nil && e2 == nil && oracle.DocEqual(a, b) {
			if r.Chance(1, 3) {
				// characters that Go's encoding/json escapes (6 bytes each) but the canonical form keeps raw
				return append(pl.Patches, gen.PAddServices(map[string]interface{}{"id": "amp-svc", "type": "LinkedDomains",
					"serviceEndpoint": "https://example.com/q?a=1&b=<2>&c=" + strings.Repeat("&", r.Intn(6))}))
			}
			return pl.Patches
		}
	}
	return []interface{}{gen.RandSimplePatch(r)}
}

// lifecycleChecker parses, anchors and applies each request and compares with the model.
type lifecycleChecker struct {
	c      *fw.Case
	st     *sut.Stack
	ns     string
	actual *protocol.ResolutionModel
	model  *oracle.State
	seq    string
	trace  []string
	time   uint64
	// multihash code the caller asked for in the request being checked (0 = do not check)
	wantDeltaCode uint64
}

func newLifecycleChecker(c *fw.Case) *lifecycleChecker {
	p := sut.Proto()
	// all five key types can sign: the configuration admits P-521 / ES512 next to the four shipped ones
	p.KeyAlgorithms = append(p.KeyAlgorithms, "P-521")
	p.SignatureAlgorithms = append(p.SignatureAlgorithms, "ES512")
	// namespaces of two, three and four segments (a network or an anchor in front of the suffix): the suffix is the last segment
	ns := []string{"did:sidetree", "did:sidetree:test", "did:orb:uAAA:net"}[c.Idx%3]
	return &lifecycleChecker{c: c, st: sut.SharedStack(p), ns: ns, actual: &protocol.ResolutionModel{}, model: &oracle.State{}, time: 1000}
}

// step feeds one request; facts carry what the caller asked for.
func (lc *lifecycleChecker) step(req []byte, typ string, facts oracle.OpFacts, wantSuffix string, source string) bool {
	c := lc.c
	lc.seq += typ[:1]
	lc.trace = append(lc.trace, string(req))
	c.Evals(1)
	w := map[string]interface{}{"requests": lc.trace, "type": typ, "source": source}
	op, err := lc.st.Parser.Parse(lc.ns, req)
	if err != nil {
		w["err"] = err.Error()
		c.Failf("built-request-refused:"+typ, w, "%s request produced by %s is refused by the matching parser: %v", typ, source, err)
		return false
	}
	if typ == "create" && wantSuffix == "" {
		// the suffix of a create is the hash of ITS suffix data (whatever other creates the process has seen)
		var ro map[string]interface{}
		if json.Unmarshal(req, &ro) == nil {
			if sd, ok := ro["suffixData"].(map[string]interface{}); ok {
				// (under the algorithm the suffix itself names: which configured algorithm is used is C03's subject)
				if dm, derr := oracle.DecodeEncodedMultihash(op.UniqueSuffix); derr == nil {
					wantSuffix = oracle.MustModelHash(dm.Code, oracle.MustGeneric(sd))
				}
			}
		}
	}
	if string(op.Type) != typ || (wantSuffix != "" && op.UniqueSuffix != wantSuffix) {
		w["got_type"], w["got_suffix"], w["want_suffix"] = op.Type, op.UniqueSuffix, wantSuffix
		c.Failf("built-request-misparsed", w, "%s request parsed with type %s suffix %s", typ, op.Type, op.UniqueSuffix)
		return false
	}
	// a parser whose delta and operation size limits equal this request's sizes exactly accepts it too (limits count the
	// bytes of the canonical delta / of the request as sent, whatever characters they contain)
	if g, gerr := oracle.ParseJSON(req); gerr == nil {
		if gm, ok := g.(map[string]interface{}); ok {
			tight := lc.st.P
			tight.MaxOperationSize = uint(len(req))
			if dl, ok := gm["delta"]; ok {
				tight.MaxDeltaSize = uint(len(oracle.MustJCS(dl)))
			}
			c.Count("tight-limit-parses", 1)
			if _, terr := sut.SharedStack(tight).Parser.Parse(lc.ns, req); terr != nil {
				w["err"], w["MaxDeltaSize"], w["MaxOperationSize"] = terr.Error(), tight.MaxDeltaSize, tight.MaxOperationSize
				c.Failf("built-request-refused-at-exact-size-limits:"+typ, w, "%s request from %s is refused by a parser whose size limits equal its canonical delta size (%d) and request size (%d): %v", typ, source, tight.MaxDeltaSize, tight.MaxOperationSize, terr)
				return false
			}
		}
	}
	// the request must reveal the commitment currently installed on its chain, and its delta hash must use the
	// algorithm the caller asked for (decoded with the harness codec)
	if typ != "create" {
		g, _ := oracle.ParseJSON(req)
		gm, _ := g.(map[string]interface{})
		rv, _ := gm["revealValue"].(string)
		wantPrev := lc.model.UpdateCommitment
		if typ != "update" {
			wantPrev = lc.model.RecoveryCommitment
		}
		c.Count("commitment-chain-links", 1)
		if derived, derr := oracle.CommitmentFromReveal(rv); derr != nil || derived != wantPrev {
			w["reveal_value"], w["derived_commitment"], w["installed_commitment"] = rv, derived, wantPrev
			c.Failf("request-does-not-reveal-installed-commitment:"+typ, w, "%s request from %s: commitment derived from its reveal value is not the commitment installed by the previous operation", typ, source)
			return false
		}
	}
	if lc.wantDeltaCode != 0 && typ != "deactivate" {
		g, _ := oracle.ParseJSON(req)
		gm, _ := g.(map[string]interface{})
		if dl, ok := gm["delta"]; ok {
			found := false
			for _, code := range []uint64{18, 19} {
				if h, err := oracle.ModelHash(code, dl); err == nil && strings.Contains(string(req), h) {
					found = code == lc.wantDeltaCode
				}
			}
			// update/recover carry the delta hash inside the JWS payload
			if sdj, ok := gm["signedData"].(string); ok && !found {
				if parts := strings.Split(sdj, "."); len(parts) == 3 {
					if pb, err := oracle.B64DecodeStrict(parts[1]); err == nil {
						if h, err := oracle.ModelHash(lc.wantDeltaCode, dl); err == nil && strings.Contains(string(pb), h) {
							found = true
						}
					}
				}
			}
			if !found {
				w["requested_hash_algorithm"] = lc.wantDeltaCode
				c.Failf("delta-hash-algorithm:"+typ, w, "%s request from %s does not carry the delta hash computed with the requested algorithm %d", typ, source, lc.wantDeltaCode)
				return false
			}
		}
	}
	// anchored form
	internal, err := lc.st.Parser.ParseOperation(lc.ns, req, false)
	if err != nil {
		c.Failf("parse-operation-error", w, "ParseOperation failed: %v", err)
		return false
	}
	anch, err := model.GetAnchoredOperation(internal)
	c.Count("anchored-form", 1)
	if err != nil {
		c.Failf("anchored-operation-error", w, "GetAnchoredOperation failed: %v", err)
		return false
	}
	wantBytes, jerr := oracle.JCS(req)
	if jerr != nil || !bytes.Equal(anch.OperationRequest, wantBytes) {
		w["anchored"], w["expected"] = string(anch.OperationRequest), string(wantBytes)
		c.Failf("anchored-bytes-not-canonical-request", w, "anchored bytes are not the canonical encoding of the request")
		return false
	}
	ga, _ := oracle.Generic(anch.AnchorOrigin)
	ea, _ := oracle.Generic(facts.AnchorOrigin)
	if anch.Type != operation.Type(typ) || anch.UniqueSuffix != op.UniqueSuffix || ((typ == "create" || typ == "recover") && !oracle.JSONEqual(ga, ea)) {
		w["anchored_type"], w["anchored_suffix"], w["anchored_origin"] = anch.Type, anch.UniqueSuffix, ga
		c.Failf("anchored-operation-fields", w, "anchored form does not keep type / suffix / anchor origin")
		return false
	}
	// apply both forms to the same state
	lc.time += 10
	a := oracle.Anchor{Time: lc.time, Number: uint64(len(lc.seq)), Proto: 0, CanonicalReference: fmt.Sprintf("ref%d", len(lc.seq))}
	mk := func(b []byte) *operation.AnchoredOperation {
		return &operation.AnchoredOperation{Type: operation.Type(typ), UniqueSuffix: op.UniqueSuffix, OperationRequest: b,
			TransactionTime: a.Time, TransactionNumber: a.Number, CanonicalReference: a.CanonicalReference}
	}
	got1, err1 := lc.st.Applier.Apply(mk(anch.OperationRequest), lc.actual)
	got2, err2 := lc.st.Applier.Apply(mk(req), lc.actual)
	want, accepted, outcome := oracle.Step(lc.model, facts, a)
	w["expected_outcome"] = outcome
	if err1 != nil || err2 != nil || !accepted {
		w["err_anchored"], w["err_original"] = fmt.Sprint(err1), fmt.Sprint(err2)
		c.Failf("built-request-not-applied:"+typ, w, "%s request from %s does not apply (anchored: %v, original: %v, model: %s)", typ, source, err1, err2, outcome)
		return false
	}
	if outcome != "applied" {
		c.Failf("model-degraded", w, "harness model degraded a client-built request (%s): generator error?", outcome)
		return false
	}
	for i, got := range []*protocol.ResolutionModel{got1, got2} {
		if d := compareState(got, want, nil, nil); d != "" {
			w["diff"], w["form"] = d, []string{"anchored", "original"}[i]
			c.Failf("lifecycle-state:"+splitColon(d), w, "state after %s (%s bytes) differs from what the caller asked for: %s", typ, w["form"], d)
			return false
		}
	}
	lc.actual, lc.model = got1, want
	return true
}

func splitColon(s string) string {
	for i := 0; i < len(s); i++ {
		if s[i] == ':' {
			return s[:i]
		}
	}
	return s
}

// ---------------------------------------------------------------------------
// (a) request builders

func c08Builders(c *fw.Case) {
	r := c.Rng
	kt := gen.AllKeyTypes[c.Idx%len(gen.AllKeyTypes)]
	code := uint(18 + r.Intn(2))
	lc := newLifecycleChecker(c)
	upd, err1 := newLibKey(r, kt)
	rec, err2 := newLibKey(r, kt)
	if err1 != nil || err2 != nil {
		c.Failf("key-to-jwk", nil, "GetPublicKeyJWK failed: %v %v", err1, err2)
		return
	}
	commit := func(k *libKey) string { return k.k.Commitment(uint64(code)) }
	reveal := func(k *libKey) string { return k.k.Reveal(uint64(code)) }
	// --- create
	opaque := r.Chance(1, 3)
	var patches []interface{}
	info := &client.CreateRequestInfo{RecoveryCommitment: commit(rec), UpdateCommitment: commit(upd), MultihashCode: code}
	var wantDoc map[string]interface{}
	if opaque {
		wantDoc = c14Doc(r)
		info.OpaqueDocument = string(gen.ToJSON(wantDoc))
		// the builder turns the document into patches; the model only needs the resulting document
		patches = []interface{}{map[string]interface{}{"action": "replace-all-for-model"}}
	} else {
		patches = safePatchList(r, map[string]interface{}{}, 4)
		lp, _ := sut.ToPatches(patches)
		info.Patches = lp
	}
	var origin interface{}
	switch r.Intn(4) {
	case 1:
		origin = "https://anchor.example/" + fmt.Sprint(r.Intn(100))
	case 2:
		origin = map[string]interface{}{"d": "anchor.example"}
	case 3:
		// an anchor origin is any JSON value; a text need not be a URI (host:port, a bare port, a stray percent sign, blanks)
		origin = fw.Pick(r, []interface{}{"10.0.0.5:8080", ":8080", "ipfs://100%", "origin with blanks", "\u0001ctl", "[::1", "a:b:c"})
	}
	info.AnchorOrigin = origin
	if r.Chance(1, 3) {
		info.Type = fw.Pick(r, []string{"t1", "did-entity-type", "schema.org/Organization", "urn:example:iot-device", "type with blanks"})
	}
	req, err := client.NewCreateRequest(info)
	c.Count("builder-requests", 1)
	if err != nil {
		c.Failf("builder-error:create", map[string]interface{}{"info": fmt.Sprintf("%+v", info), "err": err.Error()}, "NewCreateRequest refused valid input: %v", err)
		return
	}
	facts := oracle.ValidFacts("create")
	facts.UpdateCommitment, facts.RecoveryCommitment, facts.AnchorOrigin = commit(upd), commit(rec), origin
	if opaque {
		// expected: exactly the document; express it as one model patch list via the document's own members
		facts.Patches = docAsModelPatches(wantDoc)
	} else {
		facts.Patches = patches
	}
	// the same keys and document registered under another anchor origin (and type) first: a different DID
	{
		twin := *info
		twin.AnchorOrigin = fw.Pick(r, []interface{}{"https://twin.example", nil, map[string]interface{}{"d": "twin.example"}})
		if oracle.JSONEqual(oracle.MustGenericSafe(twin.AnchorOrigin), oracle.MustGenericSafe(origin)) {
			twin.AnchorOrigin = "https://twin2.example"
		}
		if treq, terr := client.NewCreateRequest(&twin); terr == nil {
			c.Count("twin-creates", 1)
			if top, perr := lc.st.Parser.Parse(lc.ns, treq); perr == nil {
				var ro map[string]interface{}
				json.Unmarshal(treq, &ro)
				sd, _ := ro["suffixData"].(map[string]interface{})
				if dm, derr := oracle.DecodeEncodedMultihash(top.UniqueSuffix); derr == nil {
					if want := oracle.MustModelHash(dm.Code, oracle.MustGeneric(sd)); top.UniqueSuffix != want {
						c.Failf("built-request-misparsed", map[string]interface{}{"request": string(treq), "got_suffix": top.UniqueSuffix, "want_suffix": want}, "create request parsed with suffix %s, its suffix data hashes to %s", top.UniqueSuffix, want)
						return
					}
				}
			}
		}
	}
	if !lc.step(req, "create", facts, "", "NewCreateRequest") {
		return
	}
	sfx := ""
	if op, err := lc.st.Parser.Parse(lc.ns, req); err == nil {
		sfx = op.UniqueSuffix
	}
	opts := ""
	// optional anchoring window around the time the lifecycle checker anchors the next operation at: none, both bounds,
	// from only (expiry defaults to from + the protocol's delta), until only
	window := func() (int64, int64) {
		switch r.Intn(6) {
		case 0:
			opts += "w"
			return int64(lc.time) - 5, int64(lc.time) + 500
		case 1:
			opts += "f"
			return int64(lc.time) - 5, 0
		case 2:
			opts += "u"
			return 0, int64(lc.time) + 500
		}
		return 0, 0
	}
	doUpdates := func() bool {
		for i, n := 0, r.Intn(3); i < n; i++ {
			next, _ := newLibKey(r, kt)
			pl := &patchList{Patches: safePatchList(r, lc.model.Doc, 3)}
			lp, _ := sut.ToPatches(pl.Patches)
			ui := &client.UpdateRequestInfo{DidSuffix: sfx, Patches: lp, UpdateCommitment: commit(next), UpdateKey: upd.jwk, MultihashCode: code,
				Signer: c08Signer(r, upd.k, kid(r)), RevealValue: reveal(upd)}
			ui.AnchorFrom, ui.AnchorUntil = window()
			req, err := client.NewUpdateRequest(ui)
			c.Count("builder-requests", 1)
			if err != nil {
				c.Failf("builder-error:update", map[string]interface{}{"err": err.Error()}, "NewUpdateRequest refused valid input: %v", err)
				return false
			}
			f := oracle.ValidFacts("update")
			f.Patches, f.UpdateCommitment = pl.Patches, commit(next)
			if !lc.step(req, "update", f, sfx, "NewUpdateRequest") {
				return false
			}
			upd = next
		}
		return true
	}
	if !doUpdates() {
		return
	}
	// --- recover
	nextU, _ := newLibKey(r, kt)
	nextR, _ := newLibKey(r, kt)
	ri := &client.RecoverRequestInfo{DidSuffix: sfx, RecoveryKey: rec.jwk, RecoveryCommitment: commit(nextR), UpdateCommitment: commit(nextU),
		MultihashCode: code, Signer: c08Signer(r, rec.k, kid(r)), RevealValue: reveal(rec)}
	rf := oracle.ValidFacts("recover")
	if r.Bool() {
		d := c14Doc(r)
		ri.OpaqueDocument = string(gen.ToJSON(d))
		rf.Patches = docAsModelPatches(d)
	} else {
		ps := []interface{}{gen.PReplace(gen.RandKeys(r, 2), gen.RandServices(r, 1)), gen.RandSimplePatch(r)}
		lp, _ := sut.ToPatches(ps)
		ri.Patches = lp
		rf.Patches = ps
	}
	if r.Bool() {
		ri.AnchorOrigin = "https://recovered.example"
		rf.AnchorOrigin = ri.AnchorOrigin
	}
	ri.AnchorFrom, ri.AnchorUntil = window()
	req, err = client.NewRecoverRequest(ri)
	c.Count("builder-requests", 1)
	if err != nil {
		c.Failf("builder-error:recover", map[string]interface{}{"err": err.Error()}, "NewRecoverRequest refused valid input: %v", err)
		return
	}
	rf.UpdateCommitment, rf.RecoveryCommitment = commit(nextU), commit(nextR)
	if !lc.step(req, "recover", rf, sfx, "NewRecoverRequest") {
		return
	}
	upd, rec = nextU, nextR
	if !doUpdates() {
		return
	}
	// --- deactivate
	di := &client.DeactivateRequestInfo{DidSuffix: sfx, RecoveryKey: rec.jwk, Signer: c08Signer(r, rec.k, kid(r)), RevealValue: reveal(rec)}
	di.AnchorFrom, di.AnchorUntil = window()
	req, err = client.NewDeactivateRequest(di)
	c.Count("builder-requests", 1)
	if err != nil {
		c.Failf("builder-error:deactivate", map[string]interface{}{"err": err.Error()}, "NewDeactivateRequest refused valid input: %v", err)
		return
	}
	if !lc.step(req, "deactivate", oracle.ValidFacts("deactivate"), sfx, "NewDeactivateRequest") {
		return
	}
	c.Count("lifecycles-completed", 1)
	c.Sig("builders", lc.seq, kt, code, opaque, opts)
	c.Sample(map[string]interface{}{"source": "builders", "sequence": lc.seq, "key_type": kt, "create_request": lc.trace[0]})
}

func kid(r *fw.Rand) string {
	if r.Bool() {
		return ""
	}
	return fmt.Sprintf("key-%d", r.Intn(9))
}

// docAsModelPatches expresses "the document is exactly d" as model patches on the empty document.
func docAsModelPatches(d map[string]interface{}) []interface{} {
	var ops []interface{}
	var out []interface{}
	keys := make([]string, 0, len(d))
	for k := range d {
		keys = append(keys, k)
	}
	oracle.SortUTF16(keys)
	for _, k := range keys {
		switch k {
		case "publicKey":
			out = append(out, map[string]interface{}{"action": "add-public-keys", "publicKeys": d[k]})
		case "service":
			out = append(out, map[string]interface{}{"action": "add-services", "services": d[k]})
		case "alsoKnownAs":
			out = append(out, map[string]interface{}{"action": "add-also-known-as", "uris": d[k]})
		default:
			ops = append(ops, map[string]interface{}{"op": "add", "path": "/" + oracle.EscapeToken(k), "value": d[k]})
		}
	}
	if len(ops) > 0 {
		out = append(out, gen.PJSON(ops...))
	}
	return out
}

// ---------------------------------------------------------------------------
// (b) Sidetree client with a recording request function

var errRecorded = errors.New("recorded by harness")

type recorder struct{ reqs [][]byte }

func (rc *recorder) send(req []byte, _ sidetree.GetEndpointsFunc) ([]byte, error) {
	rc.reqs = append(rc.reqs, append([]byte{}, req...))
	return nil, errRecorded
}

// clientKey draws a valid document key for the Sidetree client and its expected internal form.
func clientKey(r *fw.Rand, id string) (sdoc.PublicKey, map[string]interface{}, error) {
	typ := fw.Pick(r, []string{gen.TJwk2020, gen.TEd2018, gen.TEd2020, gen.TSecp, gen.TX25519, gen.TBls})
	purposes := gen.RandPurposes(r, typ)
	pk := sdoc.PublicKey{ID: id, Type: typ, Purposes: purposes}
	exp := map[string]interface{}{"id": id, "type": typ}
	if len(purposes) > 0 {
		exp["purposes"] = toIfaceList(purposes)
	}
	useJWK := typ == gen.TJwk2020 || (typ != gen.TX25519 && typ != gen.TBls && r.Bool())
	if (typ == gen.TX25519 || typ == gen.TBls) && r.Bool() {
		// key-agreement and BLS keys in JWK form (kty OKP / crv X25519; kty EC / crv BLS12381_G2, one coordinate)
		var j *jwk.JWK
		var err error
		var x []byte
		if typ == gen.TX25519 {
			x = r.Bytes(32)
			j, err = jwksupport.JWKFromX25519Key(x)
		} else {
			pub, _, gerr := bbs12381g2pub.GenerateKeyPair(sha256.New, r.Bytes(32))
			if gerr != nil {
				return pk, nil, gerr
			}
			if x, err = pub.Marshal(); err == nil {
				j, err = jwksupport.JWKFromKey(pub)
			}
		}
		if err != nil {
			return pk, nil, err
		}
		pk.JWK = *j
		if typ == gen.TX25519 {
			exp["publicKeyJwk"] = map[string]interface{}{"kty": "OKP", "crv": "X25519", "x": oracle.B64(x)}
		} else {
			exp["publicKeyJwk"] = map[string]interface{}{"kty": "EC", "crv": "BLS12381_G2", "x": oracle.B64(x)}
		}
		return pk, exp, nil
	}
	if useJWK {
		curve := gen.Ed25519
		switch typ {
		case gen.TSecp:
			curve = gen.P256 // any JWK is acceptable material for the validator; secp256k1 JWKs are covered via C16
		case gen.TJwk2020:
			curve = fw.Pick(r, []string{gen.Ed25519, gen.P256, gen.P384})
		}
		k := gen.NewKey(r, curve)
		j, err := jwksupport.JWKFromKey(k.Public())
		if err != nil {
			return pk, nil, err
		}
		pk.JWK = *j
		exp["publicKeyJwk"] = k.PlainJWK()
	} else {
		raw := r.Bytes(32)
		pk.B58Key = gen.B58(raw)
		exp["publicKeyBase58"] = pk.B58Key
	}
	return pk, exp, nil
}

func toIfaceList(ss []string) []interface{} {
	out := make([]interface{}, len(ss))
	for i, s := range ss {
		out[i] = s
	}
	return out
}

func clientService(r *fw.Rand, id string) (docdid.Service, map[string]interface{}) {
	s := docdid.Service{ID: id, Type: fw.Pick(r, svcTypesC08)}
	exp := map[string]interface{}{"id": id, "type": s.Type}
	switch r.Intn(4) {
	case 0:
		u := fmt.Sprintf("https://svc%d.example.com", r.Intn(100))
		s.ServiceEndpoint = endpoint.NewDIDCommV1Endpoint(u)
		exp["serviceEndpoint"] = u
	case 1:
		u := fmt.Sprintf("https://v2-%d.example.com", r.Intn(100))
		s.ServiceEndpoint = endpoint.NewDIDCommV2Endpoint([]endpoint.DIDCommV2Endpoint{{URI: u, Accept: []string{"didcomm/v2"}, RoutingKeys: []string{"did:example:1#k"}}})
		exp["serviceEndpoint"] = []interface{}{map[string]interface{}{"uri": u, "accept": []interface{}{"didcomm/v2"}, "routingKeys": []interface{}{"did:example:1#k"}}}
	case 2:
		l := []interface{}{fmt.Sprintf("https://a%d.example.com", r.Intn(100)), "did:example:abc"}
		s.ServiceEndpoint = endpoint.NewDIDCoreEndpoint(l)
		exp["serviceEndpoint"] = l
	case 3:
		o := map[string]interface{}{"origins": []interface{}{fmt.Sprintf("https://o%d.example.com", r.Intn(100))}}
		s.ServiceEndpoint = endpoint.NewDIDCoreEndpoint(o)
		exp["serviceEndpoint"] = o
	}
	if r.Chance(1, 3) {
		s.Priority = r.Intn(5)
		exp["priority"] = s.Priority
	}
	if r.Chance(1, 3) {
		s.RecipientKeys = []string{"did:example:123#key-1"}
		exp["recipientKeys"] = []interface{}{"did:example:123#key-1"}
	}
	if r.Chance(1, 4) {
		s.RoutingKeys = []string{"did:example:r#1"}
		exp["routingKeys"] = []interface{}{"did:example:r#1"}
	}
	if r.Chance(1, 4) {
		s.Accept = []string{"didcomm/aip2;env=rfc19"}
		exp["accept"] = []interface{}{"didcomm/aip2;env=rfc19"}
	}
	if r.Chance(1, 3) {
		// one properties map handed to several services (a caller's shared template): each service still carries its own members
		s.Properties = c08SharedProps
		exp["extra"], exp["n"] = "x", 2
	}
	return s, exp
}

// c08SharedProps is one map instance used as Properties of every service that has custom properties. After each client call it must
// still hold exactly these two members.
var c08SharedProps = map[string]interface{}{"extra": "x", "n": 2}

var svcTypesC08 = []string{"LinkedDomains", "DIDCommMessaging", "hub"}

func c08Client(c *fw.Case) {
	r := c.Rng
	kt := gen.SigningKeyTypes[c.Idx%len(gen.SigningKeyTypes)]
	code := uint(18 + r.Intn(2))
	rc := &recorder{}
	cl := sidetree.New(sidetree.WithSidetreeOperationRequestFnc(rc.send))
	lc := newLifecycleChecker(c)
	upd, _ := newLibKey(r, kt)
	rec, _ := newLibKey(r, kt)
	commit := func(k *libKey) string { return k.k.Commitment(uint64(code)) }
	last := func() []byte { return rc.reqs[len(rc.reqs)-1] }
	optsig := ""

	// --- create
	var copts []create.Option
	var expKeys, expSvcs []interface{}
	var expAka []interface{}
	nk, ns, na := r.Intn(4), r.Intn(3), r.Intn(3)
	if nk+ns+na == 0 {
		nk = 1
	}
	for _, id := range genPick(r, gen.KeyIDPool, nk) {
		pk, exp, err := clientKey(r, id)
		if err != nil {
			c.Inconclusive("jwk-from-key")
			return
		}
		pkc := pk
		copts = append(copts, create.WithPublicKey(&pkc))
		expKeys = append(expKeys, exp)
		if _, ok := exp["purposes"]; !ok {
			optsig += "g"
		}
	}
	for _, id := range genPick(r, gen.SvcIDPool, ns) {
		s, exp := clientService(r, id)
		sc := s
		copts = append(copts, create.WithService(&sc))
		expSvcs = append(expSvcs, exp)
	}
	for _, u := range gen.PickURIs(r, na) {
		copts = append(copts, create.WithAlsoKnownAs(u))
		expAka = append(expAka, u)
	}
	var origin interface{}
	if r.Bool() {
		o := "https://anchor.example/" + fmt.Sprint(r.Intn(100))
		copts = append(copts, create.WithAnchorOrigin(o))
		origin = o
		optsig += "o"
	}
	copts = append(copts, create.WithRecoveryPublicKey(rec.k.Public()), create.WithUpdatePublicKey(upd.k.Public()), create.WithMultiHashAlgorithm(code))
	_, err := cl.CreateDID(copts...)
	if len(rc.reqs) != 1 {
		c.Failf("client-error:create", map[string]interface{}{"err": fmt.Sprint(err)}, "CreateDID did not hand a request to the request function: %v", err)
		return
	}
	c.Count("client-requests", 1)
	wantDoc := map[string]interface{}{}
	if len(expKeys) > 0 {
		wantDoc["publicKey"] = expKeys
	}
	if len(expSvcs) > 0 {
		wantDoc["service"] = expSvcs
	}
	if len(expAka) > 0 {
		wantDoc["alsoKnownAs"] = expAka
	}
	f := oracle.ValidFacts("create")
	f.Patches, f.UpdateCommitment, f.RecoveryCommitment, f.AnchorOrigin = docAsModelPatches(wantDoc), commit(upd), commit(rec), origin
	if !lc.step(last(), "create", f, "", "sidetree.Client.CreateDID") {
		return
	}
	op, _ := lc.st.Parser.Parse(lc.ns, last())
	did := lc.ns + ":" + op.UniqueSuffix
	recCommitStr := commit(rec) // the recovery commitment as installed (under the algorithm in force when it was made)

	doUpdates := func() bool {
		for i, n := 0, r.Intn(3); i < n; i++ {
			next, _ := newLibKey(r, kt)
			oldUpdCommit := commit(upd) // the commitment being revealed keeps the algorithm it was made with
			savedCode, savedWant, savedSig := code, lc.wantDeltaCode, optsig
			if r.Chance(1, 4) {
				code = 37 - code // the controller migrates to the other hash algorithm with this update
				optsig += "M"
				lc.wantDeltaCode = uint64(code)
			}
			uopts := []update.Option{update.WithSigner(upd.signer(kid(r))), update.WithNextUpdatePublicKey(next.k.Public()),
				update.WithOperationCommitment(oldUpdCommit), update.WithMultiHashAlgorithm(code)}
			var ps []interface{}
			var rmAka, rmKeys, rmSvcs []string
			var addAka, addSvcs, addKeys []interface{}
			for _, u := range gen.PickURIs(r, r.Intn(2)) {
				uopts = append(uopts, update.WithRemoveAlsoKnownAs(u))
				rmAka = append(rmAka, u)
			}
			for _, id := range genPick(r, gen.KeyIDPool, r.Intn(3)) {
				uopts = append(uopts, update.WithRemovePublicKey(id))
				rmKeys = append(rmKeys, id)
			}
			for _, id := range genPick(r, gen.SvcIDPool, r.Intn(2)) {
				uopts = append(uopts, update.WithRemoveService(id))
				rmSvcs = append(rmSvcs, id)
			}
			for _, u := range gen.PickURIs(r, r.Intn(3)) {
				uopts = append(uopts, update.WithAddAlsoKnownAs(u))
				addAka = append(addAka, u)
			}
			for _, id := range genPick(r, gen.SvcIDPool, r.Intn(2)) {
				s, exp := clientService(r, id)
				sc := s
				uopts = append(uopts, update.WithAddService(&sc))
				addSvcs = append(addSvcs, exp)
			}
			for _, id := range genPick(r, gen.KeyIDPool, r.Intn(3)) {
				pk, exp, err := clientKey(r, id)
				if err != nil {
					continue
				}
				pkc := pk
				uopts = append(uopts, update.WithAddPublicKey(&pkc))
				addKeys = append(addKeys, exp)
			}
			// what the caller asked for: removals first, then additions
			if len(rmAka) > 0 {
				ps = append(ps, gen.PRemoveAka(rmAka...))
			}
			if len(rmKeys) > 0 {
				ps = append(ps, gen.PRemoveKeys(rmKeys...))
			}
			if len(rmSvcs) > 0 {
				ps = append(ps, gen.PRemoveServices(rmSvcs...))
			}
			if len(addAka) > 0 {
				ps = append(ps, map[string]interface{}{"action": "add-also-known-as", "uris": addAka})
			}
			if len(addSvcs) > 0 {
				ps = append(ps, map[string]interface{}{"action": "add-services", "services": addSvcs})
			}
			if len(addKeys) > 0 {
				ps = append(ps, map[string]interface{}{"action": "add-public-keys", "publicKeys": addKeys})
			}
			if len(ps) == 0 {
				code, lc.wantDeltaCode, optsig = savedCode, savedWant, savedSig // no operation, no migration
				continue
			}
			before := len(rc.reqs)
			err := cl.UpdateDID(did, uopts...)
			if len(rc.reqs) != before+1 {
				c.Failf("client-error:update", map[string]interface{}{"err": fmt.Sprint(err), "asked": ps}, "UpdateDID did not produce a request: %v", err)
				return false
			}
			c.Count("client-requests", 1)
			f := oracle.ValidFacts("update")
			f.Patches, f.UpdateCommitment = ps, commit(next)
			if !lc.step(last(), "update", f, op.UniqueSuffix, "sidetree.Client.UpdateDID") {
				return false
			}
			upd = next
		}
		return true
	}
	if !doUpdates() {
		return
	}
	// --- recover
	nextU, _ := newLibKey(r, kt)
	nextR, _ := newLibKey(r, kt)
	oldCommit := recCommitStr // the commitment being revealed keeps the algorithm it was made with
	if r.Chance(1, 3) {
		code = 37 - code // the controller migrates to the other hash algorithm with this recover
		optsig += "m"
	}
	lc.wantDeltaCode = uint64(code)
	ropts := []recovery.Option{recovery.WithSigner(rec.signer(kid(r))), recovery.WithNextRecoveryPublicKey(nextR.k.Public()), recovery.WithNextUpdatePublicKey(nextU.k.Public()),
		recovery.WithOperationCommitment(oldCommit), recovery.WithMultiHashAlgorithm(code)}
	rdoc := map[string]interface{}{}
	var rk, rs []interface{}
	for _, id := range genPick(r, gen.KeyIDPool, r.Range(1, 3)) {
		pk, exp, err := clientKey(r, id)
		if err != nil {
			continue
		}
		pkc := pk
		ropts = append(ropts, recovery.WithPublicKey(&pkc))
		rk = append(rk, exp)
	}
	for _, id := range genPick(r, gen.SvcIDPool, r.Intn(2)) {
		s, exp := clientService(r, id)
		sc := s
		ropts = append(ropts, recovery.WithService(&sc))
		rs = append(rs, exp)
	}
	if len(rk) > 0 {
		rdoc["publicKey"] = rk
	}
	if len(rs) > 0 {
		rdoc["service"] = rs
	}
	if r.Bool() {
		ropts = append(ropts, recovery.WithAlsoKnownAs("did:example:recovered"))
		rdoc["alsoKnownAs"] = []interface{}{"did:example:recovered"}
	}
	var rorigin interface{}
	if r.Bool() {
		ropts = append(ropts, recovery.WithAnchorOrigin("https://recovered.example"))
		rorigin = "https://recovered.example"
	}
	if len(rdoc) == 0 {
		return
	}
	before := len(rc.reqs)
	err = cl.RecoverDID(did, ropts...)
	if len(rc.reqs) != before+1 {
		c.Failf("client-error:recover", map[string]interface{}{"err": fmt.Sprint(err)}, "RecoverDID did not produce a request: %v", err)
		return
	}
	c.Count("client-requests", 1)
	rf := oracle.ValidFacts("recover")
	rf.Patches, rf.UpdateCommitment, rf.RecoveryCommitment, rf.AnchorOrigin = docAsModelPatches(rdoc), commit(nextU), commit(nextR), rorigin
	if !lc.step(last(), "recover", rf, op.UniqueSuffix, "sidetree.Client.RecoverDID") {
		return
	}
	upd, rec = nextU, nextR
	recCommitStr = commit(rec)
	if !doUpdates() {
		return
	}
	before = len(rc.reqs)
	err = cl.DeactivateDID(did, deactivate.WithSigner(rec.signer(kid(r))), deactivate.WithOperationCommitment(recCommitStr))
	if len(rc.reqs) != before+1 {
		c.Failf("client-error:deactivate", map[string]interface{}{"err": fmt.Sprint(err)}, "DeactivateDID did not produce a request: %v", err)
		return
	}
	c.Count("client-requests", 1)
	if !lc.step(last(), "deactivate", oracle.ValidFacts("deactivate"), op.UniqueSuffix, "sidetree.Client.DeactivateDID") {
		return
	}
	if len(c08SharedProps) != 2 || c08SharedProps["extra"] != "x" || c08SharedProps["n"] != 2 {
		got := fmt.Sprint(c08SharedProps)
		c08SharedProps = map[string]interface{}{"extra": "x", "n": 2}
		c.Failf("caller-properties-map-modified", map[string]interface{}{"properties_now": got}, "the client wrote into the caller's service properties map: %s", got)
		return
	}
	c.Count("lifecycles-completed", 1)
	c.Sig("client", lc.seq, kt, code, optsig, nk, ns, na)
	c.Sample(map[string]interface{}{"source": "sidetree.Client", "sequence": lc.seq, "key_type": kt, "create_request": lc.trace[0]})
}

// ---------------------------------------------------------------------------
// builder refusals

func c08Refusals(c *fw.Case) {
	r := c.Rng
	kt := fw.Pick(r, gen.SigningKeyTypes)
	code := uint(18 + r.Intn(2))
	other := 37 - code
	k1, _ := newLibKey(r, kt)
	k2, _ := newLibKey(r, kt)
	k3, _ := newLibKey(r, kt)
	cm := func(k *libKey, code uint) string { return k.k.Commitment(uint64(code)) }
	lp, _ := sut.ToPatches([]interface{}{gen.PAddKeys(gen.RandDocKey(r, "key1"))})
	strict := sut.Proto()
	strict.MultihashAlgorithms = []uint{code}
	parser := sut.SharedStack(strict).Parser
	type refusal struct {
		name  string
		build func() ([]byte, error)
	}
	mkUpdate := func(next string) func() ([]byte, error) {
		return func() ([]byte, error) {
			return client.NewUpdateRequest(&client.UpdateRequestInfo{DidSuffix: "EiAsuffix", Patches: lp, UpdateCommitment: next, UpdateKey: k1.jwk,
				MultihashCode: code, Signer: signerFor(k1.k, ""), RevealValue: k1.k.Reveal(uint64(code))})
		}
	}
	mkRecover := func(nextR, nextU string) func() ([]byte, error) {
		return func() ([]byte, error) {
			return client.NewRecoverRequest(&client.RecoverRequestInfo{DidSuffix: "EiAsuffix", Patches: lp, RecoveryKey: k1.jwk, RecoveryCommitment: nextR, UpdateCommitment: nextU,
				MultihashCode: code, Signer: signerFor(k1.k, ""), RevealValue: k1.k.Reveal(uint64(code))})
		}
	}
	mkCreate := func(rc, uc string) func() ([]byte, error) {
		return func() ([]byte, error) {
			return client.NewCreateRequest(&client.CreateRequestInfo{Patches: lp, RecoveryCommitment: rc, UpdateCommitment: uc, MultihashCode: code})
		}
	}
	rs := []refusal{
		{"create/equal-commitments", mkCreate(cm(k2, code), cm(k2, code))},
		{"create/recovery-commitment-wrong-hash-algorithm", mkCreate(cm(k2, other), cm(k3, code))},
		{"create/update-commitment-wrong-hash-algorithm", mkCreate(cm(k2, code), cm(k3, other))},
		{"update/reused-key", mkUpdate(cm(k1, code))},
		{"recover/reused-key", mkRecover(cm(k1, code), cm(k3, code))},
	}
	// Not demanded (DESIGN.md §2 C08): the update / recover builders do not inspect the algorithm of the
	// next commitments nor their equality - the repository's own unedited tests build such requests
	// successfully. These inputs are recorded as observations only.
	for _, ob := range []refusal{
		{"update/commitment-wrong-hash-algorithm", mkUpdate(cm(k2, other))},
		{"recover/equal-commitments", mkRecover(cm(k2, code), cm(k2, code))},
		{"recover/recovery-commitment-wrong-hash-algorithm", mkRecover(cm(k2, other), cm(k3, code))},
		{"recover/update-commitment-wrong-hash-algorithm", mkRecover(cm(k2, code), cm(k3, other))},
	} {
		if req, err := ob.build(); err == nil {
			if _, perr := parser.Parse("did:sidetree", req); perr != nil {
				c.Observe("builder accepts " + ob.name + " although the parser refuses the request (not demanded)")
			}
		}
	}
	for _, rf := range rs {
		c.Count("builder-refusals", 1)
		c.Evals(1)
		c.Sig("refusal", rf.name)
		req, err := rf.build()
		if err == nil {
			_, perr := parser.Parse("did:sidetree", req)
			if perr != nil {
				c.Failf("builder-accepts:"+rf.name, map[string]interface{}{"case": rf.name, "request": string(req), "parser_err": perr.Error(), "key_type": kt, "code": code},
					"builder accepted %s and produced a request the matching parser refuses (%v)", rf.name, perr)
			} else {
				c.Observe("builder and parser both accept " + rf.name)
			}
		}
	}
	// control: the same builders accept the honest variants
	for name, b := range map[string]func() ([]byte, error){"create": mkCreate(cm(k2, code), cm(k3, code)), "update": mkUpdate(cm(k2, code)), "recover": mkRecover(cm(k2, code), cm(k3, code))} {
		c.Evals(1)
		if _, err := b(); err != nil {
			c.Failf("builder-refuses-valid:"+name, map[string]interface{}{"err": err.Error()}, "%s builder refused valid input: %v", name, err)
		}
	}
	c.Sample(map[string]interface{}{"refusal_cases": len(rs)})
}
