package checks

import (
	"fmt"
	"reflect"

	"github.com/trustbloc/sidetree-go/pkg/versions/1_0/doccomposer"

	"verifharness/fw"
	"verifharness/gen"
	"verifharness/oracle"
	"verifharness/sut"
)

func init() {
	fw.Register(&fw.Check{
		ID:          "C12",
		Rule:        "cases: (a) every step of the C01 histories (systematic position x failure-class plans and random plans): the previous resolution model (all fields, document to any depth, operation lists) and the anchored operation (incl. request bytes) are deep-copied before Apply and compared with reflect.DeepEqual afterwards, whether the call succeeds, degrades or fails; (state,err) are never both set; (b) patch lists over all eight actions on deeply nested documents, incl. lists built to fail at the k-th patch for k=1..6: document and patch values compared before/after by canonical JSON and reflect.DeepEqual, a failing list must return (nil, err). distinct = (outcome sequence) for histories and (action sequence, failing position) for lists.",
		Assumptions: []string{"reflect.DeepEqual over a structural deep copy is the observable for 'modified'"},
		Require:     []string{"steps", "lists", "failing-lists", "outcome:applied", "outcome:refused:parse"},
		Workers:     func(string) int { return 15 },
		Run:         runC12,
	})
}

func runC12(r *fw.Runner) {
	plans := systematicPlans()
	for i, plan := range plans {
		plan := plan
		if !r.Thorough && i%2 == 1 {
			continue
		}
		kt := gen.Ed25519
		if r.Thorough {
			kt = gen.SigningKeyTypes[i%len(gen.SigningKeyTypes)]
		}
		r.Case("history-systematic", func(c *fw.Case) { runHistory(c, plan, kt, uint64(18+i%2), i%5 != 0, "C12") })
	}
	for b := 0; b < r.N(300, 5000); b++ {
		r.Case("history-random", func(c *fw.Case) {
			runHistory(c, randomPlan(c.Rng), gen.SigningKeyTypes[c.Rng.Intn(2)], uint64(18+c.Rng.Intn(2)), c.Rng.Chance(4, 5), "C12")
		})
	}
	composer := doccomposer.New()
	for b := 0; b < r.N(150, 4000); b++ {
		r.Case("patch-lists", func(c *fw.Case) {
			for i := 0; i < 15; i++ {
				c12List(c, composer, -1)
			}
		})
	}
	for k := 1; k <= 6; k++ {
		k := k
		for b := 0; b < r.N(15, 300); b++ {
			r.Case(fmt.Sprintf("fail-at-%d", k), func(c *fw.Case) {
				for i := 0; i < 10; i++ {
					c12List(c, composer, k)
				}
			})
		}
	}
}

// c12List applies one patch list; failAt>0 makes the failAt-th patch fail.
func c12List(c *fw.Case, composer *doccomposer.DocumentComposer, failAt int) {
	r := c.Rng
	doc, kind := startDoc(r, true)
	var patches []interface{}
	actions := ""
	if failAt > 0 {
		pl := genPatchList(r, doc, 8, true)
		patches = pl.Patches
		for len(patches) < failAt-1 {
			patches = append(patches, gen.RandSimplePatch(r))
		}
		failing := fw.Pick(r, []map[string]interface{}{
			gen.PJSON(map[string]interface{}{"op": "remove", "path": "/ghost"}),
			gen.PJSON(map[string]interface{}{"op": "test", "path": "/nested", "value": "not this"}),
			gen.PJSON(map[string]interface{}{"op": "add", "path": "/a/b/c/d", "value": 1}),
			gen.PJSON(map[string]interface{}{"op": "move", "from": "/ghost", "path": "/x"}),
			{"action": "replace", "document": "not an object"},
			{"action": "frobnicate", "ids": []interface{}{"x"}},
			{"action": "add-public-keys"},
		})
		head := append([]interface{}{}, patches[:failAt-1]...)
		tail := append([]interface{}{}, patches[failAt-1:]...)
		patches = append(append(head, failing), tail...)
		actions = fmt.Sprint("fail@", failAt, ":", failing["action"])
		c.Count("failing-lists", 1)
	} else {
		pl := genPatchList(r, doc, 8, true)
		patches = pl.Patches
		actions = pl.Actions
	}
	if len(patches) == 0 {
		return
	}
	if r.Chance(1, 3) {
		// value lists with entries of another JSON type in between (a text among the keys, a number among the ids): the composer passes
		// over them; the caller's lists stay as they were, junk included
		patches = oracle.DeepCopy(patches).([]interface{})
		for _, pi := range patches {
			pm, _ := pi.(map[string]interface{})
			for _, member := range []string{"publicKeys", "services", "ids", "uris"} {
				l, ok := pm[member].([]interface{})
				if !ok || len(l) == 0 || r.Bool() {
					continue
				}
				junk := fw.Pick(r, []interface{}{"junk", 7.0, nil, true, []interface{}{}})
				if member == "ids" || member == "uris" {
					junk = fw.Pick(r, []interface{}{7.0, nil, map[string]interface{}{"id": "x"}, []interface{}{"a"}, false})
				}
				at := r.Intn(len(l) + 1)
				pm[member] = append(append(append([]interface{}{}, l[:at]...), junk), l[at:]...)
				c.Count("value-lists-with-foreign-entries", 1)
			}
		}
		actions += "+junk"
	}
	if _, aerr := oracle.ApplyPatchesModel(doc, patches, oracle.Quirks{AliasCopy: true, MoveCopySet: true}); oracle.IsCycleErr(aerr) {
		c.Count("excluded:alias-cycle (C19 known finding)", 1)
		return
	}
	ldoc, err1 := sut.ToDoc(doc)
	lps, err2 := sut.ToPatches(patches)
	if err1 != nil || err2 != nil {
		c.Inconclusive("conversion")
		return
	}
	c.Count("lists", 1)
	c.Evals(1)
	c.Sig(kind, actions)
	docSnap, psSnap := deepCopy(ldoc), deepCopy(lps)
	docJCS, psJCS := oracle.MustJCS(oracle.MustGeneric(ldoc)), oracle.MustJCS(oracle.MustGeneric(lps))
	c.Journal(gen.ToJSON(map[string]interface{}{"doc": doc, "patches": patches}))
	res, err := composer.ApplyPatches(ldoc, lps)
	w := map[string]interface{}{"document": doc, "patches": patches, "err": fmt.Sprint(err)}
	if !reflect.DeepEqual(docSnap, deepCopy(ldoc)) || string(docJCS) != string(oracle.MustJCS(oracle.MustGeneric(ldoc))) {
		w["document_after"] = ldoc
		w["diff"] = describeDiff(docSnap, ldoc)
		c.Failf("document-mutated", w, "ApplyPatches modified its input document (%s)", w["diff"])
		return
	}
	if !reflect.DeepEqual(psSnap, deepCopy(lps)) || string(psJCS) != string(oracle.MustJCS(oracle.MustGeneric(lps))) {
		w["patches_after"] = lps
		w["diff"] = describeDiff(psSnap, lps)
		c.Failf("patches-mutated", w, "ApplyPatches modified its patch values (%s)", w["diff"])
		return
	}
	if err != nil && res != nil {
		w["result"] = res
		c.Failf("partial-document-with-error", w, "ApplyPatches returned a document together with an error")
		return
	}
	if err == nil && res == nil {
		c.Failf("no-document-no-error", w, "ApplyPatches returned neither a document nor an error")
		return
	}
	if failAt > 0 && err == nil {
		c.Failf("failing-list-succeeded", w, "a list whose patch %d cannot apply succeeded", failAt)
		return
	}
	c.Sample(map[string]interface{}{"document": doc, "patches": patches, "failed": err != nil})
}
