package checks

import (
	"bytes"
	"encoding/json"
	"fmt"
	"strings"
	"sync"

	"github.com/trustbloc/sidetree-go/pkg/jws"
	"github.com/trustbloc/sidetree-go/pkg/jwsutil"
	"github.com/trustbloc/sidetree-go/pkg/util/ecsigner"
	"github.com/trustbloc/sidetree-go/pkg/util/edsigner"
	"github.com/trustbloc/sidetree-go/pkg/util/signutil"

	"verifharness/fw"
	"verifharness/gen"
	"verifharness/oracle"
)

func init() {
	fw.Register(&fw.Check{
		ID:          "C15",
		Rule:        "cases: for each of the five key types, payloads of 1 B..4 KiB (binary and JSON) signed with the library's signers via SignPayload and SignModel; oracle by construction: verify under the matching JWK must succeed and return the payload; under every other key (same and other types, and the mirror point (x, p-y) tried before or after the matching key) must fail; a third of the EC keys are drawn until a coordinate has a leading zero byte; every single-bit change of the decoded header, payload and signature (all bits for one JWS per key type, strided otherwise; segments re-encoded) must fail; wrong-length signatures, unsupported kty/crv and malformed compact splits must error. Signing is repeated until signatures with a leading zero byte in r or s were seen for every EC curve. distinct = (key type, payload class, tampering class, segment, bit-position bucket).",
		Assumptions: []string{"forgery resistance of Ed25519 / ECDSA (a random bit flip does not yield a valid signature)", "harness base64url codec"},
		Require:     []string{"verify-ok", "signer-reuse", "other-key", "bit-flip-header", "bit-flip-payload", "bit-flip-signature", "malformed", "leading-zero-rs", "mirror-key", "leading-zero-coordinate-keys", "header-trailing-data", "curve-renamed-key", "concurrent-verifications", "serialization-option-probes"},
		Workers:     func(string) int { return 15 },
		Run:         runC15,
	})
}

type libSigner interface {
	Sign(data []byte) ([]byte, error)
	Headers() jws.Headers
}

func signerFor(k *gen.Key, kid string) libSigner {
	if k.Type == gen.Ed25519 {
		return edsigner.New(k.Ed, k.Alg(), kid)
	}
	return ecsigner.New(k.EC, k.Alg(), kid)
}

func runC15(r *fw.Runner) {
	for ti, typ := range gen.AllKeyTypes {
		typ := typ
		// one full bit sweep per key type
		r.Case("all-bits-"+typ, func(c *fw.Case) { c15Case(c, typ, true) })
		n := r.N(6, 60)
		if typ == gen.Ed25519 || typ == gen.P256 {
			n = r.N(12, 150)
		}
		for b := 0; b < n; b++ {
			r.Case("sampled-"+typ, func(c *fw.Case) { c15Case(c, typ, false) })
		}
		if typ != gen.Ed25519 {
			for b := 0; b < r.N(2, 6); b++ {
				r.Case("leading-zero-rs-"+typ, func(c *fw.Case) { c15LeadingZero(c, typ, r.Thorough && b == 0) })
			}
		}
		_ = ti
	}
	r.Case("malformed", func(c *fw.Case) { c15Malformed(c) })
	for b := 0; b < r.N(2, 20); b++ {
		r.Case("serialization-options", func(c *fw.Case) { c15Options(c) })
	}
	for _, typ := range gen.AllKeyTypes {
		typ := typ
		r.Case("verified-from-many-goroutines-"+typ, func(c *fw.Case) { c15Concurrent(c, typ) })
	}
}

func payloadFor(r *fw.Rand) ([]byte, string) {
	switch r.Intn(7) {
	case 5:
		// JSON text as callers write it (members in any order, blanks, escapes, a trailing line feed): a payload is a byte string, and
		// comes back as the byte string it was
		obj := gen.RandObject(r, 2)
		obj["b"], obj["a"], obj["n"] = 1, "\u0041", 1.0
		return append(gen.Spell(r, oracle.MustGeneric(obj), gen.AllSpell), fw.Pick(r, []string{"", "\n", " ", "\r\n"})...), "json-not-canonical"
	case 6:
		return []byte(fw.Pick(r, []string{"{ \"b\" : 1 , \"a\" : 2 }", "{\"z\":1.0,\"a\":\"\\u0041\"}\n", "[ 3, 2, 1 ]", "{not json", "{\"a\":1}{\"a\":2}", " {\"a\":1}"})), "json-like-text"
	case 0:
		return r.Bytes(1), "1-byte"
	case 1:
		return r.Bytes(r.Range(2, 64)), "binary-small"
	case 2:
		return r.Bytes(r.Range(1000, 4096)), "binary-large"
	case 3:
		return oracle.MustJCS(gen.RandObject(r, 2)), "json"
	}
	return []byte(`{"deltaHash":"EiB","updateKey":{"crv":"Ed25519","kty":"OKP","x":"abc","y":""}}`), "json-signed-data"
}

func tamperSegment(compact string, seg int, f func(b []byte) []byte) (string, bool) {
	parts := strings.Split(compact, ".")
	raw, err := oracle.B64DecodeStrict(parts[seg])
	if err != nil {
		return "", false
	}
	parts[seg] = oracle.B64(f(append([]byte{}, raw...)))
	return strings.Join(parts, "."), true
}

func c15Case(c *fw.Case, typ string, allBits bool) {
	r := c.Rng
	k := gen.NewKey(r, typ)
	if typ != gen.Ed25519 && c.Idx%3 == 1 {
		// keys having a coordinate with a leading zero byte
		if lz, ok := gen.NewKeyLeadingZero(r, typ, 400); ok {
			k = lz
			c.Count("leading-zero-coordinate-keys", 1)
		}
	}
	jwk := toLibJWK(k.JWK())
	payload, pclass := payloadFor(r)
	if allBits {
		payload, pclass = []byte(`{"didSuffix":"EiAbc","recoveryKey":{"crv":"P-256","kty":"EC","x":"x","y":"y"}}`), "json-signed-data"
	}
	kid := ""
	if r.Bool() {
		kid = "key-" + fmt.Sprint(r.Intn(100))
	}
	var compact string
	var err error
	useModel := pclass == "json" && r.Bool()
	if useModel {
		var model interface{}
		json.Unmarshal(payload, &model)
		compact, err = signutil.SignModel(model, signerFor(k, kid))
	} else {
		compact, err = signutil.SignPayload(payload, signerFor(k, kid))
	}
	if err != nil {
		c.Failf("sign-error", map[string]interface{}{"key_type": typ, "err": err.Error()}, "signing failed: %v", err)
		return
	}
	// the mirror point (x, p-y) is another key sharing the x coordinate; it is tried before the matching key in half of
	// the cases and after it in the others, so that nothing remembered from one verification can decide the next
	mirror := k.Mirror()
	mirrorFirst := r.Bool()
	tryMirror := func(when string) {
		if mirror == nil {
			return
		}
		c.Count("other-key", 1)
		c.Count("mirror-key", 1)
		c.Evals(1)
		c.Sig("mirror", typ, when)
		if _, err := jwsutil.VerifyJWS(compact, toLibJWK(mirror.JWK())); err == nil {
			c.Failf("verifies-under-mirror-key", map[string]interface{}{"jws": compact, "signer_jwk": k.JWK(), "other_jwk": mirror.JWK(), "order": when}, "JWS verifies under the mirror key (x, p-y), tried %s the matching key", when)
		}
	}
	if mirrorFirst {
		tryMirror("before")
	}
	lzc := false
	if x, y := k.XY(); x[0] == 0 || (len(y) > 0 && y[0] == 0) {
		lzc = true
	}
	c.Sig("ok", typ, pclass, kid != "", useModel, lzc)
	c.Count("verify-ok", 1)
	c.Evals(1)
	parsed, err := jwsutil.VerifyJWS(compact, jwk)
	if err != nil {
		c.Failf("valid-jws-refused", map[string]interface{}{"jws": compact, "jwk": k.JWK(), "err": err.Error()}, "VerifyJWS refused a JWS made by the library's signer: %v", err)
		return
	}
	if !bytes.Equal(parsed.Payload, payload) {
		c.Failf("payload-changed", map[string]interface{}{"jws": compact, "payload_b64": oracle.B64(payload), "got_b64": oracle.B64(parsed.Payload)}, "VerifyJWS returned a different payload")
	}
	c.Sample(map[string]interface{}{"key_type": typ, "jws": compact, "jwk": k.JWK()})
	// what VerifyJWS returns belongs to the caller: editing it does not change the verdict on the same JWS afterwards
	if parsed.ProtectedHeaders != nil {
		parsed.ProtectedHeaders["alg"] = "none"
		parsed.ProtectedHeaders["injected"] = true
		if len(parsed.Payload) > 0 {
			parsed.Payload[0] ^= 0xff
		}
		c.Count("result-edited-then-verified-again", 1)
		c.Evals(1)
		if again, err := jwsutil.VerifyJWS(compact, jwk); err != nil || !bytes.Equal(again.Payload, payload) {
			c.Failf("valid-jws-refused-after-result-was-edited", map[string]interface{}{"jws": compact, "jwk": k.JWK(), "err": fmt.Sprint(err)}, "after the caller edited the result of VerifyJWS, the same valid JWS no longer verifies (or returns another payload): %v", err)
		}
	}
	// the same signer object signs several payloads: every one of them must verify (no state carried between calls)
	reused := signerFor(k, kid)
	for i := 0; i < 3; i++ {
		p2 := append([]byte(fmt.Sprintf("reuse-%d-", i)), r.Bytes(r.Range(1, 40))...)
		c2, err := signutil.SignPayload(p2, reused)
		c.Count("signer-reuse", 1)
		c.Evals(1)
		if err != nil {
			c.Failf("sign-error", map[string]interface{}{"key_type": typ, "err": err.Error()}, "signing failed on reuse: %v", err)
			break
		}
		if pr, err := jwsutil.VerifyJWS(c2, jwk); err != nil || !bytes.Equal(pr.Payload, p2) {
			c.Failf("reused-signer-jws-refused", map[string]interface{}{"jws": c2, "jwk": k.JWK(), "call_number": i + 1, "err": fmt.Sprint(err)}, "JWS number %d made by one signer object does not verify: %v", i+1, err)
			break
		}
	}
	// the algorithm label is the caller's text: the signer signs with its key (the curve decides the digest), whatever the label reads
	if typ != gen.Ed25519 {
		label := fw.Pick(r, []string{"ES521", strings.ToLower(k.Alg()), "ECDSA", "es", k.Alg() + "K", "ES256", "ES384", "ES512"})
		ls := ecsigner.New(k.EC, label, kid)
		p3 := append([]byte("label-"), r.Bytes(r.Range(1, 40))...)
		c3, err := signutil.SignPayload(p3, ls)
		c.Count("signer-with-other-algorithm-label", 1)
		c.Evals(1)
		if err != nil {
			c.Failf("sign-error", map[string]interface{}{"key_type": typ, "label": label, "err": err.Error()}, "signing with algorithm label %q failed: %v", label, err)
		} else if pr, err := jwsutil.VerifyJWS(c3, jwk); err != nil || !bytes.Equal(pr.Payload, p3) {
			c.Failf("valid-jws-refused", map[string]interface{}{"jws": c3, "jwk": k.JWK(), "label": label, "err": fmt.Sprint(err)}, "a JWS made by the library's %s signer under the algorithm label %q does not verify under the matching JWK: %v", typ, label, err)
		}
	}
	// other keys
	if !mirrorFirst {
		tryMirror("after")
	}
	for _, ot := range gen.AllKeyTypes {
		o := gen.NewKey(r, ot)
		c.Count("other-key", 1)
		c.Evals(1)
		c.Sig("other", typ, ot)
		if _, err := jwsutil.VerifyJWS(compact, toLibJWK(o.JWK())); err == nil {
			c.Failf("verifies-under-other-key", map[string]interface{}{"jws": compact, "signer_jwk": k.JWK(), "other_jwk": o.JWK()}, "JWS verifies under a different %s key", ot)
		}
	}
	// EC keys whose coordinates merely begin with (or contain) the signer's: longer or shorter octet strings name another key or none.
	// (Not asked of Ed25519: the JOSE library reads the first 32 octets of a longer x and zero-extends a shorter one, so such a JWK is
	// the signer's key in another spelling or a different valid point, not "another key" the statement speaks of - see DESIGN 6.5.)
	if typ != gen.Ed25519 {
		x, y := k.XY()
		type rel struct {
			name string
			x, y []byte
		}
		rels := []rel{{"x-with-one-more-octet", append(append([]byte{}, x...), byte(r.Intn(256))), y}, {"x-followed-by-y", append(append([]byte{}, x...), y...), y},
			{"x-with-zero-octet-in-front", append([]byte{0}, x...), y}, {"x-without-its-last-octet", x[:len(x)-1], y}}
		if len(y) > 0 {
			rels = append(rels, rel{"y-with-one-more-octet", x, append(append([]byte{}, y...), 0)}, rel{"y-with-zero-octet-in-front", x, append([]byte{0}, y...)}, rel{"y-without-its-last-octet", x, y[:len(y)-1]})
		}
		for _, rl := range rels {
			rj := *jwk
			rj.X, rj.Y = oracle.B64(rl.x), ""
			if len(y) > 0 {
				rj.Y = oracle.B64(rl.y)
			}
			c.Count("related-width-keys", 1)
			c.Evals(1)
			c.Sig("related-key", typ, rl.name)
			if _, err := jwsutil.VerifyJWS(compact, &rj); err == nil {
				c.Failf("verifies-under-key-of-other-width", map[string]interface{}{"jws": compact, "signer_jwk": k.JWK(), "other_jwk": map[string]interface{}{"kty": rj.Kty, "crv": rj.Crv, "x": rj.X, "y": rj.Y}, "relation": rl.name},
					"JWS verifies under a %s JWK that is not the signer's (%s)", typ, rl.name)
			}
		}
	}
	// the JWK object that has just verified the JWS is overwritten in place with another key's coordinates (and a struct copy of it is
	// edited): what verifies is decided by what the object holds now
	if o := gen.NewKey(r, typ); true {
		oj := toLibJWK(o.JWK())
		cp := *jwk
		cp.X, cp.Y = oj.X, oj.Y
		c.Count("jwk-object-modified-after-use", 1)
		c.Evals(2)
		c.Sig("jwk-modified", typ)
		if _, err := jwsutil.VerifyJWS(compact, &cp); err == nil {
			c.Failf("verifies-under-edited-copy-of-used-jwk", map[string]interface{}{"jws": compact, "signer_jwk": k.JWK(), "edited_copy_holds": o.JWK()}, "a copy of the used JWK, edited to hold another %s key, still verifies the JWS", typ)
		}
		saveX, saveY := jwk.X, jwk.Y
		jwk.X, jwk.Y = oj.X, oj.Y
		if _, err := jwsutil.VerifyJWS(compact, jwk); err == nil {
			c.Failf("verifies-under-overwritten-jwk-object", map[string]interface{}{"jws": compact, "signer_jwk": k.JWK(), "object_now_holds": o.JWK()}, "the used JWK object, overwritten with another %s key, still verifies the JWS", typ)
		}
		jwk.X, jwk.Y = saveX, saveY
		if _, err := jwsutil.VerifyJWS(compact, jwk); err != nil {
			c.Failf("valid-jws-refused", map[string]interface{}{"jws": compact, "jwk": k.JWK(), "err": err.Error()}, "the JWK object restored to the signer's key no longer verifies: %v", err)
		}
	}
	// bit flips
	parts := strings.Split(compact, ".")
	names := []string{"header", "payload", "signature"}
	origHdr, _ := oracle.B64DecodeStrict(parts[0])
	origHdrVal, _ := oracle.ParseJSON(origHdr)
	for seg := 0; seg < 3; seg++ {
		raw, _ := oracle.B64DecodeStrict(parts[seg])
		nbits := len(raw) * 8
		stride := 1
		if !allBits {
			stride = nbits/24 + 1
		}
		start := 0
		if !allBits {
			start = r.Intn(stride)
		}
		var bits []int
		for bit := start; bit < nbits; bit += stride {
			bits = append(bits, bit)
		}
		if !allBits {
			// the edges of every segment always: the first two and the last three bytes (whatever covers a segment in blocks
			// or groups treats its ends differently from its middle)
			for _, bit := range []int{0, 7, 8, 15, nbits - 24, nbits - 17, nbits - 16, nbits - 9, nbits - 8, nbits - 1} {
				if bit >= 0 && bit < nbits {
					bits = append(bits, bit)
				}
			}
		}
		for _, bit := range bits {
			bit := bit
			t, ok := tamperSegment(compact, seg, func(b []byte) []byte { b[bit/8] ^= 1 << uint(7-bit%8); return b })
			if !ok {
				continue
			}
			if seg == 0 {
				nh, _ := oracle.B64DecodeStrict(strings.Split(t, ".")[0])
				if nv, err := oracle.ParseJSON(nh); err == nil && oracle.JSONEqual(nv, origHdrVal) {
					c.Inconclusive("header-flip-same-content")
					continue
				}
			}
			c.Count("bit-flip-"+names[seg], 1)
			c.Evals(1)
			c.Sig("flip", typ, names[seg], bit*16/nbits)
			if _, err := jwsutil.VerifyJWS(t, jwk); err == nil {
				c.Failf("tampered-verifies:"+names[seg], map[string]interface{}{"original": compact, "tampered": t, "segment": names[seg], "bit": bit, "jwk": k.JWK()}, "JWS still verifies after flipping bit %d of the decoded %s", bit, names[seg])
			}
		}
	}
	// wrong-length signatures
	for _, f := range []struct {
		name string
		fn   func(b []byte) []byte
	}{
		{"sig-truncated-1", func(b []byte) []byte { return b[:len(b)-1] }},
		{"sig-extended-1", func(b []byte) []byte { return append(b, 0) }},
		{"sig-leading-zero-added", func(b []byte) []byte { return append([]byte{0}, b...) }},
		{"sig-half", func(b []byte) []byte { return b[:len(b)/2] }},
		{"sig-doubled", func(b []byte) []byte { return append(b, b...) }},
	} {
		t, _ := tamperSegment(compact, 2, f.fn)
		c.Count("wrong-length-signature", 1)
		c.Evals(1)
		c.Sig("siglen", typ, f.name)
		if _, err := jwsutil.VerifyJWS(t, jwk); err == nil {
			c.Failf("wrong-length-signature-accepted", map[string]interface{}{"tampered": t, "how": f.name, "jwk": k.JWK()}, "signature of wrong length (%s) accepted", f.name)
		}
	}
	// re-encodings of the same (r, s) integers at another width are signatures of the wrong length
	if typ != gen.Ed25519 {
		w := gen.CurveBytes(typ)
		sigB, _ := oracle.B64DecodeStrict(strings.Split(compact, ".")[2])
		if len(sigB) == 2*w {
			rr, ss := sigB[:w], sigB[w:]
			wider := append(append(append([]byte{0}, rr...), 0), ss...)
			t, _ := tamperSegment(compact, 2, func([]byte) []byte { return wider })
			c.Count("wrong-length-signature", 1)
			c.Evals(1)
			c.Sig("siglen", typ, "both-halves-widened")
			if _, err := jwsutil.VerifyJWS(t, jwk); err == nil {
				c.Failf("wrong-length-signature-accepted", map[string]interface{}{"tampered": t, "how": "r and s each prefixed with a zero byte", "jwk": k.JWK()}, "signature re-encoded at width+1 accepted")
			}
			// narrower: needs a signature whose r and s both start with a zero byte (P-521: one in four)
			tries := 1
			if typ == gen.P521 {
				tries = 40
			}
			cur := compact
			for i := 0; i < tries; i++ {
				sb, _ := oracle.B64DecodeStrict(strings.Split(cur, ".")[2])
				if len(sb) == 2*w && sb[0] == 0 && sb[w] == 0 {
					narrow := append(append([]byte{}, sb[1:w]...), sb[w+1:]...)
					t2, _ := tamperSegment(cur, 2, func([]byte) []byte { return narrow })
					c.Count("narrowed-signature", 1)
					c.Evals(1)
					c.Sig("siglen", typ, "both-halves-narrowed")
					if _, err := jwsutil.VerifyJWS(t2, jwk); err == nil {
						c.Failf("wrong-length-signature-accepted", map[string]interface{}{"original": cur, "tampered": t2, "how": "leading zero byte stripped from r and from s", "jwk": k.JWK()}, "signature re-encoded at width-1 (leading zero bytes of r and s stripped) accepted")
					}
					break
				}
				if i+1 < tries {
					cur, _ = signutil.SignPayload(payload, signerFor(k, kid))
				}
			}
		}
	}
	// anything after the header object makes the header segment malformed (only the signed header itself is a header)
	for _, extra := range []string{`{"alg":"none"}`, `}`, `x`, `[]`, ` {}`, `,"alg":"none"`, "\x00", `null`} {
		t, ok := tamperSegment(compact, 0, func(b []byte) []byte { return append(b, extra...) })
		if !ok {
			continue
		}
		c.Count("header-trailing-data", 1)
		c.Evals(1)
		c.Sig("hdr-trailing", typ, extra)
		if _, err := jwsutil.VerifyJWS(t, jwk); err == nil {
			c.Failf("header-with-trailing-data-accepted", map[string]interface{}{"jws": compact, "tampered": t, "appended_to_header": extra, "jwk": k.JWK()}, "JWS whose header segment has %q appended still verifies", extra)
		}
	}
	// the same coordinates under the name of another curve of the same width, after the genuine key was used successfully
	if typ == gen.P256 || typ == gen.Secp256k1 {
		renamed := k.JWK()
		renamed["crv"] = map[string]string{gen.P256: gen.Secp256k1, gen.Secp256k1: gen.P256}[typ]
		c.Count("other-key", 1)
		c.Count("curve-renamed-key", 1)
		c.Evals(1)
		c.Sig("renamed", typ)
		if _, err := jwsutil.VerifyJWS(compact, toLibJWK(renamed)); err == nil {
			c.Failf("verifies-under-renamed-curve", map[string]interface{}{"jws": compact, "signer_jwk": k.JWK(), "other_jwk": renamed}, "JWS verifies under the signer's coordinates labelled with curve %v", renamed["crv"])
		}
	}
	// key type names are case-sensitive
	for _, v := range []string{"ec", "Ec", "eC", "okp", "Okp", "OKp"} {
		if strings.EqualFold(v, fmt.Sprint(k.JWK()["kty"])) {
			bad := k.JWK()
			bad["kty"] = v
			c.Evals(1)
			c.Count("unsupported-key", 1)
			c.Sig("badkey-case", typ, v)
			if _, err := jwsutil.VerifyJWS(compact, toLibJWK(bad)); err == nil {
				c.Failf("unsupported-key-accepted", map[string]interface{}{"jws": compact, "jwk": bad}, "VerifyJWS succeeded with key type %q", v)
			}
		}
	}
	// unsupported key descriptions
	for _, bad := range []map[string]interface{}{
		{"kty": "RSA", "n": "AQAB", "e": "AQAB"}, {"kty": "oct", "k": "AAAA"}, {"kty": "EC", "crv": "P-224", "x": k.JWK()["x"], "y": k.JWK()["y"]},
		{"kty": "OKP", "crv": "X25519", "x": k.JWK()["x"]}, {"kty": "", "crv": typ, "x": k.JWK()["x"], "y": k.JWK()["y"]}, {"kty": "EC", "crv": "", "x": k.JWK()["x"], "y": k.JWK()["y"]},
		{"kty": "OKP", "crv": typ, "x": k.JWK()["x"], "y": k.JWK()["y"]},
	} {
		if typ == gen.Ed25519 && bad["kty"] == "OKP" && bad["crv"] == typ {
			continue
		}
		c.Evals(1)
		c.Count("unsupported-key", 1)
		c.Sig("badkey", bad["kty"], bad["crv"])
		if _, err := jwsutil.VerifyJWS(compact, toLibJWK(bad)); err == nil {
			c.Failf("unsupported-key-accepted", map[string]interface{}{"jws": compact, "jwk": bad}, "VerifyJWS succeeded with unsupported key %v", bad)
		}
	}
}

func c15LeadingZero(c *fw.Case, typ string, wantTwo bool) {
	r := c.Rng
	k := gen.NewKey(r, typ)
	jwk := toLibJWK(k.JWK())
	s := signerFor(k, "")
	w := gen.CurveBytes(typ)
	payload := []byte("leading zero search")
	found1, found2 := 0, 0
	limit := 4000
	if wantTwo {
		limit = 120000
	}
	for i := 0; i < limit; i++ {
		compact, err := signutil.SignPayload(payload, s)
		if err != nil {
			c.Failf("sign-error", map[string]interface{}{"err": err.Error()}, "signing failed")
			return
		}
		sig, _ := oracle.B64DecodeStrict(strings.Split(compact, ".")[2])
		if len(sig) != 2*w {
			c.Failf("signature-width", map[string]interface{}{"jws": compact, "len": len(sig)}, "%s signature is %d bytes, expected fixed width %d", typ, len(sig), 2*w)
			return
		}
		zr, zs := leadingZeros(sig[:w]), leadingZeros(sig[w:])
		z := zr
		if zs > z {
			z = zs
		}
		if typ == gen.P521 {
			// top byte of a 521-bit value is 0 or 1: "leading zero" means the first full byte is zero too
			z--
		}
		if z < 1 {
			continue
		}
		c.Evals(1)
		if _, err := jwsutil.VerifyJWS(compact, jwk); err != nil {
			c.Failf("leading-zero-signature-refused", map[string]interface{}{"jws": compact, "jwk": k.JWK(), "zero_bytes": z, "err": err.Error()}, "valid signature with %d leading zero byte(s) in r or s refused: %v", z, err)
			return
		}
		if z >= 2 {
			found2++
			c.Count("two-leading-zero-rs", 1)
			c.Sig("lz", typ, 2)
		} else {
			found1++
			c.Count("leading-zero-rs", 1)
			c.Sig("lz", typ, 1)
		}
		if (!wantTwo && found1 >= 2) || (wantTwo && found2 >= 1) {
			break
		}
	}
	if found1+found2 == 0 {
		c.Inconclusive("no-leading-zero-signature-found")
	}
	c.Sample(map[string]interface{}{"curve": typ, "found_one_zero_byte": found1, "found_two_zero_bytes": found2})
}

func c15Malformed(c *fw.Case) {
	r := c.Rng
	k := gen.NewKey(r, gen.Ed25519)
	jwk := toLibJWK(k.JWK())
	compact, _ := signutil.SignPayload([]byte("payload"), signerFor(k, ""))
	p := strings.Split(compact, ".")
	bad := map[string]string{
		"one-segment":        p[0],
		"two-segments":       p[0] + "." + p[1],
		"four-segments":      compact + "." + p[2],
		"empty":              "",
		"dots-only":          "..",
		"empty-header":       "." + p[1] + "." + p[2],
		"empty-payload":      p[0] + ".." + p[2],
		"empty-signature":    p[0] + "." + p[1] + ".",
		"header-not-base64":  "!!!." + p[1] + "." + p[2],
		"payload-not-base64": p[0] + ".@@@." + p[2],
		"sig-not-base64":     p[0] + "." + p[1] + ".###",
		"padded-header":      p[0] + "=." + p[1] + "." + p[2],
		"header-not-json":    oracle.B64([]byte("not json")) + "." + p[1] + "." + p[2],
		"header-no-alg":      oracle.B64([]byte(`{"kid":"x"}`)) + "." + p[1] + "." + p[2],
		"header-array":       oracle.B64([]byte(`["alg"]`)) + "." + p[1] + "." + p[2],
		"json-serialization": `{"payload":"` + p[1] + `","protected":"` + p[0] + `","signature":"` + p[2] + `"}`,
		"leading-dot":        "." + compact,
		"trailing-dot":       compact + ".",
		"spaces":             p[0] + " . " + p[1] + " . " + p[2],
	}
	// white space around the compact form (carriage return / line feed are skipped by Go's base64 decoder and not demanded here)
	for name, ws := range map[string]string{"blank": " ", "tab": "\t", "vertical-tab": "\v", "form-feed": "\f", "nel": "\u0085", "nbsp": "\u00a0", "blanks": "   "} {
		bad["leading-"+name] = ws + compact
		bad["trailing-"+name] = compact + ws
	}
	for name, s := range bad {
		c.Count("malformed", 1)
		c.Evals(2)
		c.Sig("malformed", name)
		if _, err := jwsutil.VerifyJWS(s, jwk); err == nil {
			c.Failf("malformed-accepted:"+name, map[string]interface{}{"jws": s, "class": name}, "VerifyJWS accepted malformed compact JWS (%s)", name)
		}
		if name == "header-no-alg" || name == "header-array" {
			// structurally a three-part compact: ParseJWS must still refuse (no alg)
		}
		if _, err := jwsutil.ParseJWS(s); err == nil {
			c.Failf("malformed-parsed:"+name, map[string]interface{}{"jws": s, "class": name}, "ParseJWS accepted malformed compact JWS (%s)", name)
		}
	}
	c.Sample(map[string]interface{}{"malformed_classes": len(bad), "example": bad["empty-payload"]})
}

// c15Concurrent: valid JWS verify under their keys also when many goroutines verify at once (VerifyJWS keeps no state of its own).
func c15Concurrent(c *fw.Case, typ string) {
	r := c.Rng
	type item struct {
		jws string
		jwk *jws.JWK
	}
	var items []item
	for i := 0; i < 6; i++ {
		k := gen.NewKey(r, typ)
		compact, err := signutil.SignPayload(r.Bytes(r.Range(20000, 65000)), signerFor(k, ""))
		if err != nil {
			c.Failf("sign-error", map[string]interface{}{"key_type": typ, "err": err.Error()}, "signing failed: %v", err)
			return
		}
		items = append(items, item{compact, toLibJWK(k.JWK())})
	}
	const G, rounds = 16, 40
	var mu sync.Mutex
	var failures []string
	var wg sync.WaitGroup
	for g := 0; g < G; g++ {
		wg.Add(1)
		go func(g int) {
			defer wg.Done()
			defer func() {
				if p := recover(); p != nil {
					mu.Lock()
					failures = append(failures, fmt.Sprintf("panic: %v", p))
					mu.Unlock()
				}
			}()
			for i := 0; i < rounds; i++ {
				it := items[(g+i)%len(items)]
				if _, err := jwsutil.VerifyJWS(it.jws, it.jwk); err != nil {
					mu.Lock()
					failures = append(failures, err.Error())
					mu.Unlock()
				}
			}
		}(g)
	}
	wg.Wait()
	c.Count("concurrent-verifications", G*rounds)
	c.Evals(G * rounds)
	c.Sig("concurrent", typ)
	if len(failures) > 0 {
		c.Failf("valid-jws-refused-under-concurrent-verification", map[string]interface{}{"key_type": typ, "failures": len(failures), "first": failures[0], "goroutines": G},
			"%d of %d verifications of valid %s JWS failed when %d goroutines verified at once: %s", len(failures), G*rounds, typ, G, failures[0])
	}
}

// c15Options: the other public routes to a compact JWS - NewJWS with the b64 header absent / true / false, attached and detached
// serialization, verification with and without the detached-payload option. What verifies is always the payload the verifier was
// given (the detached one when the option is used), and the library's own serializations verify.
func c15Options(c *fw.Case) {
	r := c.Rng
	for _, typ := range gen.AllKeyTypes {
		k := gen.NewKey(r, typ)
		jwk := toLibJWK(k.JWK())
		payload := r.Bytes(r.Range(1, 200))
		if r.Bool() {
			payload = []byte("dotted.payload.with-base64url_chars" + fmt.Sprint(r.Intn(1000)))
		}
		other := append(append([]byte{}, payload...), 'x')
		if r.Bool() {
			other = append([]byte{}, payload...)
			other[r.Intn(len(other))] ^= 1 << uint(r.Intn(8))
		}
		for _, b64 := range []string{"absent", "true", "false", "absent+crit", "true+crit", "false+crit", "true+crit-other"} {
			signer := signerFor(k, "")
			hdr := jws.Headers{}
			for hk, hv := range signer.Headers() {
				hdr[hk] = hv
			}
			if strings.HasPrefix(b64, "true") || strings.HasPrefix(b64, "false") {
				hdr[jws.HeaderB64Payload] = strings.HasPrefix(b64, "true")
			}
			if strings.HasSuffix(b64, "+crit") {
				hdr["crit"] = []interface{}{"b64"} // the header is marked critical: says nothing about its value
			}
			if strings.HasSuffix(b64, "+crit-other") {
				hdr["crit"] = []interface{}{"exp"}
			}
			var unprotected jws.Headers
			if r.Chance(1, 3) {
				unprotected = jws.Headers{"x-note": "not signed", "kid2": "k"}
			}
			obj, err := jwsutil.NewJWS(hdr, unprotected, payload, signer)
			if err != nil {
				c.Failf("new-jws-error", map[string]interface{}{"key_type": typ, "b64": b64, "err": err.Error()}, "NewJWS failed: %v", err)
				continue
			}
			attached, err1 := obj.SerializeCompact(false)
			detached, err2 := obj.SerializeCompact(true)
			if err1 != nil || err2 != nil {
				c.Failf("serialize-error", map[string]interface{}{"key_type": typ, "b64": b64}, "SerializeCompact failed: %v %v", err1, err2)
				continue
			}
			type probe struct {
				name string
				jws  string
				opt  []byte // nil: no option
				want bool
			}
			for _, p := range []probe{
				{"attached", attached, nil, true},
				{"attached+option-same-payload", attached, payload, true},
				{"attached+option-other-payload", attached, other, false},
				{"detached+option-same-payload", detached, payload, true},
				{"detached+option-other-payload", detached, other, false},
				{"detached-without-option", detached, nil, false},
			} {
				c.Count("serialization-option-probes", 1)
				c.Evals(1)
				c.Sig("options", typ, b64, p.name)
				var opts []jwsutil.ParseOpt
				if p.opt != nil {
					opts = append(opts, jwsutil.WithJWSDetachedPayload(p.opt))
				}
				got, err := jwsutil.VerifyJWS(p.jws, jwk, opts...)
				w := map[string]interface{}{"key_type": typ, "b64_header": b64, "probe": p.name, "jws": p.jws, "payload_b64": oracle.B64(payload), "option_payload_b64": oracle.B64(p.opt), "err": fmt.Sprint(err)}
				if (err == nil) != p.want {
					c.Failf("serialization-option:"+p.name, w, "%s (b64 %s, %s): verification %v, expected success=%v", p.name, b64, typ, err, p.want)
					continue
				}
				if err == nil {
					wantPayload := payload
					if p.opt != nil {
						wantPayload = p.opt
					}
					if !bytes.Equal(got.Payload, wantPayload) {
						c.Failf("serialization-option-payload:"+p.name, w, "%s: verified JWS reports another payload than the one verified", p.name)
					}
				}
			}
			// what a caller reads from a JWS object is the caller's copy: editing it changes neither what the object serializes to nor
			// whether that verifies (the signed object and the one returned by verification alike)
			objs := []*jwsutil.JSONWebSignature{obj}
			if parsed, perr := jwsutil.VerifyJWS(attached, jwk); perr == nil {
				objs = append(objs, parsed)
			}
			for oi, o := range objs {
				before, _ := o.SerializeCompact(false)
				sig := o.Signature()
				c.Count("accessor-results-edited", 1)
				c.Evals(2)
				if len(sig) == 0 {
					c.Failf("signature-accessor-empty", map[string]interface{}{"key_type": typ, "jws": before}, "Signature() of a signed JWS is empty")
					continue
				}
				for i := range sig {
					sig[i] ^= 0x5a
				}
				after, serr := o.SerializeCompact(false)
				_, verr := jwsutil.VerifyJWS(after, jwk)
				if serr != nil || after != before || verr != nil {
					c.Failf("signature-accessor-exposes-state", map[string]interface{}{"key_type": typ, "object": []string{"signed", "parsed"}[oi], "before": before, "after": after, "err": fmt.Sprint(serr, verr)},
						"editing the byte slice returned by Signature() changed the JWS the object serializes to (verification afterwards: %v)", verr)
				}
			}
		}
	}
}
