package checks

import (
	"bytes"
	"crypto/sha256"
	"crypto/sha512"
	"encoding/json"
	"fmt"
	"strings"

	"github.com/trustbloc/sidetree-go/pkg/docutil"
	"github.com/trustbloc/sidetree-go/pkg/hashing"

	"verifharness/fw"
	"verifharness/gen"
	"verifharness/oracle"
)

func init() {
	fw.Register(&fw.Check{
		ID:          "C06",
		Rule:        "cases: JSON values (as Go values and as raw re-spelled bytes) hashed with codes 18/19 and every unsupported code (complete sweep of 0..0x1ffff plus codes whose low 8/16/24/32/56 bits equal 18 or 19; also as the prefix of a hash to validate); validation of each value, every re-spelling and 6 single-point modifications against hashes of both algorithms; prefix-code queries against 6 algorithm lists; labelled malformed encodings (non-alphabet, padded, wrong length field, truncated, empty, one byte). Oracle: own base64url/varint/multihash codec + reference JCS. distinct = distinct (shape of value, mutation kind) and malformed classes.",
		Assumptions: []string{"crypto/sha256, crypto/sha512", "harness JCS oracle (validated by C05's self-test vectors)"},
		Require:     []string{"calc", "validate-equal", "validate-modified", "validate-noncanonical-spelling", "malformed", "unsupported-code", "calculate-id"},
		Run:         runC06,
	})
}

var unsupportedCodes = func() []uint {
	var out []uint
	for c := uint(0); c <= 0x20; c++ {
		if c != 18 && c != 19 {
			out = append(out, c)
		}
	}
	return append(out, 0x56, 0xb220, 0xb240, 1<<32, 1<<40, 0xffffffff)
}()

func runC06(r *fw.Runner) {
	for b := 0; b < r.N(120, 3000); b++ {
		r.Case("values", func(c *fw.Case) { c06Values(c, r.N(40, 80)) })
	}
	for b := 0; b < r.N(20, 200); b++ {
		r.Case("malformed", func(c *fw.Case) { c06Malformed(c, r.N(60, 200)) })
	}
	// complete sweep of the small code space plus every code whose low 8 / 16 / 32 bits look like a supported one
	const shards = 8
	for sh := 0; sh < shards; sh++ {
		sh := sh
		r.Case("unsupported-code-sweep", func(c *fw.Case) {
			v := map[string]interface{}{"a": 1}
			d256 := sha256.Sum256(oracle.MustJCS(v))
			d512 := sha512.Sum512(oracle.MustJCS(v))
			var codes []uint
			for code := uint(sh); code < 0x20000; code += shards {
				codes = append(codes, code)
			}
			if sh == 0 {
				for k := uint(1); k < 256; k++ {
					for _, low := range []uint{18, 19} {
						codes = append(codes, k<<8|low, k<<16|low, k<<24|low, k<<32|low, k<<56|low)
					}
				}
			}
			for _, code := range codes {
				if code == 18 || code == 19 {
					continue
				}
				c.Count("unsupported-code", 1)
				c.Evals(3)
				if h, err := hashing.CalculateModelMultihash(v, code); err == nil {
					c.Failf("unsupported-code-accepted", map[string]interface{}{"code": code, "hash": h}, "CalculateModelMultihash accepted unsupported code %d (0x%x)", code, code)
					return
				}
				digest := d256[:]
				if code&0xff == 19 {
					digest = d512[:]
				}
				if _, err := hashing.ComputeMultihash(code, digest); err == nil {
					c.Failf("unsupported-code-accepted", map[string]interface{}{"code": code}, "ComputeMultihash accepted unsupported code %d (0x%x)", code, code)
					return
				}
				if _, err := hashing.GetHashFromMultihash(code); err == nil {
					c.Failf("unsupported-code-accepted", map[string]interface{}{"code": code}, "GetHashFromMultihash accepted unsupported code %d (0x%x)", code, code)
					return
				}
				// a hash whose own prefix names this code is not a model hash of anything
				if code < 1<<31 {
					enc := oracle.B64(oracle.WrapDigest(uint64(code), digest))
					if hashing.IsValidModelMultihash(v, enc) == nil {
						c.Failf("unsupported-prefix-validates", map[string]interface{}{"code": code, "hash": enc}, "IsValidModelMultihash accepted a hash whose prefix names code %d", code)
						return
					}
				}
			}
			c.Sig("unsupported-sweep", sh)
		})
	}
	// models of Go type string are JSON strings, whatever their text looks like; wide flat models hash like any other
	r.Case("string-models-and-wide-models", func(c *fw.Case) {
		for _, text := range []string{`{"b":1,"a":2}`, `[1,2,3]`, `"quoted"`, "plain text", "", `{"a":1}`, "123", "true", "null", ` {"a":1} `} {
			for _, code := range []uint{18, 19} {
				c.Count("string-models", 1)
				c.Evals(1)
				c.Sig("string-model", len(text))
				got, err := hashing.CalculateModelMultihash(text, code)
				if err != nil {
					continue // a top-level string may be refused; it must not be taken for something else
				}
				want, _ := oracle.ModelHash(uint64(code), text)
				if got != want {
					var asJSON interface{}
					alt := ""
					if json.Unmarshal([]byte(text), &asJSON) == nil {
						alt, _ = oracle.ModelHash(uint64(code), asJSON)
					}
					c.Failf("string-model-hashed-as-something-else", map[string]interface{}{"model_go_string": text, "got": got, "hash_of_the_json_string": want, "hash_of_the_text_parsed_as_json": alt},
						"the model hash of the Go string %q is not the hash of that JSON string (it equals the hash of the parsed text: %v)", text, got == alt)
				}
				if asErr := hashing.IsValidModelMultihash(text, want); asErr != nil {
					c.Failf("string-model-not-valid-against-own-hash", map[string]interface{}{"model_go_string": text, "hash": want, "err": asErr.Error()}, "a Go string model hashes but does not validate against the hash of that JSON string")
				}
			}
		}
		for _, n := range []int{1200, 12000} {
			var l []interface{}
			for i := 0; i < n; i++ {
				l = append(l, []interface{}{i, i + 1})
			}
			v := map[string]interface{}{"coordinates": l, "empty": []interface{}{map[string]interface{}{}, []interface{}{}}}
			c.Count("wide-models", 1)
			c.Evals(2)
			c.Sig("wide-model", n)
			want, _ := oracle.ModelHash(18, v)
			got, err := hashing.CalculateModelMultihash(v, 18)
			if err != nil || got != want {
				c.Failf("wide-model", map[string]interface{}{"arrays": n, "err": fmt.Sprint(err), "got": got, "expected": want}, "a flat model with %d small arrays does not get its model hash (err=%v)", n, err)
				continue
			}
			if verr := hashing.IsValidModelMultihash(oracle.MustJCS(v), want); verr != nil {
				c.Failf("wide-model", map[string]interface{}{"arrays": n, "err": verr.Error()}, "a flat model with %d small arrays (as bytes) does not validate against its hash", n)
			}
		}
	})
	r.Case("unsupported-codes", func(c *fw.Case) {
		v := map[string]interface{}{"a": 1}
		for _, code := range unsupportedCodes {
			c.Count("unsupported-code", 1)
			c.Evals(1)
			c.Sig("unsupported", code)
			h, err := hashing.CalculateModelMultihash(v, code)
			if err == nil {
				c.Failf("unsupported-code-accepted", map[string]interface{}{"code": code, "hash": h}, "CalculateModelMultihash accepted unsupported code %d", code)
			}
			if _, err := docutil.CalculateID("did:x", v, code); err == nil {
				c.Failf("calculate-id-unsupported-code", map[string]interface{}{"code": code}, "CalculateID accepted unsupported code %d", code)
			}
		}
		c.Sample(map[string]interface{}{"unsupported_codes": unsupportedCodes})
	})
}

func c06Values(c *fw.Case, n int) {
	r := c.Rng
	for i := 0; i < n; i++ {
		var v interface{}
		if r.Chance(3, 4) {
			v = gen.RandObject(r, 3)
		} else {
			v = []interface{}{gen.RandValue(r, 2), gen.RandValue(r, 2)}
		}
		var sb strings.Builder
		shape(v, &sb, 0)
		hashes := map[uint64]string{}
		for _, code := range []uint64{18, 19} {
			want, err := oracle.ModelHash(code, v)
			if err != nil {
				c.Inconclusive("oracle-error")
				return
			}
			hashes[code] = want
			c.Count("calc", 2)
			c.Evals(2)
			got, err := hashing.CalculateModelMultihash(v, uint(code))
			if err != nil || got != want {
				c.Failf("calc-mismatch", map[string]interface{}{"value": v, "code": code, "expected": want, "got": got, "err": fmt.Sprint(err)}, "CalculateModelMultihash(value,%d) = %q, reference %q", code, got, want)
			}
			raw := gen.Spell(r, v, gen.AllSpell)
			got2, err := hashing.CalculateModelMultihash(raw, uint(code))
			if err != nil || got2 != want {
				c.Failf("calc-mismatch-bytes", map[string]interface{}{"bytes": string(raw), "code": code, "expected": want, "got": got2, "err": fmt.Sprint(err)}, "CalculateModelMultihash(bytes,%d) = %q, reference %q", code, got2, want)
			}
			// the caller's buffer is the caller's: filled with another model of the same length (one character of a name or text changed
			// in place) and hashed again, it hashes as what it holds now - and validates against nothing else
			if code == 18 {
				buf := oracle.MustJCS(map[string]interface{}{"model": v, "tag": "a" + fmt.Sprint(r.Intn(1000))})
				h1, e1 := hashing.CalculateModelMultihash(buf, uint(code))
				at := bytes.Index(buf, []byte(`"tag":"a`)) + 7
				buf[at] = 'b'
				var edited interface{}
				json.Unmarshal(buf, &edited)
				wantEdited, _ := oracle.ModelHash(code, oracle.MustGeneric(edited))
				h2, e2 := hashing.CalculateModelMultihash(buf, uint(code))
				c.Count("buffer-reused-for-another-model", 1)
				c.Evals(3)
				if e1 != nil || e2 != nil || h2 != wantEdited || h1 == h2 {
					c.Failf("stale-hash-for-reused-buffer", map[string]interface{}{"buffer_now": string(buf), "hash_before_edit": h1, "hash_after_edit": h2, "expected_after_edit": wantEdited, "err": fmt.Sprint(e1, e2)},
						"a byte buffer hashed, edited in place and hashed again does not hash as its new content")
				} else if hashing.IsValidModelMultihash(buf, h1) == nil {
					c.Failf("stale-hash-for-reused-buffer", map[string]interface{}{"buffer_now": string(buf), "hash_before_edit": h1}, "the edited buffer validates against the hash of its previous content")
				}
			}
			// prefix queries
			mc, err := hashing.GetMultihashCode(want)
			c.Evals(1)
			if err != nil || mc != code {
				c.Failf("code-mismatch", map[string]interface{}{"hash": want, "got": mc, "err": fmt.Sprint(err)}, "GetMultihashCode(%q) = %d, prefix says %d", want, mc, code)
			}
			for _, list := range [][]uint{{18}, {19}, {18, 19}, {19, 18}, {}, {17, 20}} {
				exp := false
				for _, x := range list {
					if uint64(x) == code {
						exp = true
					}
				}
				c.Evals(1)
				if got := hashing.IsComputedUsingMultihashAlgorithms(want, list); got != exp {
					c.Failf("computed-using-mismatch", map[string]interface{}{"hash": want, "list": list, "got": got}, "IsComputedUsingMultihashAlgorithms(%q,%v)=%v want %v", want, list, got, exp)
				}
			}
			id, err := docutil.CalculateID("did:ns:sub", v, uint(code))
			c.Count("calculate-id", 1)
			c.Evals(1)
			if err != nil || id != "did:ns:sub:"+want {
				c.Failf("calculate-id", map[string]interface{}{"got": id, "expected": "did:ns:sub:" + want}, "CalculateID mismatch")
			}
		}
		c.Sig("val", sb.String())
		// validation: equal values in any spelling succeed, with either algorithm's hash
		for _, code := range []uint64{18, 19} {
			for j := 0; j < 3; j++ {
				c.Count("validate-equal", 1)
				c.Evals(1)
				var in interface{}
				if j == 0 {
					in = v
				} else {
					in = gen.Spell(r, v, gen.AllSpell)
				}
				if err := hashing.IsValidModelMultihash(in, hashes[code]); err != nil {
					c.Failf("valid-refused", map[string]interface{}{"value": fmt.Sprintf("%s", showBytes(in)), "hash": hashes[code], "err": err.Error()}, "IsValidModelMultihash refused an equal value: %v", err)
				}
			}
		}
		// modifications must be refused
		for j := 0; j < 6; j++ {
			mv, desc, ok := gen.MutateValue(r, v)
			if !ok {
				c.Inconclusive("no-mutation")
				continue
			}
			code := uint64(18 + j%2)
			c.Count("validate-modified", 1)
			c.Evals(1)
			c.Sig("mut", strings.SplitN(desc, " at ", 2)[0], sb.Len()%7)
			var in interface{} = mv
			if j%3 == 2 {
				in = gen.Spell(r, mv, gen.AllSpell)
			}
			if err := hashing.IsValidModelMultihash(in, hashes[code]); err == nil {
				c.Failf("modified-accepted", map[string]interface{}{"original": v, "modified": mv, "mutation": desc, "hash": hashes[code]}, "IsValidModelMultihash accepted a modified value (%s)", desc)
			}
		}
		// non-canonical spellings of the right hash are not "the hash computed from the value": validation compares the
		// encoded strings, so a spelling that merely decodes to the same bytes (spare trailing bits, line breaks the
		// lenient base64 decoder skips) must be refused
		for _, code := range []uint64{18, 19} {
			hh := hashes[code]
			swapped := []byte(hh)
			for i := len(swapped) - 2; i > 4; i-- {
				if swapped[i] >= 'a' && swapped[i] <= 'z' {
					swapped[i] -= 32
					break
				}
				if swapped[i] >= 'A' && swapped[i] <= 'Z' {
					swapped[i] += 32
					break
				}
			}
			variants := map[string]string{"letter-case-swapped": string(swapped), "embedded-newline": hh[:len(hh)/2] + "\n" + hh[len(hh)/2:], "trailing-crlf": hh + "\r\n", "leading-newline": "\n" + hh}
			if len(hh)%4 != 0 {
				const alpha = "ABCDEFGHIJKLMNOPQRSTUVWXYZabcdefghijklmnopqrstuvwxyz0123456789-_"
				spare := uint(2)
				if len(hh)%4 == 2 {
					spare = 4
				}
				idx := strings.IndexByte(alpha, hh[len(hh)-1])
				alt := (idx &^ (1<<spare - 1)) | ((idx + 1) & (1<<spare - 1))
				if alt != idx {
					variants["non-zero-trailing-bits"] = hh[:len(hh)-1] + string(alpha[alt])
				}
			}
			// well-formed multihashes of the right algorithm whose digest is only a prefix of the real one
			if dm, err := oracle.DecodeEncodedMultihash(hh); err == nil {
				for _, n := range []int{0, 1, 16, len(dm.Digest) - 1} {
					variants[fmt.Sprintf("digest-truncated-to-%d", n)] = oracle.B64(oracle.WrapDigest(code, dm.Digest[:n]))
				}
			}
			for name, vs := range variants {
				c.Count("validate-noncanonical-spelling", 1)
				c.Evals(1)
				c.Sig("noncanon", name, code)
				if err := hashing.IsValidModelMultihash(v, vs); err == nil {
					c.Failf("noncanonical-hash-accepted:"+name, map[string]interface{}{"value": v, "canonical_hash": hh, "spelling": vs, "class": name}, "IsValidModelMultihash accepted a non-canonical spelling (%s) of the hash", name)
				}
			}
		}
		// a hash whose prefix names the other algorithm but carries this digest must be refused
		d18, _ := oracle.DecodeEncodedMultihash(hashes[18])
		forged := oracle.B64(oracle.WrapDigest(19, d18.Digest))
		c.Evals(1)
		if err := hashing.IsValidModelMultihash(v, forged); err == nil {
			c.Failf("forged-prefix-accepted", map[string]interface{}{"value": v, "hash": forged}, "hash with swapped algorithm prefix accepted")
		}
		if i == 0 {
			c.Sample(map[string]interface{}{"value": v, "sha256": hashes[18], "sha512": hashes[19]})
		}
	}
}

func showBytes(v interface{}) interface{} {
	if b, ok := v.([]byte); ok {
		return string(b)
	}
	return v
}

func c06Malformed(c *fw.Case, n int) {
	r := c.Rng
	v := map[string]interface{}{"k": "v", "n": 1}
	for i := 0; i < n; i++ {
		code := uint64(18 + r.Intn(2))
		good, _ := oracle.ModelHash(code, v)
		raw, _ := oracle.B64DecodeStrict(good)
		var bad, class string
		switch r.Intn(12) {
		case 9:
			// the code written as a longer varint than needed (0x92 0x00 for 0x12): not the minimal encoding
			bad = oracle.B64(append([]byte{0x80 | byte(code), 0x00}, raw[1:]...))
			class = "code-varint-not-minimal"
		case 10:
			// the length written as a longer varint than needed
			bad = oracle.B64(append([]byte{byte(code), 0x80 | raw[1], 0x00}, raw[2:]...))
			class = "length-varint-not-minimal"
		case 11:
			// ten-byte varint code
			bad = oracle.B64(append([]byte{0x80 | byte(code), 0x80, 0x80, 0x80, 0x80, 0x80, 0x80, 0x80, 0x80, 0x00}, raw[1:]...))
			class = "code-varint-ten-bytes"
		case 0:
			pos := r.Intn(len(good))
			bad = good[:pos] + string("!*+/.= \x00\x7f"[r.Intn(9)]) + good[pos+1:]
			class = "non-alphabet-char"
		case 1:
			bad = good + strings.Repeat("=", 1+r.Intn(2))
			class = "padded"
		case 2:
			// length field larger than digest
			d := raw[2:]
			bad = oracle.B64(append([]byte{byte(code), byte(len(d) + 1 + r.Intn(20))}, d...))
			class = "length-field-larger"
		case 3:
			d := raw[2:]
			bad = oracle.B64(append([]byte{byte(code), byte(len(d) - 1 - r.Intn(len(d)-1))}, d...))
			class = "length-field-smaller"
		case 4:
			cut := 3 + r.Intn(len(raw)-4)
			bad = oracle.B64(raw[:cut])
			class = "truncated-digest"
		case 5:
			bad = ""
			class = "empty"
		case 6:
			bad = oracle.B64([]byte{byte(r.Intn(256))})
			class = "one-byte"
		case 7:
			bad = oracle.B64(append(append([]byte{}, raw...), r.Bytes(1+r.Intn(4))...))
			class = "trailing-bytes"
		case 8:
			// unterminated varint code
			bad = oracle.B64([]byte{0x80 | byte(r.Intn(128)), 0x80 | byte(r.Intn(128))})
			class = "unterminated-varint"
		}
		if _, err := oracle.DecodeEncodedMultihash(bad); err == nil {
			c.Inconclusive("generator-produced-wellformed")
			continue
		}
		c.Count("malformed", 1)
		c.Evals(3)
		c.Sig("malformed", class, code)
		w := map[string]interface{}{"encoded": bad, "class": class}
		if _, err := hashing.GetMultihashCode(bad); err == nil {
			c.Failf("malformed-accepted:"+class, w, "GetMultihashCode accepted malformed multihash (%s)", class)
		}
		if err := hashing.IsValidModelMultihash(v, bad); err == nil {
			c.Failf("malformed-accepted:"+class, w, "IsValidModelMultihash accepted malformed multihash (%s)", class)
		}
		if hashing.IsComputedUsingMultihashAlgorithms(bad, []uint{18, 19}) {
			c.Failf("malformed-accepted:"+class, w, "IsComputedUsingMultihashAlgorithms true for malformed multihash (%s)", class)
		}
		if i == 0 {
			c.Sample(w)
		}
	}
	// observations (not demanded): lenient base64 spellings of a well-formed hash
	good, _ := oracle.ModelHash(18, v)
	if _, err := hashing.GetMultihashCode(good[:10] + "\n" + good[10:]); err == nil {
		c.Observe("base64 decoder ignores embedded newline")
	}
}
