package checks

import (
	"bytes"
	"crypto/ecdsa"
	"crypto/ed25519"
	"crypto/x509"
	"encoding/json"
	"fmt"
	"math/big"
	"reflect"
	"strings"

	"github.com/trustbloc/sidetree-go/pkg/commitment"
	"github.com/trustbloc/sidetree-go/pkg/jws"
	"github.com/trustbloc/sidetree-go/pkg/jwsutil"
	"github.com/trustbloc/sidetree-go/pkg/util/pubkey"

	"verifharness/fw"
	"verifharness/gen"
	"verifharness/oracle"
)

func init() {
	fw.Register(&fw.Check{
		ID:          "C16",
		Rule:        "cases: public keys of the five types; EC points are also constructed from a chosen x (0..3 leading zero bytes, y by modular square root) so that fixed-width encoding of short coordinates is exercised for every curve, and searched for leading-zero y. Each key: GetPublicKeyJWK -> kty/crv/width checks against own fixed-width encoding -> jwsutil.JWK.UnmarshalJSON round trip -> commitment equality with the reference; then labelled bad JWKs (leading zero dropped/added, trailing byte, one bit flipped in x or y and verified off-curve with the curve equation, curve name swapped, missing coordinate, the x|y boundary shifted by -2..+2 bytes or all bytes in one member with the total length preserved) must be rejected by UnmarshalJSON and by VerifySignature. A JWK variable that decoded a key of another type first must afterwards equal a fresh one (labels, key, re-serialization, PublicKeyBytes). distinct = (curve, leading zero bytes in x, in y, mutation).",
		Assumptions: []string{"math/big modular arithmetic and curve parameters from crypto/elliptic and btcec", "harness base64url codec"},
		Require:     []string{"roundtrip", "leading-zero-x", "leading-zero-y", "bad-jwk", "ed25519", "public-key-bytes", "x-at-or-above-group-order", "decoder-reuse", "relabelled-after-use", "raw-member-name-texts"},
		Run:         runC16,
	})
}

// pointWithX finds a curve point whose x has `zeros` leading zero bytes.
func pointWithX(r *fw.Rand, typ string, zeros int) (*big.Int, *big.Int) {
	c := gen.Curve(typ)
	p := c.Params().P
	w := gen.CurveBytes(typ)
	for tries := 0; tries < 2000; tries++ {
		xb := r.Bytes(w)
		for i := 0; i < zeros && i < w; i++ {
			xb[i] = 0
		}
		if typ == gen.P521 {
			xb[0] &= 1
			if zeros > 0 {
				xb[0] = 0
			}
		}
		if zeros < w && xb[zeros] == 0 && !(typ == gen.P521 && zeros == 0) {
			xb[zeros] = 1 + byte(r.Intn(255))
		}
		x := new(big.Int).SetBytes(xb)
		if x.Cmp(p) >= 0 {
			continue
		}
		// y^2 = x^3 + a x + b
		rhs := new(big.Int).Exp(x, big.NewInt(3), p)
		if typ != gen.Secp256k1 {
			t := new(big.Int).Mul(x, big.NewInt(3))
			rhs.Sub(rhs, t)
		}
		rhs.Add(rhs, c.Params().B)
		rhs.Mod(rhs, p)
		y := new(big.Int).ModSqrt(rhs, p)
		if y == nil {
			continue
		}
		if r.Bool() {
			y.Sub(p, y)
		}
		if !c.IsOnCurve(x, y) {
			continue
		}
		return x, y
	}
	return nil, nil
}

func onCurve(typ string, x, y *big.Int) bool {
	c := gen.Curve(typ)
	p := c.Params().P
	if x.Sign() < 0 || y.Sign() < 0 || x.Cmp(p) >= 0 || y.Cmp(p) >= 0 {
		return false
	}
	lhs := new(big.Int).Mul(y, y)
	lhs.Mod(lhs, p)
	rhs := new(big.Int).Exp(x, big.NewInt(3), p)
	if typ != gen.Secp256k1 {
		rhs.Sub(rhs, new(big.Int).Mul(x, big.NewInt(3)))
	}
	rhs.Add(rhs, c.Params().B)
	rhs.Mod(rhs, p)
	return lhs.Cmp(rhs) == 0
}

func leadingZeros(b []byte) int {
	n := 0
	for n < len(b) && b[n] == 0 {
		n++
	}
	return n
}

func padTo(b []byte, n int) []byte {
	if len(b) >= n {
		return b
	}
	out := make([]byte, n)
	copy(out[n-len(b):], b)
	return out
}

func runC16(r *fw.Runner) {
	ecTypes := []string{gen.P256, gen.P384, gen.P521, gen.Secp256k1}
	for _, typ := range ecTypes {
		typ := typ
		for zeros := 0; zeros <= 3; zeros++ {
			zeros := zeros
			for b := 0; b < r.N(3, 40); b++ {
				r.Case("ec-constructed-"+typ, func(c *fw.Case) {
					for i := 0; i < 6; i++ {
						x, y := pointWithX(c.Rng, typ, zeros)
						if x == nil {
							c.Inconclusive("no-point-found")
							continue
						}
						c16EC(c, typ, x, y)
					}
				})
			}
		}
		// valid points whose x coordinate is >= the group order N (x ranges over the field, not over the scalars)
		for b := 0; b < r.N(2, 10); b++ {
			r.Case("ec-x-above-order-"+typ, func(c *fw.Case) {
				cv := gen.Curve(typ)
				n, p := cv.Params().N, cv.Params().P
				if n.Cmp(p) >= 0 {
					return // P-521's order exceeds... (never for these curves, but be safe)
				}
				span := new(big.Int).Sub(p, n)
				found := 0
				for k := 0; k < 4000 && found < 4; k++ {
					off := new(big.Int).SetBytes(c.Rng.Bytes(20))
					off.Mod(off, span)
					x := new(big.Int).Add(n, off)
					if k < 200 {
						x = new(big.Int).Add(n, big.NewInt(int64(k)))
					}
					rhs := new(big.Int).Exp(x, big.NewInt(3), p)
					if typ != gen.Secp256k1 {
						rhs.Sub(rhs, new(big.Int).Mul(x, big.NewInt(3)))
					}
					rhs.Add(rhs, cv.Params().B)
					rhs.Mod(rhs, p)
					y := new(big.Int).ModSqrt(rhs, p)
					if y == nil || !cv.IsOnCurve(x, y) {
						continue
					}
					found++
					c.Count("x-at-or-above-group-order", 1)
					c16EC(c, typ, x, y)
				}
			})
		}
		// the smallest x values that lie on the curve, starting with x = 0 (the NIST curves have two points there: a coordinate of
		// zero is a coordinate, not the point at infinity), and the smallest y values likewise
		r.Case("ec-smallest-coordinates-"+typ, func(c *fw.Case) {
			cv := gen.Curve(typ)
			p := cv.Params().P
			found := 0
			for k := int64(0); k < 400 && found < 6; k++ {
				x := big.NewInt(k)
				rhs := new(big.Int).Exp(x, big.NewInt(3), p)
				if typ != gen.Secp256k1 {
					rhs.Sub(rhs, new(big.Int).Mul(x, big.NewInt(3)))
				}
				rhs.Add(rhs, cv.Params().B)
				rhs.Mod(rhs, p)
				y := new(big.Int).ModSqrt(rhs, p)
				if y == nil || !cv.IsOnCurve(x, y) {
					continue
				}
				found++
				c.Count("smallest-x-points", 1)
				c16EC(c, typ, x, y)
				c16EC(c, typ, x, new(big.Int).Sub(p, y))
			}
			if found == 0 {
				c.Inconclusive("no-point-found")
			}
		})
		// searched keys (leading-zero y appears with probability 1/256 per key)
		for b := 0; b < r.N(8, 200); b++ {
			r.Case("ec-searched-"+typ, func(c *fw.Case) {
				n := 0
				for i := 0; i < 400 && n < 3; i++ {
					k := gen.NewKey(c.Rng, typ)
					_, y := k.XY()
					if leadingZeros(y) == 0 && i%50 != 0 {
						continue
					}
					n++
					c16EC(c, typ, k.EC.X, k.EC.Y)
				}
			})
		}
	}
	for b := 0; b < r.N(6, 100); b++ {
		r.Case("used-key-relabelled", func(c *fw.Case) { c16Relabelled(c) })
	}
	// reveal values and commitments computed from a key by the long-form client equal the ones computed by the harness from the key
	// (every request it builds must open the commitment installed before it, also across a change of hash algorithm)
	for b := 0; b < r.N(12, 100); b++ {
		r.Case("client-computed-reveal-values", func(c *fw.Case) { c08Client(c) })
	}
	for b := 0; b < r.N(6, 100); b++ {
		r.Case("raw-json-member-names", func(c *fw.Case) { c16RawMembers(c) })
	}
	for b := 0; b < r.N(10, 300); b++ {
		r.Case("ed25519", func(c *fw.Case) {
			for i := 0; i < 20; i++ {
				c16Ed(c, i)
			}
		})
	}
}

func c16EC(c *fw.Case, typ string, x, y *big.Int) {
	r := c.Rng
	w := gen.CurveBytes(typ)
	xb, yb := padTo(x.Bytes(), w), padTo(y.Bytes(), w)
	zx, zy := leadingZeros(xb), leadingZeros(yb)
	if zx > 0 {
		c.Count("leading-zero-x", 1)
	}
	if zy > 0 {
		c.Count("leading-zero-y", 1)
	}
	c.Sig("ec", typ, zx, zy)
	pub := &ecdsa.PublicKey{Curve: gen.Curve(typ), X: x, Y: y}
	wantJWK := map[string]interface{}{"kty": "EC", "crv": typ, "x": oracle.B64(xb), "y": oracle.B64(yb)}
	c.Count("roundtrip", 1)
	c.Evals(4)
	got, err := pubkey.GetPublicKeyJWK(pub)
	if err != nil {
		c.Failf("to-jwk-error", map[string]interface{}{"curve": typ, "x": fmt.Sprintf("%x", xb), "y": fmt.Sprintf("%x", yb), "err": err.Error()}, "GetPublicKeyJWK failed: %v", err)
		return
	}
	w1 := map[string]interface{}{"curve": typ, "expected": wantJWK, "got": got}
	if got.Kty != "EC" || got.Crv != typ {
		c.Failf("wrong-kty-crv", w1, "JWK has kty=%q crv=%q, want EC/%s", got.Kty, got.Crv, typ)
	}
	gx, ex := oracle.B64DecodeStrict(got.X)
	gy, ey := oracle.B64DecodeStrict(got.Y)
	if ex != nil || ey != nil || len(gx) != w || len(gy) != w {
		c.Failf("wrong-width", w1, "coordinates encoded at %d/%d bytes, curve width is %d", len(gx), len(gy), w)
	} else if got.X != wantJWK["x"] || got.Y != wantJWK["y"] {
		c.Failf("wrong-coordinates", w1, "encoded coordinates differ from the key's")
	}
	// the mirror point (x, p-y) is another key with the same x: converted next, it gets its own y, and the first key converted once
	// more still gets its own
	{
		my := new(big.Int).Sub(gen.Curve(typ).Params().P, y)
		mirror := &ecdsa.PublicKey{Curve: gen.Curve(typ), X: x, Y: my}
		mj, merr := pubkey.GetPublicKeyJWK(mirror)
		again, aerr := pubkey.GetPublicKeyJWK(pub)
		c.Count("mirror-point-conversions", 1)
		c.Evals(2)
		if merr != nil || aerr != nil || mj.X != wantJWK["x"] || mj.Y != oracle.B64(padTo(my.Bytes(), w)) || again.X != wantJWK["x"] || again.Y != wantJWK["y"] {
			c.Failf("wrong-coordinates", map[string]interface{}{"curve": typ, "key": wantJWK, "mirror_key_y": oracle.B64(padTo(my.Bytes(), w)), "mirror_converted_to": mj, "key_converted_again_to": again, "err": fmt.Sprint(merr, aerr)},
				"a key and its mirror point (same x, y negated) converted one after the other do not each get their own coordinates")
		}
	}
	// read back
	jb, _ := json.Marshal(got)
	var back jwsutil.JWK
	if err := back.UnmarshalJSON(jb); err != nil {
		c.Failf("read-back-error", map[string]interface{}{"jwk": string(jb), "err": err.Error()}, "UnmarshalJSON of GetPublicKeyJWK output failed: %v", err)
	} else {
		bp, ok := back.Key.(*ecdsa.PublicKey)
		if !ok || bp.X.Cmp(x) != 0 || bp.Y.Cmp(y) != 0 {
			c.Failf("read-back-differs", map[string]interface{}{"jwk": string(jb)}, "key read back from JWK differs from the original")
		}
		if back.Kty != "EC" || back.Crv != typ {
			c.Failf("read-back-kty-crv", map[string]interface{}{"jwk": string(jb), "kty": back.Kty, "crv": back.Crv}, "read-back JWK reports kty=%q crv=%q", back.Kty, back.Crv)
		}
	}
	// one JWK variable that decoded a key of another type before: it must end up exactly like a fresh one
	if freshErr := back.UnmarshalJSON(jb); freshErr == nil {
		c16Reuse(c, jb, &back)
	}
	// the key read back exposes the same public key bytes as the original key
	if err := func() error {
		var rb jwsutil.JWK
		if err := rb.UnmarshalJSON(jb); err != nil {
			return nil // reported above
		}
		pkb, err := rb.PublicKeyBytes()
		if err != nil {
			return fmt.Errorf("PublicKeyBytes failed: %v", err)
		}
		var want []byte
		if typ == gen.Secp256k1 {
			want = append([]byte{2 + byte(y.Bit(0))}, xb...) // SEC1 compressed
		} else {
			want, _ = x509.MarshalPKIXPublicKey(pub)
		}
		c.Count("public-key-bytes", 1)
		if !bytes.Equal(pkb, want) {
			return fmt.Errorf("PublicKeyBytes = %x, the key's encoding is %x", pkb, want)
		}
		return nil
	}(); err != nil {
		c.Failf("public-key-bytes-differ", map[string]interface{}{"jwk": string(jb), "problem": err.Error()}, "key read back from its JWK does not expose the original key bytes: %v", err)
	}
	// commitment computed from the library JWK equals the reference over the fixed-width JWK
	wantC, _ := oracle.Commitment(18, wantJWK)
	if gc, err := commitment.GetCommitment(got, 18); err != nil || gc != wantC {
		c.Failf("commitment-differs", map[string]interface{}{"jwk": got, "expected": wantC, "got": gc}, "commitment of the exported key differs from the reference")
	}
	c.Sample(map[string]interface{}{"curve": typ, "jwk": wantJWK, "leading_zero_bytes_x": zx, "leading_zero_bytes_y": zy})

	// bad JWKs
	type bad struct {
		name string
		j    map[string]interface{}
	}
	cp := func() map[string]interface{} {
		m := map[string]interface{}{}
		for k, v := range wantJWK {
			m[k] = v
		}
		return m
	}
	var bads []bad
	add := func(name string, f func(m map[string]interface{})) {
		m := cp()
		f(m)
		bads = append(bads, bad{name, m})
	}
	if zx > 0 {
		add("x-leading-zero-dropped", func(m map[string]interface{}) { m["x"] = oracle.B64(xb[1:]) })
	}
	if zy > 0 {
		add("y-leading-zero-dropped", func(m map[string]interface{}) { m["y"] = oracle.B64(yb[1:]) })
	}
	add("x-leading-zero-added", func(m map[string]interface{}) { m["x"] = oracle.B64(append([]byte{0}, xb...)) })
	add("y-leading-zero-added", func(m map[string]interface{}) { m["y"] = oracle.B64(append([]byte{0}, yb...)) })
	add("x-trailing-byte", func(m map[string]interface{}) {
		m["x"] = oracle.B64(append(append([]byte{}, xb...), byte(r.Intn(256))))
	})
	add("y-truncated", func(m map[string]interface{}) { m["y"] = oracle.B64(yb[:w-1]) })
	add("x-missing", func(m map[string]interface{}) { delete(m, "x") })
	add("y-missing", func(m map[string]interface{}) { delete(m, "y") })
	// both widths wrong at once with the total length preserved: the boundary between x and y moved by k bytes
	cat := append(append([]byte{}, xb...), yb...)
	for _, k := range []int{-2, -1, 1, 2, w} {
		k := k
		add(fmt.Sprintf("xy-boundary-shifted-%+d", k), func(m map[string]interface{}) {
			m["x"] = oracle.B64(cat[:w+k])
			m["y"] = oracle.B64(cat[w+k:])
		})
	}
	add("xy-boundary-all-in-y", func(m map[string]interface{}) { m["x"] = ""; m["y"] = oracle.B64(cat) })
	// wrong widths stay wrong under another letter case of the curve name
	for _, cv := range []string{strings.ToUpper(typ), strings.ToLower(typ), strings.ToUpper(typ[:1]) + typ[1:]} {
		if cv == typ {
			continue
		}
		cv := cv
		add("crv-case-variant+x-leading-zero-added", func(m map[string]interface{}) {
			m["crv"] = cv
			m["x"] = oracle.B64(append([]byte{0}, xb...))
		})
		add("crv-case-variant+y-leading-zeros-added", func(m map[string]interface{}) {
			m["crv"] = cv
			m["y"] = oracle.B64(append([]byte{0, 0}, yb...))
		})
		if zx > 0 {
			add("crv-case-variant+x-leading-zero-dropped", func(m map[string]interface{}) { m["crv"] = cv; m["x"] = oracle.B64(xb[1:]) })
		}
		if zy > 0 {
			add("crv-case-variant+y-leading-zero-dropped", func(m map[string]interface{}) { m["crv"] = cv; m["y"] = oracle.B64(yb[1:]) })
		}
	}
	if typ == gen.Secp256k1 {
		// a private-key member next to an off-curve point does not make the point acceptable
		fb := append([]byte{}, xb...)
		fb[len(fb)-1] ^= 1
		if !onCurve(typ, new(big.Int).SetBytes(fb), new(big.Int).SetBytes(yb)) {
			add("x-off-curve-with-d-member", func(m map[string]interface{}) {
				m["x"] = oracle.B64(fb)
				m["d"] = oracle.B64(r.Bytes(32))
			})
		}
		// a JWK whose labels differ from the registered names by letter case: if the decoder takes it, what it writes back carries the
		// registered names (kty EC, crv secp256k1) and the same coordinates
		for _, lab := range [][2]string{{"ec", "secp256k1"}, {"EC", "SECP256K1"}, {"Ec", "Secp256K1"}} {
			text, _ := json.Marshal(map[string]interface{}{"kty": lab[0], "crv": lab[1], "x": oracle.B64(xb), "y": oracle.B64(yb)})
			var v jwsutil.JWK
			c.Count("label-case-variants", 1)
			if err := v.UnmarshalJSON(text); err != nil {
				c.Count("label-case-variant-refused", 1)
				continue
			}
			out, err := v.MarshalJSON()
			var back map[string]interface{}
			if err == nil {
				err = json.Unmarshal(out, &back)
			}
			if err != nil || back["kty"] != "EC" || back["crv"] != gen.Secp256k1 || back["x"] != oracle.B64(xb) || back["y"] != oracle.B64(yb) {
				c.Failf("reencoded-jwk-labels", map[string]interface{}{"decoded_text": string(text), "reencoded": string(out), "err": fmt.Sprint(err)},
					"a secp256k1 JWK decoded from labels %s/%s is written back as %s (expected kty EC, crv secp256k1, same coordinates)", lab[0], lab[1], out)
			}
		}
	}
	for _, coord := range []string{"x", "y"} {
		coord := coord
		src := xb
		if coord == "y" {
			src = yb
		}
		fb := append([]byte{}, src...)
		bit := r.Intn(len(fb) * 8)
		if typ == gen.P521 && bit < 7 {
			bit = 7 + r.Intn(len(fb)*8-7)
		}
		fb[bit/8] ^= 1 << uint(7-bit%8)
		nx, ny := new(big.Int).SetBytes(xb), new(big.Int).SetBytes(yb)
		if coord == "x" {
			nx = new(big.Int).SetBytes(fb)
		} else {
			ny = new(big.Int).SetBytes(fb)
		}
		if onCurve(typ, nx, ny) {
			c.Inconclusive("bit-flip-still-on-curve")
			continue
		}
		add(coord+"-bit-flip-off-curve", func(m map[string]interface{}) { m[coord] = oracle.B64(fb) })
	}
	for _, other := range []string{gen.P256, gen.Secp256k1, gen.P384} {
		if other == typ || gen.CurveBytes(other) != w {
			continue
		}
		if onCurve(other, x, y) {
			continue
		}
		other := other
		add("curve-swapped-to-"+other, func(m map[string]interface{}) { m["crv"] = other })
	}
	msg := []byte("message")
	sig := make([]byte, 2*w)
	sig[w-1], sig[2*w-1] = 1, 1
	for _, b := range bads {
		c.Count("bad-jwk", 1)
		c.Evals(2)
		c.Sig("bad", typ, b.name)
		bj, _ := json.Marshal(b.j)
		var k jwsutil.JWK
		if err := k.UnmarshalJSON(bj); err == nil {
			c.Failf("bad-jwk-accepted:"+b.name, map[string]interface{}{"jwk": string(bj), "mutation": b.name, "curve": typ}, "UnmarshalJSON accepted a %s JWK", b.name)
		}
		var lj jws.JWK
		json.Unmarshal(bj, &lj)
		if err := jwsutil.VerifySignature(&lj, sig, msg); err == nil {
			c.Failf("bad-jwk-verifies:"+b.name, map[string]interface{}{"jwk": string(bj), "mutation": b.name}, "VerifySignature succeeded with a %s JWK", b.name)
		}
	}
}

func c16Ed(c *fw.Case, i int) {
	r := c.Rng
	k := gen.NewKey(r, gen.Ed25519)
	pub := k.Ed.Public().(ed25519.PublicKey)
	if i%5 == 0 {
		// arbitrary 32 bytes with leading zeros are valid encodings for the JWK layer
		b := r.Bytes(32)
		b[0] = 0
		if i%10 == 0 {
			b[1] = 0
		}
		pub = ed25519.PublicKey(b)
	}
	c.Count("ed25519", 1)
	c.Count("roundtrip", 1)
	c.Evals(3)
	c.Sig("ed", leadingZeros(pub))
	got, err := pubkey.GetPublicKeyJWK(pub)
	if err != nil {
		c.Failf("to-jwk-error", map[string]interface{}{"key": fmt.Sprintf("%x", []byte(pub)), "err": err.Error()}, "GetPublicKeyJWK(ed25519) failed: %v", err)
		return
	}
	if got.Kty != "OKP" || got.Crv != "Ed25519" || got.X != oracle.B64(pub) {
		c.Failf("ed-jwk-wrong", map[string]interface{}{"key": fmt.Sprintf("%x", []byte(pub)), "got": got}, "Ed25519 JWK wrong (kty=%q crv=%q x=%q)", got.Kty, got.Crv, got.X)
	}
	back, err := jwsutil.GetED25519PublicKey(got)
	if err != nil || !pub.Equal(back) {
		c.Failf("ed-read-back", map[string]interface{}{"jwk": got, "err": fmt.Sprint(err)}, "GetED25519PublicKey does not return the original key")
	}
	jb, _ := json.Marshal(got)
	var jk jwsutil.JWK
	if err := jk.UnmarshalJSON(jb); err != nil {
		c.Failf("ed-unmarshal", map[string]interface{}{"jwk": string(jb), "err": err.Error()}, "UnmarshalJSON(ed25519 JWK) failed")
	} else if p, ok := jk.Key.(ed25519.PublicKey); !ok || !pub.Equal(p) {
		c.Failf("ed-unmarshal-differs", map[string]interface{}{"jwk": string(jb)}, "UnmarshalJSON(ed25519 JWK) yields a different key")
	}
	if err := jk.UnmarshalJSON(jb); err == nil {
		c16Reuse(c, jb, &jk)
	}
	wantC, _ := oracle.Commitment(18, map[string]interface{}{"kty": "OKP", "crv": "Ed25519", "x": oracle.B64(pub), "y": ""})
	if gc, err := commitment.GetCommitment(got, 18); err != nil || gc != wantC {
		c.Failf("commitment-differs", map[string]interface{}{"jwk": got, "expected": wantC, "got": gc}, "commitment of the exported Ed25519 key differs from the reference")
	}
	if i == 0 {
		c.Sample(map[string]interface{}{"curve": "Ed25519", "jwk": got})
		// observation only: wrong-width Ed25519 x
		short := &jws.JWK{Kty: "OKP", Crv: "Ed25519", X: oracle.B64(pub[:31])}
		if _, err := jwsutil.GetED25519PublicKey(short); err == nil {
			c.Observe("31-byte Ed25519 x accepted (go-jose pads it); not demanded by C16")
		}
	}
}

// c16Reuse decodes a JWK of every other key type into one variable and then jb into the same variable; the result must
// not differ from the freshly decoded fresh (labels, key, exported bytes, re-serialization).
func c16Reuse(c *fw.Case, jb []byte, fresh *jwsutil.JWK) {
	freshOut, err1 := fresh.MarshalJSON()
	freshBytes, err2 := fresh.PublicKeyBytes()
	for _, ot := range gen.AllKeyTypes {
		if ot == fresh.Crv {
			continue
		}
		o := gen.NewKey(c.Rng, ot)
		oj, err := pubkey.GetPublicKeyJWK(o.Public())
		if err != nil {
			continue
		}
		ob, _ := json.Marshal(oj)
		var v jwsutil.JWK
		if err := v.UnmarshalJSON(ob); err != nil {
			continue
		}
		if first, err := v.PublicKeyBytes(); err == nil && len(first) > 0 {
			first[0] ^= 0xff // what an accessor returns belongs to the caller
		}
		c.Count("decoder-reuse", 1)
		c.Evals(1)
		c.Sig("reuse", ot, fresh.Crv)
		w := map[string]interface{}{"first_jwk": string(ob), "second_jwk": string(jb)}
		if err := v.UnmarshalJSON(jb); err != nil {
			w["err"] = err.Error()
			c.Failf("reused-decoder-error", w, "a JWK variable that held a %s key cannot decode a %s JWK: %v", ot, fresh.Crv, err)
			continue
		}
		out, e1 := v.MarshalJSON()
		pkb, e2 := v.PublicKeyBytes()
		w["labels"] = v.Kty + "/" + v.Crv
		w["reserialized"] = string(out)
		switch {
		case v.Kty != fresh.Kty || v.Crv != fresh.Crv:
			c.Failf("reused-decoder-labels", w, "a JWK variable that held a %s key reports kty=%q crv=%q after decoding a %s/%s JWK", ot, v.Kty, v.Crv, fresh.Kty, fresh.Crv)
		case !reflect.DeepEqual(v.Key, fresh.Key):
			c.Failf("reused-decoder-key", w, "a JWK variable that held a %s key holds a different key than a fresh one after decoding the same JWK", ot)
		case (e1 == nil) != (err1 == nil) || !bytes.Equal(out, freshOut):
			c.Failf("reused-decoder-reserialization", w, "re-serialization differs from a fresh variable's: %s vs %s", out, freshOut)
		case (e2 == nil) != (err2 == nil) || !bytes.Equal(pkb, freshBytes):
			c.Failf("reused-decoder-key-bytes", w, "PublicKeyBytes differs from a fresh variable's")
		}
	}
}

// c16Relabelled: a key that has just verified a signature successfully, then the same coordinates under the name of the other
// 32-byte curve (the point is not on that curve): rejected whatever was seen before, by VerifySignature and by UnmarshalJSON.
func c16Relabelled(c *fw.Case) {
	r := c.Rng
	// JWKs carrying the optional members alg / use / kid (with the algorithm name that belongs to the curve) survive the round trip too
	for _, typ := range gen.AllKeyTypes {
		k := gen.NewKey(r, typ)
		j := jwsutil.JWK{}
		j.Key = k.Public()
		j.Algorithm, j.Use, j.KeyID = k.Alg(), "sig", "key-1"
		if typ == gen.Secp256k1 {
			j.Kty, j.Crv = "EC", gen.Secp256k1
		}
		c.Count("jwk-with-optional-members", 1)
		c.Evals(2)
		c.Sig("jwk-optional", typ)
		text, err := j.MarshalJSON()
		if err != nil {
			c.Failf("to-jwk-error", map[string]interface{}{"curve": typ, "err": err.Error()}, "MarshalJSON of a %s key with alg/use/kid failed: %v", typ, err)
			continue
		}
		var back jwsutil.JWK
		if err := back.UnmarshalJSON(text); err != nil {
			c.Failf("read-back-error", map[string]interface{}{"jwk": string(text), "err": err.Error()}, "a %s JWK with alg %s, use and kid is not read back: %v", typ, k.Alg(), err)
			continue
		}
		if !reflect.DeepEqual(back.Key, j.Key) {
			switch bk := back.Key.(type) {
			case *ecdsa.PublicKey:
				if bk.X.Cmp(k.EC.X) != 0 || bk.Y.Cmp(k.EC.Y) != 0 {
					c.Failf("read-back-differs", map[string]interface{}{"jwk": string(text)}, "key read back from a JWK with optional members differs from the original")
				}
			default:
				c.Failf("read-back-differs", map[string]interface{}{"jwk": string(text)}, "key read back from a JWK with optional members differs from the original")
			}
		}
	}
	// reading a JWK (verifying with it, extracting its key) leaves the caller's object as it was - nonce included - so that
	// commitments computed from it before and after agree
	for _, typ := range gen.AllKeyTypes {
		k := gen.NewKey(r, typ)
		if r.Chance(2, 3) {
			k = k.WithNonce(r, 16)
		}
		jwk := toLibJWK(k.JWK())
		before := *jwk
		c1, _ := commitment.GetCommitment(jwk, 18)
		msg := r.Bytes(r.Range(1, 64))
		sig := k.Sign(r, msg)
		c.Count("jwk-unchanged-by-reading", 1)
		c.Evals(2)
		c.Sig("jwk-read", typ, k.Nonce != "")
		if err := jwsutil.VerifySignature(jwk, sig, msg); err != nil {
			c.Failf("genuine-key-refused", map[string]interface{}{"jwk": k.JWK(), "err": err.Error()}, "signature does not verify under its own key: %v", err)
			continue
		}
		if typ == gen.Ed25519 {
			jwsutil.GetED25519PublicKey(jwk)
		}
		if typ != gen.Ed25519 {
			// the same point with a coordinate written at another width (a zero octet in front, a leading zero octet dropped, an octet
			// appended) is a JWK of the wrong width: the genuine signature does not verify under it
			xb, yb := k.XY()
			wrong := map[string][2][]byte{"x-zero-extended": {append([]byte{0}, xb...), yb}, "y-zero-extended": {xb, append([]byte{0, 0}, yb...)}, "x-octet-appended": {append(append([]byte{}, xb...), 0x5a), yb}}
			if xb[0] == 0 {
				wrong["x-leading-zero-dropped"] = [2][]byte{xb[1:], yb}
			}
			if yb[0] == 0 {
				wrong["y-leading-zero-dropped"] = [2][]byte{xb, yb[1:]}
			}
			// the right octets in a text that is not unpadded base64url (RFC 7518 6.2.1.2: "base64url encoding ... without padding")
			for _, pad := range []string{"=", "=="} {
				wj := *jwk
				if r.Bool() {
					wj.X += pad
				} else {
					wj.Y += pad
				}
				c.Count("padded-coordinate-text-with-genuine-signature", 1)
				c.Evals(1)
				if err := jwsutil.VerifySignature(&wj, sig, msg); err == nil {
					c.Failf("bad-jwk-verifies:coordinate-text-padded", map[string]interface{}{"genuine_jwk": k.JWK(), "padded_jwk": map[string]interface{}{"kty": wj.Kty, "crv": wj.Crv, "x": wj.X, "y": wj.Y}},
						"a genuine %s signature verifies under the key's JWK with %q appended to a coordinate text", typ, pad)
				}
			}
			for _, name := range []string{"x-zero-extended", "y-zero-extended", "x-octet-appended", "x-leading-zero-dropped", "y-leading-zero-dropped"} {
				xy, ok := wrong[name]
				if !ok {
					continue
				}
				wj := *jwk
				wj.X, wj.Y = oracle.B64(xy[0]), oracle.B64(xy[1])
				c.Count("wrong-width-jwk-with-genuine-signature", 1)
				c.Evals(1)
				if err := jwsutil.VerifySignature(&wj, sig, msg); err == nil {
					c.Failf("bad-jwk-verifies:"+name, map[string]interface{}{"genuine_jwk": k.JWK(), "wrong_width_jwk": map[string]interface{}{"kty": wj.Kty, "crv": wj.Crv, "x": wj.X, "y": wj.Y}, "mutation": name},
						"a genuine %s signature verifies under the key's JWK with %s", typ, name)
				}
			}
		}
		if typ != gen.Ed25519 {
			// a curve name in another letter case (or with the Kelvin sign for k) is not the registered name: such a JWK names no
			// supported curve and verifies nothing, although its coordinates are the signer's
			for _, cv := range []string{strings.ToUpper(typ), strings.ToLower(typ), strings.Title(strings.ToLower(typ)), strings.Replace(typ, "k", "\u212a", 1), typ + " ", " " + typ} {
				if cv == typ {
					continue
				}
				vj := *jwk
				vj.Crv = cv
				c.Count("curve-name-variants-with-genuine-signature", 1)
				c.Evals(1)
				if err := jwsutil.VerifySignature(&vj, sig, msg); err == nil {
					c.Failf("bad-jwk-verifies:curve-name-variant", map[string]interface{}{"genuine_jwk": k.JWK(), "crv": cv}, "a genuine %s signature verifies under the key's JWK with the curve named %q", typ, cv)
				}
			}
		}
		c2, _ := commitment.GetCommitment(jwk, 18)
		if *jwk != before || c1 != c2 {
			c.Failf("jwk-changed-by-reading", map[string]interface{}{"jwk_before": before, "jwk_after": *jwk, "commitment_before": c1, "commitment_after": c2},
				"verifying with a %s JWK changed the caller's JWK object (commitment before %s, after %s)", typ, c1, c2)
		}
	}
	// a coordinate one octet short whose text is made 43 characters long again by a line break (base64 decoders skip line breaks; a
	// buffer sized by the text length then ends in a zero octet): wrong width, whatever the last octet of the real coordinate is.
	// Keys whose x ends in a zero octet are searched for, so that the zero-filled value is the real point.
	if c.Idx%3 == 0 {
		for _, typ := range []string{gen.Secp256k1, gen.P256} {
			var k *gen.Key
			for try := 0; try < 4000 && k == nil; try++ {
				cand := gen.NewKey(r, typ)
				if x, _ := cand.XY(); x[len(x)-1] == 0 {
					k = cand
				}
			}
			if k == nil {
				c.Inconclusive("no-key-with-trailing-zero-octet-found")
				continue
			}
			xb, yb := k.XY()
			msg := r.Bytes(20)
			sig := k.Sign(r, msg)
			for _, brk := range []string{"\n", "\r", "\r\n"} {
				short := oracle.B64(xb[:len(xb)-1])
				for _, xt := range []string{short + brk, brk + short, short[:10] + brk + short[10:]} {
					wj := toLibJWK(k.JWK())
					wj.X = xt
					c.Count("short-coordinate-with-line-break", 1)
					c.Evals(2)
					w := map[string]interface{}{"genuine_jwk": k.JWK(), "x_text": xt, "y": oracle.B64(yb)}
					if err := jwsutil.VerifySignature(wj, sig, msg); err == nil {
						c.Failf("bad-jwk-verifies:short-coordinate-with-line-break", w, "a genuine %s signature verifies under a JWK whose x is one octet short and contains a line break", typ)
					}
					text, _ := json.Marshal(map[string]interface{}{"kty": "EC", "crv": typ, "x": xt, "y": oracle.B64(yb)})
					var jk jwsutil.JWK
					if err := jk.UnmarshalJSON(text); err == nil {
						c.Failf("bad-jwk-accepted:short-coordinate-with-line-break", w, "UnmarshalJSON accepted a %s JWK whose x is one octet short and contains a line break", typ)
					}
				}
			}
		}
	}
	for _, typ := range []string{gen.P256, gen.Secp256k1} {
		for i := 0; i < 4; i++ {
			k := gen.NewKey(r, typ)
			msg := r.Bytes(r.Range(1, 64))
			sig := k.Sign(r, msg)
			genuine := toLibJWK(k.JWK())
			c.Count("relabelled-after-use", 1)
			c.Evals(3)
			c.Sig("relabelled", typ)
			if err := jwsutil.VerifySignature(genuine, sig, msg); err != nil {
				c.Failf("genuine-key-refused", map[string]interface{}{"jwk": k.JWK(), "err": err.Error()}, "signature does not verify under its own key: %v", err)
				continue
			}
			renamed := k.JWK()
			renamed["crv"] = map[string]string{gen.P256: gen.Secp256k1, gen.Secp256k1: gen.P256}[typ]
			if onCurve(fmt.Sprint(renamed["crv"]), k.EC.X, k.EC.Y) {
				continue
			}
			w := map[string]interface{}{"genuine_jwk": k.JWK(), "relabelled_jwk": renamed}
			if err := jwsutil.VerifySignature(toLibJWK(renamed), sig, msg); err == nil {
				c.Failf("relabelled-key-accepted", w, "after the genuine %s key verified a signature, the same coordinates labelled %v verify it too", typ, renamed["crv"])
			}
			rb, _ := json.Marshal(renamed)
			var jk jwsutil.JWK
			if err := jk.UnmarshalJSON(rb); err == nil {
				c.Failf("bad-jwk-accepted:curve-relabelled-after-use", w, "UnmarshalJSON accepted %s coordinates labelled %v", typ, renamed["crv"])
			}
			// and the genuine key still works afterwards
			if err := jwsutil.VerifySignature(genuine, sig, msg); err != nil {
				c.Failf("genuine-key-refused", map[string]interface{}{"jwk": k.JWK(), "err": err.Error()}, "genuine key refused after the relabelled one was tried: %v", err)
			}
		}
	}
}

// c16RawMembers: JWK texts in which a member name differing from the real one by letter case only ("X", "Crv", "KTY" ...) carries
// the good value while the real member carries a bad one (or vice versa, or a member appears twice): member names are
// case-sensitive, so what the real members say decides.
func c16RawMembers(c *fw.Case) {
	r := c.Rng
	for _, typ := range []string{gen.Secp256k1, gen.P256, gen.P384, gen.P521} {
		k := gen.NewKey(r, typ)
		x, y := k.XY()
		w := len(x)
		gx, gy := oracle.B64(x), oracle.B64(y)
		badx := append([]byte{}, x...)
		badx[w-1] ^= 1 // off the curve (checked below)
		if onCurve(typ, new(big.Int).SetBytes(badx), k.EC.Y) {
			continue
		}
		bx := oracle.B64(badx)
		shortx := oracle.B64(x[:w-1])
		otherCrv := map[string]string{gen.Secp256k1: gen.P256, gen.P256: gen.Secp256k1, gen.P384: gen.P256, gen.P521: gen.P384}[typ]
		texts := map[string]string{
			"bad-x-then-good-X":            fmt.Sprintf(`{"kty":"EC","crv":%q,"x":%q,"y":%q,"X":%q}`, typ, bx, gy, gx),
			"good-X-then-bad-x":            fmt.Sprintf(`{"kty":"EC","crv":%q,"X":%q,"x":%q,"y":%q}`, typ, gx, bx, gy),
			"short-x-then-good-X":          fmt.Sprintf(`{"kty":"EC","crv":%q,"x":%q,"y":%q,"X":%q}`, typ, shortx, gy, gx),
			"only-upper-case-coordinates":  fmt.Sprintf(`{"kty":"EC","crv":%q,"X":%q,"Y":%q}`, typ, gx, gy),
			"wrong-crv-then-good-Crv":      fmt.Sprintf(`{"kty":"EC","crv":%q,"x":%q,"y":%q,"Crv":%q}`, otherCrv, gx, gy, typ),
			"only-upper-case-crv-and-kty":  fmt.Sprintf(`{"KTY":"EC","CRV":%q,"x":%q,"y":%q}`, typ, gx, gy),
			"bad-kty-then-good-Kty":        fmt.Sprintf(`{"kty":"oct","crv":%q,"x":%q,"y":%q,"Kty":"EC"}`, typ, gx, gy),
			"duplicate-x-bad-then-good":    fmt.Sprintf(`{"kty":"EC","crv":%q,"x":%q,"x":%q,"y":%q}`, typ, bx, gx, gy),
			"duplicate-x-good-then-bad":    fmt.Sprintf(`{"kty":"EC","crv":%q,"x":%q,"x":%q,"y":%q}`, typ, gx, bx, gy),
			"duplicate-crv-wrong-then-own": fmt.Sprintf(`{"kty":"EC","crv":%q,"crv":%q,"x":%q,"y":%q}`, otherCrv, typ, gx, gy),
		}
		for name, text := range texts {
			c.Count("raw-member-name-texts", 1)
			c.Evals(1)
			c.Sig("rawmembers", typ, name)
			var jk jwsutil.JWK
			if err := jk.UnmarshalJSON([]byte(text)); err == nil {
				c.Failf("bad-jwk-accepted:"+name, map[string]interface{}{"jwk_text": text, "curve": typ, "class": name}, "UnmarshalJSON accepted a %s JWK text of class %s", typ, name)
			}
		}
	}
}
