package oracle

import (
	"errors"
	"fmt"
	"strings"
)

// A small RFC 6902 evaluator over a pointer-based tree. In RFC mode `copy`
// deep-copies the value; in alias mode it inserts the very same node, which is
// what evanphx/json-patch v4.1.0 does (used only to fingerprint that known
// third-party behaviour, never as the expected result).

type node struct {
	kind byte // 'o' object, 'a' array, 'v' scalar
	obj  map[string]*node
	arr  []*node
	val  interface{}
}

func toNode(v interface{}) *node {
	switch t := v.(type) {
	case map[string]interface{}:
		n := &node{kind: 'o', obj: make(map[string]*node, len(t))}
		for k, e := range t {
			n.obj[k] = toNode(e)
		}
		return n
	case []interface{}:
		n := &node{kind: 'a', arr: make([]*node, len(t))}
		for i, e := range t {
			n.arr[i] = toNode(e)
		}
		return n
	}
	return &node{kind: 'v', val: v}
}

var errCycle = errors.New("cyclic document (aliasing copy into own subtree)")

func fromNode(n *node, onPath map[*node]bool) (interface{}, error) {
	switch n.kind {
	case 'o':
		if onPath[n] {
			return nil, errCycle
		}
		onPath[n] = true
		defer delete(onPath, n)
		out := make(map[string]interface{}, len(n.obj))
		for k, e := range n.obj {
			v, err := fromNode(e, onPath)
			if err != nil {
				return nil, err
			}
			out[k] = v
		}
		return out, nil
	case 'a':
		if onPath[n] {
			return nil, errCycle
		}
		onPath[n] = true
		defer delete(onPath, n)
		out := make([]interface{}, len(n.arr))
		for i, e := range n.arr {
			v, err := fromNode(e, onPath)
			if err != nil {
				return nil, err
			}
			out[i] = v
		}
		return out, nil
	}
	return n.val, nil
}

func cloneNode(n *node) *node {
	switch n.kind {
	case 'o':
		c := &node{kind: 'o', obj: make(map[string]*node, len(n.obj))}
		for k, e := range n.obj {
			c.obj[k] = cloneNode(e)
		}
		return c
	case 'a':
		c := &node{kind: 'a', arr: make([]*node, len(n.arr))}
		for i, e := range n.arr {
			c.arr[i] = cloneNode(e)
		}
		return c
	}
	return &node{kind: 'v', val: n.val}
}

// ParsePointer parses an RFC 6901 JSON pointer.
func ParsePointer(p string) ([]string, error) {
	if p == "" {
		return nil, nil
	}
	if p[0] != '/' {
		return nil, fmt.Errorf("pointer %q does not start with '/'", p)
	}
	parts := strings.Split(p[1:], "/")
	for i, t := range parts {
		// "~" must be followed by 0 or 1
		for j := 0; j < len(t); j++ {
			if t[j] == '~' && (j+1 >= len(t) || (t[j+1] != '0' && t[j+1] != '1')) {
				return nil, fmt.Errorf("bad escape in pointer %q", p)
			}
		}
		t = strings.ReplaceAll(t, "~1", "/")
		t = strings.ReplaceAll(t, "~0", "~")
		parts[i] = t
	}
	return parts, nil
}

// EscapeToken escapes a member name for use in a pointer.
func EscapeToken(t string) string {
	t = strings.ReplaceAll(t, "~", "~0")
	return strings.ReplaceAll(t, "/", "~1")
}

func arrayIndex(tok string, n int, allowEnd bool) (int, error) {
	if tok == "-" {
		if allowEnd {
			return n, nil
		}
		return 0, errors.New("'-' not allowed here")
	}
	if tok == "" || (len(tok) > 1 && tok[0] == '0') {
		return 0, fmt.Errorf("bad array index %q", tok)
	}
	idx := 0
	for _, c := range tok {
		if c < '0' || c > '9' {
			return 0, fmt.Errorf("bad array index %q", tok)
		}
		idx = idx*10 + int(c-'0')
		if idx > 1<<30 {
			return 0, errors.New("index too large")
		}
	}
	if idx > n || (!allowEnd && idx >= n) {
		return 0, fmt.Errorf("index %d out of range", idx)
	}
	return idx, nil
}

func getNode(root *node, toks []string) (*node, error) {
	cur := root
	for _, t := range toks {
		switch cur.kind {
		case 'o':
			nx, ok := cur.obj[t]
			if !ok {
				return nil, fmt.Errorf("member %q not found", t)
			}
			cur = nx
		case 'a':
			i, err := arrayIndex(t, len(cur.arr), false)
			if err != nil {
				return nil, err
			}
			cur = cur.arr[i]
		default:
			return nil, errors.New("cannot descend into scalar")
		}
	}
	return cur, nil
}

type rfcDoc struct{ root *node }

func (d *rfcDoc) add(toks []string, v *node) error {
	if len(toks) == 0 {
		d.root = v
		return nil
	}
	parent, err := getNode(d.root, toks[:len(toks)-1])
	if err != nil {
		return err
	}
	last := toks[len(toks)-1]
	switch parent.kind {
	case 'o':
		parent.obj[last] = v
	case 'a':
		i, err := arrayIndex(last, len(parent.arr), true)
		if err != nil {
			return err
		}
		parent.arr = append(parent.arr, nil)
		copy(parent.arr[i+1:], parent.arr[i:])
		parent.arr[i] = v
	default:
		return errors.New("cannot add into scalar")
	}
	return nil
}

func (d *rfcDoc) remove(toks []string) (*node, error) {
	if len(toks) == 0 {
		return nil, errors.New("cannot remove the root")
	}
	parent, err := getNode(d.root, toks[:len(toks)-1])
	if err != nil {
		return nil, err
	}
	last := toks[len(toks)-1]
	switch parent.kind {
	case 'o':
		old, ok := parent.obj[last]
		if !ok {
			return nil, fmt.Errorf("member %q not found", last)
		}
		delete(parent.obj, last)
		return old, nil
	case 'a':
		i, err := arrayIndex(last, len(parent.arr), false)
		if err != nil {
			return nil, err
		}
		old := parent.arr[i]
		parent.arr = append(parent.arr[:i:i], parent.arr[i+1:]...)
		return old, nil
	}
	return nil, errors.New("cannot remove from scalar")
}

func isProperPrefix(a, b []string) bool {
	if len(a) >= len(b) {
		return false
	}
	for i := range a {
		if a[i] != b[i] {
			return false
		}
	}
	return true
}

// ApplyRFC6902 applies a generic patch list ([]interface{} of op objects) to doc.
// The input is not modified. aliasCopy selects json-patch v4.1.0's copy semantics.
func ApplyRFC6902(doc interface{}, ops []interface{}, aliasCopy bool) (interface{}, error) {
	d := &rfcDoc{root: toNode(doc)}
	for n, raw := range ops {
		op, ok := raw.(map[string]interface{})
		if !ok {
			return nil, fmt.Errorf("op %d is not an object", n)
		}
		kind, _ := op["op"].(string)
		pathS, ok := op["path"].(string)
		if !ok {
			return nil, fmt.Errorf("op %d: path missing", n)
		}
		path, err := ParsePointer(pathS)
		if err != nil {
			return nil, err
		}
		val, hasVal := op["value"]
		var from []string
		if kind == "move" || kind == "copy" {
			fs, ok := op["from"].(string)
			if !ok {
				return nil, fmt.Errorf("op %d: from missing", n)
			}
			from, err = ParsePointer(fs)
			if err != nil {
				return nil, err
			}
		}
		switch kind {
		case "add":
			if !hasVal {
				return nil, errors.New("add without value")
			}
			if err := d.add(path, toNode(val)); err != nil {
				return nil, err
			}
		case "remove":
			if _, err := d.remove(path); err != nil {
				return nil, err
			}
		case "replace":
			if !hasVal {
				return nil, errors.New("replace without value")
			}
			if len(path) == 0 {
				d.root = toNode(val)
				break
			}
			if _, err := getNode(d.root, path); err != nil {
				return nil, err
			}
			if _, err := d.remove(path); err != nil {
				return nil, err
			}
			if err := d.add(path, toNode(val)); err != nil {
				return nil, err
			}
		case "move":
			if isProperPrefix(from, path) {
				return nil, errors.New("move into own child")
			}
			v, err := d.remove(from)
			if err != nil {
				return nil, err
			}
			if err := d.add(path, v); err != nil {
				return nil, err
			}
		case "copy":
			v, err := getNode(d.root, from)
			if err != nil {
				return nil, err
			}
			if !aliasCopy {
				v = cloneNode(v)
			}
			if err := d.add(path, v); err != nil {
				return nil, err
			}
		case "test":
			if !hasVal {
				return nil, errors.New("test without value")
			}
			v, err := getNode(d.root, path)
			if err != nil {
				return nil, err
			}
			g, err := fromNode(v, map[*node]bool{})
			if err != nil {
				return nil, err
			}
			if !JSONEqual(g, val) {
				return nil, errors.New("test failed")
			}
		default:
			return nil, fmt.Errorf("unknown op %q", kind)
		}
	}
	return fromNode(d.root, map[*node]bool{})
}

// IsCycleErr reports whether err is the alias-mode cycle error.
func IsCycleErr(err error) bool { return errors.Is(err, errCycle) }
