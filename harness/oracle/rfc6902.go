package oracle

import (
	"errors"
	"fmt"
	"strings"
)

// A small RFC 6902 evaluator over a pointer-based tree. In RFC mode `copy`
// deep-copies the value; in alias mode it inserts the very same node, which is
// what evanphx/json-patch v4.1.0 does (used only to fingerprint that known
// third-party behaviour, never as the expected result).

type node struct {
	kind byte // 'o' object, 'a' array, 'v' scalar
	obj  map[string]*node
	arr  []*node
	val  interface{}
	// explicitNull marks a null that entered as an operation's own "value":
	// json-patch holds it as a non-nil node without raw text, whereas a null
	// parsed from the document (or nested in a value) is a nil node pointer.
	explicitNull bool
}

func opValueNode(v interface{}) *node {
	n := toNode(v)
	if v == nil {
		n.explicitNull = true
	}
	return n
}

func toNode(v interface{}) *node {
	switch t := v.(type) {
	case map[string]interface{}:
		n := &node{kind: 'o', obj: make(map[string]*node, len(t))}
		for k, e := range t {
			n.obj[k] = toNode(e)
		}
		return n
	case []interface{}:
		n := &node{kind: 'a', arr: make([]*node, len(t))}
		for i, e := range t {
			n.arr[i] = toNode(e)
		}
		return n
	}
	return &node{kind: 'v', val: v}
}

var errCycle = errors.New("cyclic document (aliasing copy into own subtree)")

func fromNode(n *node, onPath map[*node]bool) (interface{}, error) {
	switch n.kind {
	case 'o':
		if onPath[n] {
			return nil, errCycle
		}
		onPath[n] = true
		defer delete(onPath, n)
		out := make(map[string]interface{}, len(n.obj))
		for k, e := range n.obj {
			v, err := fromNode(e, onPath)
			if err != nil {
				return nil, err
			}
			out[k] = v
		}
		return out, nil
	case 'a':
		if onPath[n] {
			return nil, errCycle
		}
		onPath[n] = true
		defer delete(onPath, n)
		out := make([]interface{}, len(n.arr))
		for i, e := range n.arr {
			v, err := fromNode(e, onPath)
			if err != nil {
				return nil, err
			}
			out[i] = v
		}
		return out, nil
	}
	return n.val, nil
}

func cloneNode(n *node) *node {
	switch n.kind {
	case 'o':
		c := &node{kind: 'o', obj: make(map[string]*node, len(n.obj))}
		for k, e := range n.obj {
			c.obj[k] = cloneNode(e)
		}
		return c
	case 'a':
		c := &node{kind: 'a', arr: make([]*node, len(n.arr))}
		for i, e := range n.arr {
			c.arr[i] = cloneNode(e)
		}
		return c
	}
	return &node{kind: 'v', val: n.val, explicitNull: n.explicitNull}
}

// ParsePointer parses an RFC 6901 JSON pointer.
func ParsePointer(p string) ([]string, error) {
	if p == "" {
		return nil, nil
	}
	if p[0] != '/' {
		return nil, fmt.Errorf("pointer %q does not start with '/'", p)
	}
	parts := strings.Split(p[1:], "/")
	for i, t := range parts {
		// "~" must be followed by 0 or 1
		for j := 0; j < len(t); j++ {
			if t[j] == '~' && (j+1 >= len(t) || (t[j+1] != '0' && t[j+1] != '1')) {
				return nil, fmt.Errorf("bad escape in pointer %q", p)
			}
		}
		t = strings.ReplaceAll(t, "~1", "/")
		t = strings.ReplaceAll(t, "~0", "~")
		parts[i] = t
	}
	return parts, nil
}

// parsePointerLenient follows json-patch v4.1.0: everything before the first
// '/' is ignored, a pointer without '/' addresses nothing, bad escapes are kept.
func parsePointerLenient(p string) ([]string, error) {
	i := strings.Index(p, "/")
	if i < 0 {
		return nil, fmt.Errorf("pointer %q addresses nothing", p)
	}
	parts := strings.Split(p[i+1:], "/")
	for j, t := range parts {
		t = strings.ReplaceAll(t, "~1", "/")
		parts[j] = strings.ReplaceAll(t, "~0", "~")
	}
	return parts, nil
}

// EscapeToken escapes a member name for use in a pointer.
func EscapeToken(t string) string {
	t = strings.ReplaceAll(t, "~", "~0")
	return strings.ReplaceAll(t, "/", "~1")
}

func arrayIndex(tok string, n int, allowEnd bool) (int, error) {
	if tok == "-" {
		if allowEnd {
			return n, nil
		}
		return 0, errors.New("'-' not allowed here")
	}
	if tok == "" || (len(tok) > 1 && tok[0] == '0') {
		return 0, fmt.Errorf("bad array index %q", tok)
	}
	idx := 0
	for _, c := range tok {
		if c < '0' || c > '9' {
			return 0, fmt.Errorf("bad array index %q", tok)
		}
		idx = idx*10 + int(c-'0')
		if idx > 1<<30 {
			return 0, errors.New("index too large")
		}
	}
	if idx > n || (!allowEnd && idx >= n) {
		return 0, fmt.Errorf("index %d out of range", idx)
	}
	return idx, nil
}

func getNode(root *node, toks []string) (*node, error) {
	cur := root
	for _, t := range toks {
		switch cur.kind {
		case 'o':
			nx, ok := cur.obj[t]
			if !ok {
				return nil, fmt.Errorf("member %q not found", t)
			}
			cur = nx
		case 'a':
			i, err := arrayIndex(t, len(cur.arr), false)
			if err != nil {
				return nil, err
			}
			cur = cur.arr[i]
		default:
			return nil, errors.New("cannot descend into scalar")
		}
	}
	return cur, nil
}

type rfcDoc struct{ root *node }

// getLenient emulates json-patch's member lookup: a missing member of an
// existing object reads as null instead of failing.
func getLenient(root *node, toks []string) (*node, error) {
	if len(toks) == 0 {
		return nil, errors.New("missing path")
	}
	parent, err := getNode(root, toks[:len(toks)-1])
	if err != nil {
		return nil, err
	}
	if parent.kind == 'o' {
		if n, ok := parent.obj[toks[len(toks)-1]]; ok {
			return n, nil
		}
		return &node{kind: 'v', val: nil}, nil
	}
	return getNode(root, toks)
}

func (d *rfcDoc) add(toks []string, v *node) error {
	if len(toks) == 0 {
		d.root = v
		return nil
	}
	parent, err := getNode(d.root, toks[:len(toks)-1])
	if err != nil {
		return err
	}
	last := toks[len(toks)-1]
	switch parent.kind {
	case 'o':
		parent.obj[last] = v
	case 'a':
		i, err := arrayIndex(last, len(parent.arr), true)
		if err != nil {
			return err
		}
		parent.arr = append(parent.arr, nil)
		copy(parent.arr[i+1:], parent.arr[i:])
		parent.arr[i] = v
	default:
		return errors.New("cannot add into scalar")
	}
	return nil
}

func (d *rfcDoc) remove(toks []string) (*node, error) {
	if len(toks) == 0 {
		return nil, errors.New("cannot remove the root")
	}
	parent, err := getNode(d.root, toks[:len(toks)-1])
	if err != nil {
		return nil, err
	}
	last := toks[len(toks)-1]
	switch parent.kind {
	case 'o':
		old, ok := parent.obj[last]
		if !ok {
			return nil, fmt.Errorf("member %q not found", last)
		}
		delete(parent.obj, last)
		return old, nil
	case 'a':
		i, err := arrayIndex(last, len(parent.arr), false)
		if err != nil {
			return nil, err
		}
		old := parent.arr[i]
		parent.arr = append(parent.arr[:i:i], parent.arr[i+1:]...)
		return old, nil
	}
	return nil, errors.New("cannot remove from scalar")
}

func isProperPrefix(a, b []string) bool {
	if len(a) >= len(b) {
		return false
	}
	for i := range a {
		if a[i] != b[i] {
			return false
		}
	}
	return true
}

// Quirks selects emulation of three evanphx/json-patch v4.1.0 deviations from
// RFC 6902 that are reachable with RFC-valid patches. They are used only to
// fingerprint known third-party behaviour, never as the expected result.
type Quirks struct {
	AliasCopy   bool // copy inserts the very same node (no deep copy)
	MoveCopySet bool // move/copy "set" the destination: an array index is overwritten (or the array extended with nulls) instead of inserted
	NullTest    bool // test compares containers with a nil-unsafe routine: a null inside an array (or on one side of an object member) makes it fail
	Lenient     bool // nothing but the lenient lookups every quirk mode already has: a missing object member reads as null, so replace / test / move / copy of a member that does not exist are not refused
}

// Name lists the enabled quirks.
func (q Quirks) Name() string {
	var n []string
	if q.AliasCopy {
		n = append(n, "copy-alias")
	}
	if q.MoveCopySet {
		n = append(n, "move-copy-set")
	}
	if q.NullTest {
		n = append(n, "null-in-test")
	}
	if q.Lenient {
		n = append(n, "lenient-lookup")
	}
	return strings.Join(n, "+")
}

// AllQuirkSubsets lists the non-empty subsets ordered by size.
func AllQuirkSubsets() []Quirks {
	return []Quirks{{Lenient: true}, {AliasCopy: true}, {MoveCopySet: true}, {NullTest: true},
		{AliasCopy: true, MoveCopySet: true}, {AliasCopy: true, NullTest: true}, {MoveCopySet: true, NullTest: true},
		{AliasCopy: true, MoveCopySet: true, NullTest: true}}
}

// set emulates json-patch's container.set for move/copy destinations.
func (d *rfcDoc) set(toks []string, v *node) error {
	if len(toks) == 0 {
		return errors.New("missing destination")
	}
	parent, err := getNode(d.root, toks[:len(toks)-1])
	if err != nil {
		return err
	}
	last := toks[len(toks)-1]
	switch parent.kind {
	case 'o':
		parent.obj[last] = v
	case 'a':
		if last == "-" {
			parent.arr = append(parent.arr, v)
			return nil
		}
		i, err := arrayIndex(last, 1<<20, true)
		if err != nil {
			return err
		}
		for len(parent.arr) <= i {
			parent.arr = append(parent.arr, &node{kind: 'v', val: nil})
		}
		parent.arr[i] = v
	default:
		return errors.New("cannot set into scalar")
	}
	return nil
}

var errEmuPanic = errors.New("emulated nil dereference in json-patch equal()")

func isNullNode(n *node) bool { return n == nil || (n.kind == 'v' && n.val == nil) }

// emuEqual follows lazyNode.equal of json-patch v4.1.0; n is the document
// node, o the operation's value. A JSON null is a nil *lazyNode there.
func emuEqual(n *node, o interface{}) (bool, error) {
	if isNullNode(n) {
		if n != nil && n.explicitNull && o != nil {
			return false, nil
		}
		return false, errEmuPanic
	}
	switch n.kind {
	case 'v':
		if o == nil {
			return false, errEmuPanic
		}
		switch o.(type) {
		case map[string]interface{}, []interface{}:
			return false, nil
		}
		return JSONEqual(n.val, o), nil
	case 'o':
		if o == nil {
			return false, errEmuPanic
		}
		om, ok := o.(map[string]interface{})
		if !ok {
			return false, nil
		}
		keys := make([]string, 0, len(n.obj))
		for k := range n.obj {
			keys = append(keys, k)
		}
		SortUTF16(keys)
		// Go map iteration order is random in the library; a panic or a
		// "false" may win. Report panic if any member would panic and no
		// earlier deterministic answer exists: treat both as failure.
		res := true
		for _, k := range keys {
			v := n.obj[k]
			ov, ok := om[k]
			if !ok {
				return false, nil
			}
			if isNullNode(v) && !v.explicitNull && ov == nil {
				continue
			}
			eq, err := emuEqual(v, ov)
			if err != nil {
				return false, err
			}
			if !eq {
				res = false
			}
		}
		return res, nil
	case 'a':
		if o == nil {
			return false, errEmuPanic
		}
		oa, ok := o.([]interface{})
		if !ok || len(oa) != len(n.arr) {
			return false, nil
		}
		for i, e := range n.arr {
			eq, err := emuEqual(e, oa[i])
			if err != nil {
				return false, err
			}
			if !eq {
				return false, nil
			}
		}
		return true, nil
	}
	return false, nil
}

// ApplyRFC6902 applies a generic patch list ([]interface{} of op objects) to doc.
// The input is not modified. The zero Quirks value is plain RFC 6902.
func ApplyRFC6902(doc interface{}, ops []interface{}, q Quirks) (interface{}, error) {
	aliasCopy := q.AliasCopy
	lenient := q != (Quirks{})
	d := &rfcDoc{root: toNode(doc)}
	for n, raw := range ops {
		op, ok := raw.(map[string]interface{})
		if !ok {
			return nil, fmt.Errorf("op %d is not an object", n)
		}
		kind, _ := op["op"].(string)
		pathS, ok := op["path"].(string)
		if !ok {
			return nil, fmt.Errorf("op %d: path missing", n)
		}
		parse := ParsePointer
		if q != (Quirks{}) {
			parse = parsePointerLenient
		}
		path, err := parse(pathS)
		if err != nil {
			return nil, err
		}
		val, hasVal := op["value"]
		var from []string
		if kind == "move" || kind == "copy" {
			fs, ok := op["from"].(string)
			if !ok {
				return nil, fmt.Errorf("op %d: from missing", n)
			}
			from, err = parse(fs)
			if err != nil {
				return nil, err
			}
		}
		switch kind {
		case "add":
			if !hasVal {
				return nil, errors.New("add without value")
			}
			if err := d.add(path, opValueNode(val)); err != nil {
				return nil, err
			}
		case "remove":
			if _, err := d.remove(path); err != nil {
				return nil, err
			}
		case "replace":
			if !hasVal {
				return nil, errors.New("replace without value")
			}
			if len(path) == 0 {
				d.root = toNode(val)
				break
			}
			if lenient {
				if _, err := getLenient(d.root, path); err != nil {
					return nil, err
				}
				if err := d.set(path, opValueNode(val)); err != nil {
					return nil, err
				}
				break
			}
			if _, err := getNode(d.root, path); err != nil {
				return nil, err
			}
			if _, err := d.remove(path); err != nil {
				return nil, err
			}
			if err := d.add(path, opValueNode(val)); err != nil {
				return nil, err
			}
		case "move":
			if isProperPrefix(from, path) {
				return nil, errors.New("move into own child")
			}
			v, err := d.remove(from)
			if err != nil {
				return nil, err
			}
			if q.MoveCopySet {
				err = d.set(path, v)
			} else {
				err = d.add(path, v)
			}
			if err != nil {
				return nil, err
			}
		case "copy":
			v, err := getNode(d.root, from)
			if lenient {
				v, err = getLenient(d.root, from)
			}
			if err != nil {
				return nil, err
			}
			if !aliasCopy {
				v = cloneNode(v)
			}
			if q.MoveCopySet {
				err = d.set(path, v)
			} else {
				err = d.add(path, v)
			}
			if err != nil {
				return nil, err
			}
		case "test":
			if !hasVal {
				return nil, errors.New("test without value")
			}
			v, err := getNode(d.root, path)
			if lenient {
				v, err = getLenient(d.root, path)
			}
			if err != nil {
				return nil, err
			}
			if q.NullTest {
				if isNullNode(v) {
					// document null: equal iff the value is null; explicit null node: compared as text with the value
					if val == nil {
						break
					}
					return nil, errors.New("test failed")
				}
				eq, err := emuEqual(v, val)
				if err != nil {
					return nil, err
				}
				if !eq {
					return nil, errors.New("test failed")
				}
				break
			}
			g, err := fromNode(v, map[*node]bool{})
			if err != nil {
				return nil, err
			}
			if !JSONEqual(g, val) {
				return nil, errors.New("test failed")
			}
		default:
			return nil, fmt.Errorf("unknown op %q", kind)
		}
	}
	return fromNode(d.root, map[*node]bool{})
}

// IsCycleErr reports whether err is the alias-mode cycle error.
func IsCycleErr(err error) bool { return errors.Is(err, errCycle) }
