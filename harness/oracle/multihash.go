package oracle

import (
	"crypto/sha256"
	"crypto/sha512"
	"errors"
	"strings"
)

const b64Alphabet = "ABCDEFGHIJKLMNOPQRSTUVWXYZabcdefghijklmnopqrstuvwxyz0123456789-_"

// B64 encodes bytes as unpadded base64url (own implementation).
func B64(data []byte) string {
	var sb strings.Builder
	for i := 0; i < len(data); i += 3 {
		var b [3]byte
		n := copy(b[:], data[i:])
		v := uint(b[0])<<16 | uint(b[1])<<8 | uint(b[2])
		sb.WriteByte(b64Alphabet[v>>18&63])
		sb.WriteByte(b64Alphabet[v>>12&63])
		if n > 1 {
			sb.WriteByte(b64Alphabet[v>>6&63])
		}
		if n > 2 {
			sb.WriteByte(b64Alphabet[v&63])
		}
	}
	return sb.String()
}

// B64DecodeStrict decodes unpadded base64url; it rejects any character
// outside the alphabet (including '=', CR, LF), impossible lengths and
// non-zero trailing bits. canonical reports whether re-encoding gives s back.
func B64DecodeStrict(s string) ([]byte, error) {
	if len(s)%4 == 1 {
		return nil, errors.New("impossible base64 length")
	}
	out := make([]byte, 0, len(s)*3/4)
	var acc uint
	bits := 0
	for i := 0; i < len(s); i++ {
		idx := strings.IndexByte(b64Alphabet, s[i])
		if idx < 0 {
			return nil, errors.New("character outside base64url alphabet")
		}
		acc = acc<<6 | uint(idx)
		bits += 6
		if bits >= 8 {
			bits -= 8
			out = append(out, byte(acc>>uint(bits)))
			acc &= (1 << uint(bits)) - 1
		}
	}
	if acc != 0 {
		return nil, errors.New("non-zero trailing bits")
	}
	return out, nil
}

// Varint encodes an unsigned LEB128 varint.
func Varint(x uint64) []byte {
	var out []byte
	for x >= 0x80 {
		out = append(out, byte(x)|0x80)
		x >>= 7
	}
	return append(out, byte(x))
}

func readVarint(b []byte) (uint64, int, error) {
	var x uint64
	var s uint
	for i, c := range b {
		if i >= 9 {
			return 0, 0, errors.New("varint too long")
		}
		if c < 0x80 {
			if c == 0 && s > 0 {
				return 0, 0, errors.New("varint not minimal")
			}
			return x | uint64(c)<<s, i + 1, nil
		}
		x |= uint64(c&0x7f) << s
		s += 7
	}
	return 0, 0, errors.New("varint truncated")
}

// Digest computes the raw digest for a supported multihash code (18 = SHA-256, 19 = SHA-512).
func Digest(code uint64, data []byte) ([]byte, error) {
	switch code {
	case 18:
		h := sha256.Sum256(data)
		return h[:], nil
	case 19:
		h := sha512.Sum512(data)
		return h[:], nil
	}
	return nil, errors.New("unsupported multihash code")
}

// Multihash = varint(code) || varint(len) || digest(data).
func Multihash(code uint64, data []byte) ([]byte, error) {
	d, err := Digest(code, data)
	if err != nil {
		return nil, err
	}
	return WrapDigest(code, d), nil
}

func WrapDigest(code uint64, d []byte) []byte {
	out := append(Varint(code), Varint(uint64(len(d)))...)
	return append(out, d...)
}

// EncodedMultihash = b64url(multihash(code, data)).
func EncodedMultihash(code uint64, data []byte) (string, error) {
	m, err := Multihash(code, data)
	if err != nil {
		return "", err
	}
	return B64(m), nil
}

// ModelHash = b64url(multihash(code, JCS(value))).
func ModelHash(code uint64, value interface{}) (string, error) {
	c, err := JCSValue(value)
	if err != nil {
		return "", err
	}
	return EncodedMultihash(code, c)
}

func MustModelHash(code uint64, value interface{}) string {
	s, err := ModelHash(code, value)
	if err != nil {
		panic("oracle.MustModelHash: " + err.Error())
	}
	return s
}

// DecodedMH is a structurally decoded multihash.
type DecodedMH struct {
	Code   uint64
	Digest []byte
}

// DecodeMultihashBytes checks the structure varint code, varint length, digest of exactly that length.
func DecodeMultihashBytes(b []byte) (*DecodedMH, error) {
	if len(b) < 2 {
		return nil, errors.New("too short")
	}
	code, n, err := readVarint(b)
	if err != nil {
		return nil, err
	}
	b = b[n:]
	l, n, err := readVarint(b)
	if err != nil {
		return nil, err
	}
	b = b[n:]
	if uint64(len(b)) != l {
		return nil, errors.New("length field does not match digest length")
	}
	return &DecodedMH{Code: code, Digest: b}, nil
}

// DecodeEncodedMultihash decodes a strict base64url multihash string.
func DecodeEncodedMultihash(s string) (*DecodedMH, error) {
	b, err := B64DecodeStrict(s)
	if err != nil {
		return nil, err
	}
	return DecodeMultihashBytes(b)
}

// RevealValue = b64(mh(code, H(JCS(jwk)))).
func RevealValue(code uint64, jwk map[string]interface{}) (string, error) {
	return ModelHash(code, jwk)
}

// Commitment = b64(mh(code, H(H(JCS(jwk))))).
func Commitment(code uint64, jwk map[string]interface{}) (string, error) {
	c, err := JCSValue(jwk)
	if err != nil {
		return "", err
	}
	d, err := Digest(code, c)
	if err != nil {
		return "", err
	}
	return EncodedMultihash(code, d)
}

// CommitmentFromReveal re-hashes the digest inside a reveal value with its own algorithm.
func CommitmentFromReveal(rv string) (string, error) {
	m, err := DecodeEncodedMultihash(rv)
	if err != nil {
		return "", err
	}
	return EncodedMultihash(m.Code, m.Digest)
}

// B64Std is standard padded base64 (how encoding/json writes []byte), own implementation.
func B64Std(data []byte) string {
	const alpha = "ABCDEFGHIJKLMNOPQRSTUVWXYZabcdefghijklmnopqrstuvwxyz0123456789+/"
	var sb strings.Builder
	for i := 0; i < len(data); i += 3 {
		var b [3]byte
		n := copy(b[:], data[i:])
		v := uint(b[0])<<16 | uint(b[1])<<8 | uint(b[2])
		sb.WriteByte(alpha[v>>18&63])
		sb.WriteByte(alpha[v>>12&63])
		if n > 1 {
			sb.WriteByte(alpha[v>>6&63])
		} else {
			sb.WriteByte('=')
		}
		if n > 2 {
			sb.WriteByte(alpha[v&63])
		} else {
			sb.WriteByte('=')
		}
	}
	return sb.String()
}
