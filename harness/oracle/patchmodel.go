package oracle

import (
	"errors"
	"fmt"
)

// The Sidetree patch-composition model, written from the property statement:
//   add-public-keys / add-services : insert or replace by id, keep order, append new
//   remove-public-keys / -services : delete by id, unknown ids ignored
//   add/remove-also-known-as       : ordered set union / difference
//   replace                        : exactly the given keys and services, nothing else
//   ietf-json-patch                : RFC 6902 on the document
// Documents and patches are generic JSON values.

const (
	KeyProp = "publicKey"
	SvcProp = "service"
	AkaProp = "alsoKnownAs"
)

var patchValueKey = map[string]string{
	"add-public-keys":      "publicKeys",
	"remove-public-keys":   "ids",
	"add-services":         "services",
	"remove-services":      "ids",
	"ietf-json-patch":      "patches",
	"replace":              "document",
	"add-also-known-as":    "uris",
	"remove-also-known-as": "uris",
}

// PatchValueKey returns the value member name of an action ("" if unknown).
func PatchValueKey(action string) string { return patchValueKey[action] }

func objList(v interface{}) []interface{} {
	l, _ := v.([]interface{})
	var out []interface{}
	for _, e := range l {
		if _, ok := e.(map[string]interface{}); ok {
			out = append(out, e)
		}
	}
	return out
}

func strList(v interface{}) []string {
	l, _ := v.([]interface{})
	var out []string
	for _, e := range l {
		if s, ok := e.(string); ok {
			out = append(out, s)
		}
	}
	return out
}

func idOf(v interface{}) string {
	m, _ := v.(map[string]interface{})
	s, _ := m["id"].(string)
	return s
}

func addByID(existing, add []interface{}) []interface{} {
	out := append([]interface{}{}, existing...)
	present := map[string]bool{}
	for _, e := range existing {
		present[idOf(e)] = true
	}
	for _, a := range add {
		id := idOf(a)
		if present[id] {
			for i := range out {
				if idOf(out[i]) == id {
					out[i] = a
				}
			}
		} else {
			out = append(out, a)
		}
	}
	return out
}

func removeByID(existing []interface{}, ids []string) []interface{} {
	rm := map[string]bool{}
	for _, id := range ids {
		rm[id] = true
	}
	out := []interface{}{}
	for _, e := range existing {
		if !rm[idOf(e)] {
			out = append(out, e)
		}
	}
	return out
}

// ErrPatchFailed marks a patch whose application fails (document unchanged, error expected).
var ErrPatchFailed = errors.New("patch does not apply")

// ApplyPatchModel applies one patch to doc and returns the new document. doc is not modified.
func ApplyPatchModel(doc map[string]interface{}, p map[string]interface{}, q Quirks) (map[string]interface{}, error) {
	action, _ := p["action"].(string)
	vk, ok := patchValueKey[action]
	if !ok {
		return nil, fmt.Errorf("%w: unknown action %q", ErrPatchFailed, action)
	}
	val, ok := p[vk]
	if !ok {
		return nil, fmt.Errorf("%w: missing %s", ErrPatchFailed, vk)
	}
	out := DeepCopy(doc).(map[string]interface{})
	val = DeepCopy(val)
	switch action {
	case "add-public-keys":
		out[KeyProp] = addByID(objList(out[KeyProp]), objList(val))
	case "remove-public-keys":
		out[KeyProp] = removeByID(objList(out[KeyProp]), strList(val))
	case "add-services":
		out[SvcProp] = addByID(objList(out[SvcProp]), objList(val))
	case "remove-services":
		out[SvcProp] = removeByID(objList(out[SvcProp]), strList(val))
	case "add-also-known-as":
		cur := strList(out[AkaProp])
		have := map[string]bool{}
		for _, u := range cur {
			have[u] = true
		}
		res := []interface{}{}
		for _, u := range cur {
			res = append(res, u)
		}
		for _, u := range strList(val) {
			if !have[u] {
				res = append(res, u)
			}
		}
		out[AkaProp] = res
	case "remove-also-known-as":
		rm := map[string]bool{}
		for _, u := range strList(val) {
			rm[u] = true
		}
		res := []interface{}{}
		for _, u := range strList(out[AkaProp]) {
			if !rm[u] {
				res = append(res, u)
			}
		}
		out[AkaProp] = res
	case "replace":
		rd, ok := val.(map[string]interface{})
		if !ok {
			return nil, fmt.Errorf("%w: replace document is not an object", ErrPatchFailed)
		}
		out = map[string]interface{}{}
		if k, ok := rd["publicKeys"]; ok {
			out[KeyProp] = k
		}
		if s, ok := rd["services"]; ok {
			out[SvcProp] = s
		}
	case "ietf-json-patch":
		ops, ok := val.([]interface{})
		if !ok {
			return nil, fmt.Errorf("%w: patches is not a list", ErrPatchFailed)
		}
		res, err := ApplyRFC6902(out, ops, q)
		if err != nil {
			if IsCycleErr(err) {
				return nil, err
			}
			return nil, fmt.Errorf("%w: %v", ErrPatchFailed, err)
		}
		m, ok := res.(map[string]interface{})
		if !ok {
			return nil, fmt.Errorf("%w: result is not an object", ErrPatchFailed)
		}
		out = m
	}
	return out, nil
}

// ApplyPatchesModel is the left fold of ApplyPatchModel. On failure it returns (nil, err).
func ApplyPatchesModel(doc map[string]interface{}, patches []interface{}, q Quirks) (map[string]interface{}, error) {
	cur := DeepCopy(doc).(map[string]interface{})
	for i, raw := range patches {
		p, ok := raw.(map[string]interface{})
		if !ok {
			return nil, fmt.Errorf("%w: patch %d is not an object", ErrPatchFailed, i)
		}
		nx, err := ApplyPatchModel(cur, p, q)
		if err != nil {
			return nil, fmt.Errorf("patch %d: %w", i, err)
		}
		cur = nx
	}
	return cur, nil
}

// NormalizeDoc maps the three list members' empty spellings (absent, null, [])
// to "absent" so documents can be compared by JSONEqual.
func NormalizeDoc(doc map[string]interface{}) map[string]interface{} {
	if doc == nil {
		return nil
	}
	out := make(map[string]interface{}, len(doc))
	for k, v := range doc {
		if k == KeyProp || k == SvcProp || k == AkaProp {
			if v == nil {
				continue
			}
			if l, ok := v.([]interface{}); ok && len(l) == 0 {
				continue
			}
		}
		out[k] = v
	}
	return out
}

// DocEqual compares two documents modulo NormalizeDoc.
func DocEqual(a, b map[string]interface{}) bool {
	return JSONEqual(NormalizeDoc(a), NormalizeDoc(b))
}

// UniqueIDs reports whether the key and the service ids of doc are unique.
func UniqueIDs(doc map[string]interface{}) bool {
	for _, prop := range []string{KeyProp, SvcProp} {
		seen := map[string]bool{}
		for _, e := range objList(doc[prop]) {
			id := idOf(e)
			if seen[id] {
				return false
			}
			seen[id] = true
		}
	}
	return true
}
