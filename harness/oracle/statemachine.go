package oracle

// The Sidetree v1 operation state machine, written from the property text
// (C01). It folds ground-truth facts about each operation - known by the
// generator by construction, never obtained by re-parsing - into the expected
// resolution state.

// State is the expected resolution state. Exists=false is the empty state.
type State struct {
	Exists               bool
	Doc                  map[string]interface{}
	CreatedTime          uint64
	UpdatedTime          uint64
	LastTime             uint64
	LastNumber           uint64
	LastProto            uint64
	UpdateCommitment     string
	RecoveryCommitment   string
	Deactivated          bool
	AnchorOrigin         interface{}
	EquivalentReferences []string
	CanonicalReference   string
	VersionID            string
}

// Anchor is the anchoring metadata of one operation.
type Anchor struct {
	Time, Number, Proto  uint64
	CanonicalReference   string
	EquivalentReferences []string
}

// OpFacts are the ground-truth labels of one generated operation.
type OpFacts struct {
	Type string // create | update | recover | deactivate | anything else (unsupported)

	ParseOK     bool // well-formed for batch-mode parsing: structure, hash algorithms/lengths, protected headers, key rules, reveal matches key, (recover) next recovery commitment is not the signing key's, (deactivate) signed suffix equals request suffix
	SigOK       bool // signature verifies under the key inside the signed data
	DeltaBound  bool // delta hashes to the (signed / suffix-data) delta hash
	DeltaValid  bool // delta present, non-empty, enabled + valid patches, update commitment ok, size ok
	InWindow    bool // anchoring time inside [from, until']
	SuffixMatch bool // deactivate: signed suffix equals the operation's suffix

	Patches            []interface{}
	UpdateCommitment   string
	RecoveryCommitment string
	AnchorOrigin       interface{}
}

// ValidFacts returns facts with every condition satisfied.
func ValidFacts(typ string) OpFacts {
	return OpFacts{Type: typ, ParseOK: true, SigOK: true, DeltaBound: true, DeltaValid: true, InWindow: true, SuffixMatch: true}
}

// Window is the anchoring-window predicate of C09: effective iff from <= t <= until',
// until' = until, or from + delta when until is absent; no bounds = always.
func Window(from, until int64, t uint64, delta uint64) bool {
	if from == 0 && until == 0 {
		return true
	}
	u := until
	if from != 0 && until == 0 {
		u = from + int64(delta)
	}
	return from <= int64(t) && int64(t) <= u
}

// EffectiveUntil is the (from, until') pair handed to a time validator.
func EffectiveUntil(from, until int64, delta uint64) int64 {
	if from != 0 && until == 0 {
		return from + int64(delta)
	}
	return until
}

func emptyDoc() map[string]interface{} { return map[string]interface{}{} }

// Step folds one operation. accepted=false means "refused: previous state stays in force".
// outcome names the branch taken (for signatures / diagnostics).
func Step(prev *State, f OpFacts, a Anchor) (next *State, accepted bool, outcome string) {
	switch f.Type {
	case "create":
		if prev.Exists {
			return prev, false, "refused:create-on-existing"
		}
		if !f.ParseOK {
			return prev, false, "refused:parse"
		}
		n := &State{Exists: true, Doc: emptyDoc(), CreatedTime: a.Time, LastTime: a.Time, LastNumber: a.Number, LastProto: a.Proto,
			VersionID: a.CanonicalReference, CanonicalReference: a.CanonicalReference, EquivalentReferences: a.EquivalentReferences,
			RecoveryCommitment: f.RecoveryCommitment, AnchorOrigin: f.AnchorOrigin}
		if !f.DeltaBound {
			return n, true, "degraded:delta-not-bound"
		}
		if !f.DeltaValid {
			return n, true, "degraded:delta-invalid"
		}
		n.UpdateCommitment = f.UpdateCommitment
		doc, err := ApplyPatchesModel(emptyDoc(), f.Patches, Quirks{})
		if err != nil {
			return n, true, "degraded:patches-inapplicable"
		}
		n.Doc = doc
		return n, true, "applied"
	case "update":
		if !prev.Exists {
			return prev, false, "refused:update-on-empty"
		}
		if !f.ParseOK {
			return prev, false, "refused:parse"
		}
		if !f.DeltaBound {
			return prev, false, "refused:delta-not-bound"
		}
		if !f.SigOK {
			return prev, false, "refused:signature"
		}
		if !f.DeltaValid {
			return prev, false, "refused:delta-invalid"
		}
		n := &State{Exists: true, Doc: prev.Doc, CreatedTime: prev.CreatedTime, UpdatedTime: a.Time, LastTime: a.Time, LastNumber: a.Number, LastProto: a.Proto,
			VersionID: a.CanonicalReference, CanonicalReference: prev.CanonicalReference, EquivalentReferences: prev.EquivalentReferences,
			UpdateCommitment: f.UpdateCommitment, RecoveryCommitment: prev.RecoveryCommitment, AnchorOrigin: prev.AnchorOrigin}
		if !f.InWindow {
			return n, true, "degraded:out-of-window"
		}
		doc, err := ApplyPatchesModel(prev.Doc, f.Patches, Quirks{})
		if err != nil {
			return n, true, "degraded:patches-inapplicable"
		}
		n.Doc = doc
		return n, true, "applied"
	case "recover":
		if !prev.Exists {
			return prev, false, "refused:recover-on-empty"
		}
		if !f.ParseOK {
			return prev, false, "refused:parse"
		}
		if !f.SigOK {
			return prev, false, "refused:signature"
		}
		n := &State{Exists: true, Doc: emptyDoc(), CreatedTime: prev.CreatedTime, UpdatedTime: a.Time, LastTime: a.Time, LastNumber: a.Number, LastProto: a.Proto,
			VersionID: a.CanonicalReference, CanonicalReference: a.CanonicalReference, EquivalentReferences: a.EquivalentReferences,
			RecoveryCommitment: f.RecoveryCommitment, AnchorOrigin: f.AnchorOrigin}
		if !f.DeltaBound {
			return n, true, "degraded:delta-not-bound"
		}
		if !f.DeltaValid {
			return n, true, "degraded:delta-invalid"
		}
		n.UpdateCommitment = f.UpdateCommitment
		if !f.InWindow {
			return n, true, "degraded:out-of-window"
		}
		doc, err := ApplyPatchesModel(emptyDoc(), f.Patches, Quirks{})
		if err != nil {
			return n, true, "degraded:patches-inapplicable"
		}
		n.Doc = doc
		return n, true, "applied"
	case "deactivate":
		if !prev.Exists {
			return prev, false, "refused:deactivate-on-empty"
		}
		if !f.ParseOK || !f.SuffixMatch {
			return prev, false, "refused:parse"
		}
		if !f.SigOK {
			return prev, false, "refused:signature"
		}
		if !f.InWindow {
			return prev, false, "refused:out-of-window"
		}
		n := &State{Exists: true, Doc: emptyDoc(), CreatedTime: prev.CreatedTime, UpdatedTime: a.Time, LastTime: a.Time, LastNumber: a.Number, LastProto: a.Proto,
			VersionID: a.CanonicalReference, CanonicalReference: prev.CanonicalReference, EquivalentReferences: prev.EquivalentReferences,
			Deactivated: true, AnchorOrigin: prev.AnchorOrigin}
		return n, true, "applied"
	}
	return prev, false, "refused:unknown-type"
}
