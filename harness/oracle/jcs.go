// Package oracle holds the independent reference implementations the monitors
// compare the code under test against. Nothing here imports sidetree-go.
package oracle

import (
	"bytes"
	"encoding/json"
	"errors"
	"fmt"
	"math"
	"math/big"
	"sort"
	"strconv"
	"strings"
	"unicode/utf16"
)

// ParseJSON decodes JSON text into generic values keeping numbers as json.Number.
func ParseJSON(data []byte) (interface{}, error) {
	dec := json.NewDecoder(bytes.NewReader(data))
	dec.UseNumber()
	var v interface{}
	if err := dec.Decode(&v); err != nil {
		return nil, err
	}
	if dec.More() {
		return nil, errors.New("trailing data")
	}
	// reject trailing non-space
	rest, _ := readAll(dec)
	if len(bytes.TrimSpace(rest)) != 0 {
		return nil, errors.New("trailing data")
	}
	return v, nil
}

func readAll(dec *json.Decoder) ([]byte, error) {
	var buf bytes.Buffer
	_, err := buf.ReadFrom(dec.Buffered())
	return buf.Bytes(), err
}

// JCS returns the RFC 8785 canonical form of a JSON text (object or array at the top).
func JCS(data []byte) ([]byte, error) {
	v, err := ParseJSON(data)
	if err != nil {
		return nil, err
	}
	return JCSValue(v)
}

// JCSValue serializes a generic value (map[string]interface{}, []interface{},
// string, json.Number / float64 / ints, bool, nil) canonically.
func JCSValue(v interface{}) ([]byte, error) {
	var sb strings.Builder
	if err := jcsWrite(&sb, v); err != nil {
		return nil, err
	}
	return []byte(sb.String()), nil
}

// MustJCS panics on error (harness-side values only).
func MustJCS(v interface{}) []byte {
	b, err := JCSValue(v)
	if err != nil {
		panic("oracle.MustJCS: " + err.Error())
	}
	return b
}

func jcsWrite(sb *strings.Builder, v interface{}) error {
	switch t := v.(type) {
	case nil:
		sb.WriteString("null")
	case bool:
		if t {
			sb.WriteString("true")
		} else {
			sb.WriteString("false")
		}
	case string:
		jcsString(sb, t)
	case json.Number:
		f, err := strconv.ParseFloat(string(t), 64)
		if err != nil {
			return err
		}
		s, err := ES6Number(f)
		if err != nil {
			return err
		}
		sb.WriteString(s)
	case float64:
		s, err := ES6Number(t)
		if err != nil {
			return err
		}
		sb.WriteString(s)
	case int:
		s, _ := ES6Number(float64(t))
		sb.WriteString(s)
	case int64:
		s, _ := ES6Number(float64(t))
		sb.WriteString(s)
	case uint64:
		s, _ := ES6Number(float64(t))
		sb.WriteString(s)
	case []interface{}:
		sb.WriteByte('[')
		for i, e := range t {
			if i > 0 {
				sb.WriteByte(',')
			}
			if err := jcsWrite(sb, e); err != nil {
				return err
			}
		}
		sb.WriteByte(']')
	case []string:
		sb.WriteByte('[')
		for i, e := range t {
			if i > 0 {
				sb.WriteByte(',')
			}
			jcsString(sb, e)
		}
		sb.WriteByte(']')
	case map[string]interface{}:
		keys := make([]string, 0, len(t))
		for k := range t {
			keys = append(keys, k)
		}
		SortUTF16(keys)
		sb.WriteByte('{')
		for i, k := range keys {
			if i > 0 {
				sb.WriteByte(',')
			}
			jcsString(sb, k)
			sb.WriteByte(':')
			if err := jcsWrite(sb, t[k]); err != nil {
				return err
			}
		}
		sb.WriteByte('}')
	default:
		// fall back: encode through encoding/json and re-parse
		b, err := json.Marshal(v)
		if err != nil {
			return err
		}
		g, err := ParseJSON(b)
		if err != nil {
			return err
		}
		return jcsWrite(sb, g)
	}
	return nil
}

// SortUTF16 sorts strings by their UTF-16 code units (RFC 8785 §3.2.3).
func SortUTF16(keys []string) {
	enc := make(map[string][]uint16, len(keys))
	for _, k := range keys {
		enc[k] = utf16.Encode([]rune(k))
	}
	sort.Slice(keys, func(i, j int) bool {
		a, b := enc[keys[i]], enc[keys[j]]
		for x := 0; x < len(a) && x < len(b); x++ {
			if a[x] != b[x] {
				return a[x] < b[x]
			}
		}
		return len(a) < len(b)
	})
}

func jcsString(sb *strings.Builder, s string) {
	sb.WriteByte('"')
	for _, r := range s {
		switch r {
		case '"':
			sb.WriteString(`\"`)
		case '\\':
			sb.WriteString(`\\`)
		case '\b':
			sb.WriteString(`\b`)
		case '\f':
			sb.WriteString(`\f`)
		case '\n':
			sb.WriteString(`\n`)
		case '\r':
			sb.WriteString(`\r`)
		case '\t':
			sb.WriteString(`\t`)
		default:
			if r < 0x20 {
				fmt.Fprintf(sb, `\u%04x`, r)
			} else {
				sb.WriteRune(r)
			}
		}
	}
	sb.WriteByte('"')
}

var bigTen = big.NewInt(10)

func pow10(n int) *big.Int {
	return new(big.Int).Exp(bigTen, big.NewInt(int64(n)), nil)
}

// ES6Number formats a finite double as ECMAScript Number::toString does
// (ECMA-262 §6.1.6.1.20), computed with exact rational arithmetic: the smallest
// number of significant digits k for which some k-digit decimal converts back
// to the same double, and among those the one closest to the exact value.
func ES6Number(v float64) (string, error) {
	if math.IsNaN(v) || math.IsInf(v, 0) {
		return "", errors.New("not a finite number")
	}
	if v == 0 {
		return "0", nil
	}
	sign := ""
	if v < 0 {
		sign = "-"
		v = -v
	}
	exact := new(big.Rat).SetFloat64(v)
	// e10 with 10^e10 <= v < 10^(e10+1)
	e10 := int(math.Floor(math.Log10(v)))
	ratPow := func(e int) *big.Rat {
		if e >= 0 {
			return new(big.Rat).SetInt(pow10(e))
		}
		return new(big.Rat).SetFrac(big.NewInt(1), pow10(-e))
	}
	for exact.Cmp(ratPow(e10)) < 0 {
		e10--
	}
	for exact.Cmp(ratPow(e10+1)) >= 0 {
		e10++
	}
	var bestS *big.Int
	bestX := 0
	for k := 1; k <= 17 && bestS == nil; k++ {
		x := e10 - k + 1 // candidate = s * 10^x with k digits
		// s_floor = floor(exact / 10^x)
		q := new(big.Rat).Quo(exact, ratPow(x))
		fl := new(big.Int).Quo(q.Num(), q.Denom())
		var bestDiff *big.Rat
		for d := 0; d < 2; d++ {
			s := new(big.Int).Add(fl, big.NewInt(int64(d)))
			if s.Sign() == 0 {
				continue
			}
			txt := s.String() + "e" + strconv.Itoa(x)
			back, err := strconv.ParseFloat(txt, 64)
			if err != nil || back != v {
				continue
			}
			val := new(big.Rat).Mul(new(big.Rat).SetInt(s), ratPow(x))
			diff := new(big.Rat).Sub(val, exact)
			diff.Abs(diff)
			better := false
			if bestDiff == nil {
				better = true
			} else if c := diff.Cmp(bestDiff); c < 0 {
				better = true
			} else if c == 0 && s.Bit(0) == 0 {
				better = true // tie: even digit string
			}
			if better {
				bestDiff = diff
				bestS = s
				bestX = x
			}
		}
	}
	if bestS == nil {
		return "", fmt.Errorf("no round-tripping decimal found for %x", math.Float64bits(v))
	}
	// normalise trailing zeros of s
	s := new(big.Int).Set(bestS)
	x := bestX
	rem := new(big.Int)
	for {
		q, r := new(big.Int).QuoRem(s, bigTen, rem)
		if r.Sign() != 0 {
			break
		}
		s = q
		x++
	}
	digits := s.String()
	k := len(digits)
	n := k + x
	var out string
	switch {
	case k <= n && n <= 21:
		out = digits + strings.Repeat("0", n-k)
	case 0 < n && n <= 21:
		out = digits[:n] + "." + digits[n:]
	case -6 < n && n <= 0:
		out = "0." + strings.Repeat("0", -n) + digits
	default:
		e := n - 1
		es := "+"
		if e < 0 {
			es = "-"
			e = -e
		}
		if k == 1 {
			out = digits + "e" + es + strconv.Itoa(e)
		} else {
			out = digits[:1] + "." + digits[1:] + "e" + es + strconv.Itoa(e)
		}
	}
	return sign + out, nil
}

// JSONEqual reports whether two generic JSON values denote the same value
// (numbers compared as IEEE doubles).
func JSONEqual(a, b interface{}) bool {
	switch x := a.(type) {
	case nil:
		return b == nil
	case bool:
		y, ok := b.(bool)
		return ok && x == y
	case string:
		y, ok := b.(string)
		return ok && x == y
	case json.Number, float64, int, int64, uint64:
		fa, ok1 := num(a)
		fb, ok2 := num(b)
		return ok1 && ok2 && fa == fb
	case []interface{}:
		y, ok := b.([]interface{})
		if !ok || len(x) != len(y) {
			return false
		}
		for i := range x {
			if !JSONEqual(x[i], y[i]) {
				return false
			}
		}
		return true
	case map[string]interface{}:
		y, ok := b.(map[string]interface{})
		if !ok || len(x) != len(y) {
			return false
		}
		for k, v := range x {
			w, ok := y[k]
			if !ok || !JSONEqual(v, w) {
				return false
			}
		}
		return true
	}
	return false
}

func num(v interface{}) (float64, bool) {
	switch t := v.(type) {
	case json.Number:
		f, err := strconv.ParseFloat(string(t), 64)
		return f, err == nil
	case float64:
		return t, true
	case int:
		return float64(t), true
	case int64:
		return float64(t), true
	case uint64:
		return float64(t), true
	}
	return 0, false
}

// Generic converts any Go value to generic JSON (via encoding/json, numbers as json.Number).
func Generic(v interface{}) (interface{}, error) {
	b, err := json.Marshal(v)
	if err != nil {
		return nil, err
	}
	return ParseJSON(b)
}

// MustGeneric panics on error.
func MustGeneric(v interface{}) interface{} {
	g, err := Generic(v)
	if err != nil {
		panic("oracle.MustGeneric: " + err.Error())
	}
	return g
}

// DeepCopy copies a generic JSON value.
func DeepCopy(v interface{}) interface{} {
	switch t := v.(type) {
	case []interface{}:
		out := make([]interface{}, len(t))
		for i, e := range t {
			out[i] = DeepCopy(e)
		}
		return out
	case map[string]interface{}:
		out := make(map[string]interface{}, len(t))
		for k, e := range t {
			out[k] = DeepCopy(e)
		}
		return out
	}
	return v
}

// Num converts a generic JSON number to float64.
func Num(v interface{}) (float64, bool) { return num(v) }

// MustGenericSafe converts v to generic JSON; on failure it returns a printable placeholder.
func MustGenericSafe(v interface{}) interface{} {
	g, err := Generic(v)
	if err != nil {
		return fmt.Sprintf("%v", v)
	}
	return g
}
