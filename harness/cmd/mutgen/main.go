// mutgen lists single-point source mutations of a Go file as JSON lines (byte offsets + replacement text).
// Development aid for the mutation sweep (see DESIGN.md §8); not part of any registered check.
package main

import (
	"encoding/json"
	"fmt"
	"go/ast"
	"go/parser"
	"go/token"
	"os"
	"strconv"
)

type mutant struct {
	File  string `json:"file"`
	Line  int    `json:"line"`
	Kind  string `json:"kind"`
	Start int    `json:"start"`
	End   int    `json:"end"`
	Repl  string `json:"repl"`
	Orig  string `json:"orig"`
	Func  string `json:"func"`
}

var swaps = map[token.Token][]string{
	token.EQL: {"!="}, token.NEQ: {"=="},
	token.LSS: {"<=", ">"}, token.LEQ: {"<"}, token.GTR: {">=", "<"}, token.GEQ: {">"},
	token.LAND: {"||"}, token.LOR: {"&&"},
	token.ADD: {"-"}, token.SUB: {"+"}, token.MUL: {"/"}, token.QUO: {"*"}, token.REM: {"/"},
	token.SHL: {">>"}, token.SHR: {"<<"}, token.AND: {"|"}, token.OR: {"&"},
}

func main() {
	path := os.Args[1]
	rel := os.Args[2]
	src, err := os.ReadFile(path)
	if err != nil {
		panic(err)
	}
	fset := token.NewFileSet()
	f, err := parser.ParseFile(fset, path, src, 0)
	if err != nil {
		panic(err)
	}
	enc := json.NewEncoder(os.Stdout)
	off := func(p token.Pos) int { return fset.Position(p).Offset }
	curFunc := ""
	emit := func(kind string, s, e token.Pos, repl string) {
		so, eo := off(s), off(e)
		enc.Encode(mutant{File: rel, Line: fset.Position(s).Line, Kind: kind, Start: so, End: eo, Repl: repl, Orig: string(src[so:eo]), Func: curFunc})
	}
	for _, d := range f.Decls {
		fd, ok := d.(*ast.FuncDecl)
		if !ok || fd.Body == nil {
			// package-level const / var integer literals
			if gd, ok := d.(*ast.GenDecl); ok && (gd.Tok == token.CONST || gd.Tok == token.VAR) {
				curFunc = "(package)"
				ast.Inspect(gd, func(n ast.Node) bool {
					if bl, ok := n.(*ast.BasicLit); ok && bl.Kind == token.INT {
						if v, err := strconv.ParseInt(bl.Value, 0, 64); err == nil {
							emit("int+1", bl.Pos(), bl.End(), fmt.Sprint(v+1))
							if v > 0 {
								emit("int-1", bl.Pos(), bl.End(), fmt.Sprint(v-1))
							}
						}
					}
					return true
				})
			}
			continue
		}
		curFunc = fd.Name.Name
		ast.Inspect(fd.Body, func(n ast.Node) bool {
			switch x := n.(type) {
			case *ast.BinaryExpr:
				for _, r := range swaps[x.Op] {
					if x.Op == token.ADD {
						// string concatenation cannot become a subtraction: let the compiler reject it
					}
					emit("binop "+x.Op.String()+"->"+r, x.OpPos, x.OpPos+token.Pos(len(x.Op.String())), r)
				}
			case *ast.UnaryExpr:
				if x.Op == token.NOT {
					emit("drop-not", x.OpPos, x.OpPos+1, "")
				}
			case *ast.IfStmt:
				emit("if-never", x.Cond.Pos(), x.Cond.End(), "false && ("+string(src[off(x.Cond.Pos()):off(x.Cond.End())])+")")
				emit("if-always", x.Cond.Pos(), x.Cond.End(), "true || ("+string(src[off(x.Cond.Pos()):off(x.Cond.End())])+")")
			case *ast.ForStmt:
				if x.Cond != nil {
					emit("for-never", x.Cond.Pos(), x.Cond.End(), "false && ("+string(src[off(x.Cond.Pos()):off(x.Cond.End())])+")")
				}
			case *ast.BasicLit:
				if x.Kind == token.INT {
					if v, err := strconv.ParseInt(x.Value, 0, 64); err == nil {
						emit("int+1", x.Pos(), x.End(), fmt.Sprint(v+1))
						if v > 0 {
							emit("int-1", x.Pos(), x.End(), fmt.Sprint(v-1))
						}
					}
				}
			case *ast.Ident:
				if x.Name == "true" {
					emit("true->false", x.Pos(), x.End(), "false")
				} else if x.Name == "false" {
					emit("false->true", x.Pos(), x.End(), "true")
				}
			case *ast.BranchStmt:
				if x.Tok == token.CONTINUE && x.Label == nil {
					emit("continue->break", x.Pos(), x.End(), "break")
				}
				if x.Tok == token.BREAK && x.Label == nil {
					emit("break->continue", x.Pos(), x.End(), "continue")
				}
			case *ast.BlockStmt:
				for _, st := range x.List {
					switch s := st.(type) {
					case *ast.ExprStmt:
						if _, ok := s.X.(*ast.CallExpr); ok {
							emit("drop-call", s.Pos(), s.End(), "")
						}
					case *ast.AssignStmt:
						if s.Tok != token.DEFINE {
							emit("drop-assign", s.Pos(), s.End(), "")
						}
					case *ast.IncDecStmt:
						emit("drop-incdec", s.Pos(), s.End(), "")
					case *ast.DeferStmt:
						emit("drop-defer", s.Pos(), s.End(), "")
					case *ast.ReturnStmt:
						// return …, err  ->  return …, nil   (last result named err)
						if len(s.Results) > 0 {
							if id, ok := s.Results[len(s.Results)-1].(*ast.Ident); ok && id.Name == "err" {
								emit("return-err->nil", id.Pos(), id.End(), "nil")
							}
						}
					}
				}
			case *ast.CaseClause:
				for _, st := range x.Body {
					switch s := st.(type) {
					case *ast.ExprStmt:
						emit("drop-call", s.Pos(), s.End(), "")
					case *ast.AssignStmt:
						if s.Tok != token.DEFINE {
							emit("drop-assign", s.Pos(), s.End(), "")
						}
					}
				}
			}
			return true
		})
	}
}
