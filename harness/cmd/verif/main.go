// Command verif is the single harness binary: `run <ID> <tier>` (parent),
// `worker …` (child), `replay <file>`, `list`.
package main

import (
	"fmt"
	"os"

	_ "verifharness/checks"
	"verifharness/fw"
)

func main() {
	if len(os.Args) < 2 {
		fmt.Fprintln(os.Stderr, "usage: verif run <ID> <quick|thorough> | replay <file> | list")
		os.Exit(2)
	}
	switch os.Args[1] {
	case "worker":
		os.Exit(fw.WorkerMain(os.Args[2:]))
	case "run":
		if len(os.Args) < 4 {
			fmt.Fprintln(os.Stderr, "usage: verif run <ID> <quick|thorough>")
			os.Exit(2)
		}
		os.Exit(fw.RunMain(os.Args[2], os.Args[3], -1))
	case "replay":
		if len(os.Args) < 3 {
			os.Exit(2)
		}
		os.Exit(fw.ReplayMain(os.Args[2]))
	case "list":
		for _, id := range fw.IDs() {
			fmt.Println(id)
		}
	default:
		fmt.Fprintln(os.Stderr, "unknown command", os.Args[1])
		os.Exit(2)
	}
}
