// Package fuzz holds native Go fuzz targets used as a development aid only (DESIGN.md §0.5):
// crash classes they discover are encoded in the deterministic C19 generator; they are not registered checks.
package fuzz

import (
	"encoding/json"
	"testing"

	"github.com/trustbloc/sidetree-go/pkg/api/operation"
	"github.com/trustbloc/sidetree-go/pkg/api/protocol"
	"github.com/trustbloc/sidetree-go/pkg/canonicalizer"
	"github.com/trustbloc/sidetree-go/pkg/document"
	"github.com/trustbloc/sidetree-go/pkg/jws"
	"github.com/trustbloc/sidetree-go/pkg/jwsutil"
	"github.com/trustbloc/sidetree-go/pkg/patch"
	"github.com/trustbloc/sidetree-go/pkg/vdr/sidetreelongform/dochandler"
	"github.com/trustbloc/sidetree-go/pkg/versions/1_0/doctransformer/didtransformer"
	"github.com/trustbloc/sidetree-go/pkg/versions/1_0/operationparser/patchvalidator"

	"verifharness/sut"
)

var stack = func() *sut.Stack {
	p := sut.Proto()
	p.MaxOperationSize = 1 << 16
	p.MaxDeltaSize = 1 << 16
	return sut.NewStack(p)
}()

var handler, _ = dochandler.New("did:ion")

func FuzzParse(f *testing.F) {
	f.Add([]byte(`{"type":"create","suffixData":{"deltaHash":"EiA","recoveryCommitment":"EiB"},"delta":{"updateCommitment":"EiC","patches":[{"action":"replace","document":{}}]}}`))
	f.Add([]byte(`{"type":"update","didSuffix":"EiA","revealValue":"EiB","signedData":"e30.e30.e30","delta":{"patches":[]}}`))
	f.Add([]byte(`{"type":"deactivate","didSuffix":"EiA","revealValue":"EiB","signedData":"a.b.c"}`))
	f.Fuzz(func(t *testing.T, b []byte) {
		if len(b) > 1<<14 {
			return
		}
		stack.Parser.Parse("did:ion", b)
		stack.Parser.ParseOperation("did:ion", b, true)
		stack.Parser.GetRevealValue(b)
		stack.Parser.GetCommitment(b)
		for _, typ := range []operation.Type{"create", "update", "recover", "deactivate"} {
			stack.Applier.Apply(&operation.AnchoredOperation{Type: typ, OperationRequest: b}, &protocol.ResolutionModel{})
			stack.Applier.Apply(&operation.AnchoredOperation{Type: typ, OperationRequest: b}, &protocol.ResolutionModel{Doc: document.Document{}})
		}
		handler.ProcessOperation(b)
	})
}

func FuzzDID(f *testing.F) {
	f.Add("did:ion:EiA:eyJkZWx0YSI6e319")
	f.Add("did:ion:EiA")
	f.Fuzz(func(t *testing.T, s string) {
		if len(s) > 1<<14 {
			return
		}
		handler.ResolveDocument(s)
		stack.Parser.ParseDID("did:ion", s)
	})
}

func FuzzJWS(f *testing.F) {
	f.Add("eyJhbGciOiJFZERTQSJ9.e30.AAAA", []byte(`{"kty":"OKP","crv":"Ed25519","x":"AAAAAAAAAAAAAAAAAAAAAAAAAAAAAAAAAAAAAAAAAAA"}`))
	f.Add("a.b.c", []byte(`{"kty":"EC","crv":"secp256k1","x":"AA","y":"AA"}`))
	f.Fuzz(func(t *testing.T, s string, k []byte) {
		if len(s) > 1<<13 || len(k) > 1<<12 {
			return
		}
		jwsutil.ParseJWS(s)
		var lk jws.JWK
		if json.Unmarshal(k, &lk) == nil {
			jwsutil.VerifyJWS(s, &lk)
			jwsutil.VerifySignature(&lk, []byte(s), []byte("m"))
			jwsutil.GetED25519PublicKey(&lk)
		}
		var jk jwsutil.JWK
		if jk.UnmarshalJSON(k) == nil {
			jk.PublicKeyBytes()
			jk.MarshalJSON()
		}
	})
}

func FuzzCanonical(f *testing.F) {
	f.Add([]byte(`{"a":[1,2.5e10,"é"],"b":null}`))
	f.Fuzz(func(t *testing.T, b []byte) {
		if len(b) > 1<<12 {
			return
		}
		canonicalizer.MarshalCanonical(b)
	})
}

var tr = didtransformer.New(didtransformer.WithBase(true))

func FuzzPatch(f *testing.F) {
	f.Add([]byte(`{"action":"ietf-json-patch","patches":[{"op":"add","path":"/a","value":1}]}`), []byte(`{"publicKey":[{"id":"k","type":"JsonWebKey2020","publicKeyJwk":{"kty":"EC","crv":"P-256","x":"a","y":"b"}}],"arr":[1,2]}`))
	f.Add([]byte(`{"action":"add-public-keys","publicKeys":[{"id":"k","type":"JsonWebKey2020","purposes":["authentication"]}]}`), []byte(`{}`))
	f.Add([]byte(`{"action":"replace","document":{"publicKeys":[],"services":[{"id":"s","type":"t","serviceEndpoint":"https://a"}]}}`), []byte(`{"service":[1]}`))
	f.Fuzz(func(t *testing.T, pb, db []byte) {
		if len(pb) > 1<<12 || len(db) > 1<<12 {
			return
		}
		p, err := patch.FromBytes(pb)
		if err != nil {
			return
		}
		// json-patch's own fatal classes (alias cycles, huge indices) are known findings: keep the fuzzer away from copy/move
		if a, _ := p.GetAction(); a == patch.JSONPatch {
			s := string(pb)
			for _, w := range []string{"copy", "move"} {
				for i := 0; i+len(w) <= len(s); i++ {
					if s[i:i+len(w)] == w {
						return
					}
				}
			}
		}
		patchvalidator.Validate(p)
		var doc document.Document
		if json.Unmarshal(db, &doc) != nil || doc == nil {
			doc = document.Document{}
		}
		out, err := stack.Composer.ApplyPatches(doc, []patch.Patch{p})
		if err == nil && out != nil {
			tr.TransformDocument(&protocol.ResolutionModel{Doc: out}, protocol.TransformationInfo{"id": "did:ion:x", "published": false})
		}
		patch.PatchesFromDocument(string(db))
	})
}
