module verifharness

go 1.22

require (
	github.com/anishathalye/porcupine v1.3.0
	github.com/btcsuite/btcd/btcec/v2 v2.1.3
	github.com/evanphx/json-patch v4.1.0+incompatible
	github.com/trustbloc/sidetree-go v0.0.0
)

require github.com/decred/dcrd/dcrec/secp256k1/v4 v4.0.1 // indirect

replace github.com/trustbloc/sidetree-go => /repo
