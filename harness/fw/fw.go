// Package fw is the monitor runtime: case runner, worker/journal protocol,
// evidence writer, violation/replay files and the known-findings matcher.
package fw

import (
	"bufio"
	"bytes"
	"encoding/json"
	"fmt"
	"os"
	"os/exec"
	"path/filepath"
	"runtime"
	"runtime/debug"
	"sort"
	"strconv"
	"strings"
	"sync"
	"sync/atomic"
	"time"
)

// Check describes one property's monitor.
type Check struct {
	ID          string
	Rule        string   // how cases are generated and what makes one distinct / non-trivial
	Assumptions []string // trusted base
	Exhaustive  func(tier string) bool
	// Run enumerates the cases by calling r.Case; the runner decides which
	// of them this worker executes.
	Run func(r *Runner)
	// Require lists counters that must be > 0 at the end of a run, otherwise
	// the run is inconclusive (exit 2): an empty run can never pass.
	Require []string
	// Finish may inspect the aggregate and return problems (=> exit 2).
	Finish func(a *Aggregate) []string
	// Workers returns the number of worker processes for a tier (default 12).
	Workers func(tier string) int
	// CaseTimeout in seconds (default 300). A case exceeding it ends the
	// worker; the parent records it (inconclusive unless TimeoutIsViolation).
	CaseTimeout        int
	TimeoutIsViolation bool
	// Race: run workers from the -race binary.
	Race func(tier string) bool
	// RaceLog: the parent collects GORACE logs and hands them to Finish via Aggregate.RaceReports.
}

var registry = map[string]*Check{}

func Register(c *Check) { registry[c.ID] = c }

func Lookup(id string) *Check { return registry[id] }

func IDs() []string {
	var ids []string
	for k := range registry {
		ids = append(ids, k)
	}
	sort.Strings(ids)
	return ids
}

// Runner is handed to Check.Run inside a worker.
type Runner struct {
	ID       string
	Tier     string
	Seed     int64
	Thorough bool

	shard, shards int
	start         int
	only          int // replay: execute only this index (-1 = off)

	idx     int
	journal *os.File
	jinput  string
	out     *bufio.Writer
	outf    *os.File
	mu      sync.Mutex

	delta     *deltaRec
	lastFlush time.Time
	nSamples  map[string]int

	caseStart atomic.Int64 // unix nanos of the running case, 0 if none
	caseIdx   atomic.Int64
	Verbose   bool
}

// Scale multiplies the per-tier counts of a check (quick, thorough): the base
// counts in the checks were sized for sub-second runs during development; the
// factors bring each tier to its budget (quick ~10-30 s, thorough ~2-6 min on 16 cores).
var Scale = map[string][2]int{
	"C01": {40, 80}, "C02": {60, 150}, "C03": {40, 60}, "C04": {5, 8}, "C05": {2, 1}, "C06": {3, 4}, "C07": {60, 100},
	"C08": {30, 25}, "C09": {5, 10}, "C10": {40, 15}, "C11": {30, 10}, "C12": {20, 10}, "C13": {5, 20}, "C14": {40, 30},
	"C15": {6, 5}, "C16": {60, 60}, "C17": {30, 4}, "C18": {60, 40}, "C19": {2, 1}, "C20": {2, 2},
}

// N picks a count by tier (scaled by Scale).
func (r *Runner) N(quick, thorough int) int {
	m := [2]int{1, 1}
	if s, ok := Scale[r.ID]; ok {
		m = s
	}
	if r.Thorough {
		return thorough * m[1]
	}
	return quick * m[0]
}

type deltaRec struct {
	T        string              `json:"t"`
	Cases    int                 `json:"cases"`
	Evals    int64               `json:"evals"`
	Classes  map[string]int64    `json:"classes,omitempty"`
	Sigs     []uint64            `json:"sigs,omitempty"`
	Counters map[string]int64    `json:"counters,omitempty"`
	Obs      map[string]int64    `json:"obs,omitempty"`
	Inconc   map[string]int64    `json:"inconc,omitempty"`
	Samples  []sampleRec         `json:"samples,omitempty"`
	sigSeen  map[uint64]struct{} `json:"-"`
}

type sampleRec struct {
	Class string      `json:"class"`
	V     interface{} `json:"v"`
}

type violRec struct {
	T       string      `json:"t"`
	Idx     int         `json:"idx"`
	Class   string      `json:"class"`
	FP      string      `json:"fp"`
	Msg     string      `json:"msg"`
	Witness interface{} `json:"witness,omitempty"`
}

func newDelta() *deltaRec {
	return &deltaRec{T: "delta", Classes: map[string]int64{}, Counters: map[string]int64{},
		Obs: map[string]int64{}, Inconc: map[string]int64{}}
}

// Case is one executed case.
type Case struct {
	r     *Runner
	Idx   int
	Class string
	Rng   *Rand
	evals int64
	sigs  []uint64
	viol  int
}

// Case registers (and possibly executes) one case. The class is a coarse
// label used for per-class counts; f receives a PRNG private to the case.
func (r *Runner) Case(class string, f func(c *Case)) {
	idx := r.idx
	r.idx++
	if r.only >= 0 {
		if idx != r.only {
			return
		}
	} else {
		if idx < r.start || idx%r.shards != r.shard {
			return
		}
	}
	c := &Case{r: r, Idx: idx, Class: class, Rng: CaseRand(r.Seed, r.ID, idx)}
	if r.journal != nil {
		r.journal.WriteAt([]byte(fmt.Sprintf("%-20d\n%-60s\n", idx, class)), 0)
	}
	r.caseIdx.Store(int64(idx))
	r.caseStart.Store(time.Now().UnixNano())
	func() {
		defer func() {
			if rec := recover(); rec != nil {
				st := string(debug.Stack())
				c.Violation("panic@"+panicSite(st), fmt.Sprintf("panic in monitored code: %v", rec),
					map[string]interface{}{"panic": fmt.Sprint(rec), "stack": trimStack(st)})
			}
		}()
		f(c)
	}()
	r.caseStart.Store(0)
	r.mu.Lock()
	d := r.delta
	d.Cases++
	if c.evals == 0 {
		c.evals = 1
	}
	d.Evals += c.evals
	d.Classes[class] += c.evals
	r.mu.Unlock()
	if time.Since(r.lastFlush) > 400*time.Millisecond {
		r.flush()
	}
}

// Evals adds n oracle comparisons to the case (default: 1 per case).
func (c *Case) Evals(n int) { c.evals += int64(n) }

// Sig records a structural signature; the number of distinct signatures over
// the whole run is the evidence's distinct_nontrivial.
func (c *Case) Sig(parts ...interface{}) {
	h := Hash64(fmt.Sprint(parts...))
	c.r.mu.Lock()
	d := c.r.delta
	if d.sigSeen == nil {
		d.sigSeen = map[uint64]struct{}{}
	}
	if _, ok := d.sigSeen[h]; !ok && len(d.sigSeen) < 400000 {
		d.sigSeen[h] = struct{}{}
		d.Sigs = append(d.Sigs, h)
	}
	c.r.mu.Unlock()
}

// Count adds to a named counter (entry points reached, outcomes seen …).
func (c *Case) Count(key string, n int) {
	c.r.mu.Lock()
	c.r.delta.Counters[key] += int64(n)
	c.r.mu.Unlock()
}

// Observe records a behaviour that is noted in the evidence but is not a violation.
func (c *Case) Observe(key string) {
	c.r.mu.Lock()
	c.r.delta.Obs[key]++
	c.r.mu.Unlock()
}

// Inconclusive marks the case as one the oracle could not judge.
func (c *Case) Inconclusive(reason string) {
	c.r.mu.Lock()
	c.r.delta.Inconc[reason]++
	c.r.mu.Unlock()
}

// Sample offers an actual case for the evidence file (first few per class are kept).
func (c *Case) Sample(v interface{}) {
	c.r.mu.Lock()
	defer c.r.mu.Unlock()
	if c.r.nSamples[c.Class] >= 1 || len(c.r.nSamples) >= 14 {
		return
	}
	c.r.nSamples[c.Class]++
	c.r.delta.Samples = append(c.r.delta.Samples, sampleRec{Class: c.Class, V: Shorten(v)})
}

// Journal stores the raw input about to be handed to the code under test, so
// that the parent can attribute a process-fatal crash to it.
func (c *Case) Journal(data []byte) {
	if c.r.jinput == "" {
		return
	}
	_ = os.WriteFile(c.r.jinput, data, 0o644)
}

// Violation reports a refuting observation. fp is a stable fingerprint of the
// specific failing input class / call site, used for known-findings matching.
func (c *Case) Violation(fp, msg string, witness interface{}) {
	c.viol++
	if c.viol > 3 {
		return
	}
	rec := violRec{T: "viol", Idx: c.Idx, Class: c.Class, FP: fp, Msg: msg, Witness: witness}
	c.r.mu.Lock()
	b, err := json.Marshal(rec)
	if err != nil {
		rec.Witness = fmt.Sprintf("%+v", witness)
		b, _ = json.Marshal(rec)
	}
	c.r.out.Write(b)
	c.r.out.WriteByte('\n')
	c.r.out.Flush()
	c.r.mu.Unlock()
}

// Failf is shorthand for a violation with a formatted message.
func (c *Case) Failf(fp string, witness interface{}, format string, a ...interface{}) {
	c.Violation(fp, fmt.Sprintf(format, a...), witness)
}

func (r *Runner) flush() {
	r.mu.Lock()
	defer r.mu.Unlock()
	d := r.delta
	if d.Cases == 0 && len(d.Sigs) == 0 {
		return
	}
	b, _ := json.Marshal(d)
	r.out.Write(b)
	r.out.WriteByte('\n')
	r.out.Flush()
	nd := newDelta()
	nd.sigSeen = d.sigSeen
	r.delta = nd
	r.lastFlush = time.Now()
}

func panicSite(stack string) string {
	// first frame after the runtime panic frames that is not in fw / runtime
	lines := strings.Split(stack, "\n")
	seenPanic := false
	for _, l := range lines {
		l = strings.TrimSpace(l)
		if strings.HasPrefix(l, "panic(") {
			seenPanic = true
			continue
		}
		if !seenPanic || l == "" || strings.HasPrefix(l, "/") || strings.HasPrefix(l, "runtime.") ||
			strings.HasPrefix(l, "runtime/") || strings.Contains(l, "verifharness/fw.") {
			continue
		}
		if i := strings.LastIndex(l, "("); i > 0 {
			l = l[:i]
		}
		return l
	}
	return "unknown"
}

func trimStack(st string) string {
	if len(st) > 3000 {
		return st[:3000] + "…"
	}
	return st
}

// Shorten makes a value safe to embed in evidence (long strings cut).
func Shorten(v interface{}) interface{} {
	b, err := json.Marshal(v)
	if err != nil {
		s := fmt.Sprintf("%+v", v)
		if len(s) > 800 {
			s = s[:800] + "…"
		}
		return s
	}
	var g interface{}
	if json.Unmarshal(b, &g) != nil {
		return string(b)
	}
	return shortenVal(g, 0)
}

func shortenVal(v interface{}, depth int) interface{} {
	switch t := v.(type) {
	case string:
		if len(t) > 300 {
			return t[:300] + fmt.Sprintf("…(%d bytes)", len(t))
		}
		return t
	case []interface{}:
		if depth > 6 {
			return "…"
		}
		out := make([]interface{}, 0, len(t))
		for i, e := range t {
			if i >= 12 {
				out = append(out, fmt.Sprintf("…(%d more)", len(t)-i))
				break
			}
			out = append(out, shortenVal(e, depth+1))
		}
		return out
	case map[string]interface{}:
		if depth > 6 {
			return "…"
		}
		out := map[string]interface{}{}
		n := 0
		for k, e := range t {
			if n >= 24 {
				out["…"] = fmt.Sprintf("%d more members", len(t)-n)
				break
			}
			kk := k
			if len(kk) > 80 {
				kk = kk[:80] + "…"
			}
			out[kk] = shortenVal(e, depth+1)
			n++
		}
		return out
	}
	return v
}

// ---------------------------------------------------------------------------
// worker entry

// WorkerMain runs inside the worker subprocess.
func WorkerMain(args []string) int {
	// args: ID tier seed shard shards start only outfile journal
	if len(args) < 9 {
		fmt.Fprintln(os.Stderr, "worker: bad args")
		return 2
	}
	ck := Lookup(args[0])
	if ck == nil {
		fmt.Fprintln(os.Stderr, "worker: unknown check", args[0])
		return 2
	}
	seed, _ := strconv.ParseInt(args[2], 10, 64)
	shard, _ := strconv.Atoi(args[3])
	shards, _ := strconv.Atoi(args[4])
	start, _ := strconv.Atoi(args[5])
	only, _ := strconv.Atoi(args[6])
	outf, err := os.OpenFile(args[7], os.O_CREATE|os.O_WRONLY|os.O_APPEND, 0o644)
	if err != nil {
		fmt.Fprintln(os.Stderr, "worker:", err)
		return 2
	}
	var jf *os.File
	if args[8] != "-" {
		jf, err = os.OpenFile(args[8], os.O_CREATE|os.O_WRONLY|os.O_TRUNC, 0o644)
		if err != nil {
			fmt.Fprintln(os.Stderr, "worker:", err)
			return 2
		}
	}
	r := &Runner{ID: ck.ID, Tier: args[1], Seed: seed, Thorough: args[1] == "thorough",
		shard: shard, shards: shards, start: start, only: only,
		journal: jf, out: bufio.NewWriterSize(outf, 1<<16), outf: outf,
		delta: newDelta(), lastFlush: time.Now(), nSamples: map[string]int{}}
	if args[8] != "-" {
		r.jinput = args[8] + ".input"
	}
	limit := ck.CaseTimeout
	if s := os.Getenv("VERIF_CASE_TIMEOUT"); s != "" {
		// development aid (mutation sweep): a shorter per-case watchdog; never set by the registered commands
		if v, err := strconv.Atoi(s); err == nil && v > 0 {
			limit = v
		}
	}
	if limit == 0 {
		limit = 300
	}
	go func() {
		for {
			time.Sleep(500 * time.Millisecond)
			st := r.caseStart.Load()
			if st != 0 && time.Since(time.Unix(0, st)) > time.Duration(limit)*time.Second {
				fmt.Fprintf(os.Stderr, "VERIF-WATCHDOG case=%d exceeded %ds\n", r.caseIdx.Load(), limit)
				buf := make([]byte, 1<<20)
				n := runtime.Stack(buf, true)
				os.Stderr.Write(buf[:n])
				r.flush()
				os.Exit(3)
			}
		}
	}()
	ck.Run(r)
	r.flush()
	r.mu.Lock()
	r.out.WriteString(fmt.Sprintf("{\"t\":\"done\",\"total\":%d}\n", r.idx))
	r.out.Flush()
	r.mu.Unlock()
	outf.Close()
	return 0
}

// ---------------------------------------------------------------------------
// parent

// Aggregate is what the parent accumulated over all workers.
type Aggregate struct {
	ID, Tier    string
	Seed        int64
	Cases       int64
	Evals       int64
	Classes     map[string]int64
	Sigs        map[uint64]struct{}
	Counters    map[string]int64
	Obs         map[string]int64
	Inconc      map[string]int64
	Samples     []sampleRec
	Viols       []violRec
	TotalCases  int
	Crashes     int
	RaceReports []string // deduplicated race report keys (C20 / C19 thorough)
	RaceRaw     int
	WorkDir     string
	Problems    []string
}

type knownEntry struct {
	Prop, FP, Text string
}

func loadKnown(path string) []knownEntry {
	var out []knownEntry
	b, err := os.ReadFile(path)
	if err != nil {
		return nil
	}
	for _, l := range strings.Split(string(b), "\n") {
		l = strings.TrimSpace(l)
		if !strings.HasPrefix(l, "known:") {
			continue
		}
		rest := strings.TrimSpace(strings.TrimPrefix(l, "known:"))
		fields := strings.Fields(rest)
		var e knownEntry
		var text []string
		for _, f := range fields {
			switch {
			case strings.HasPrefix(f, "property=") && e.Prop == "":
				e.Prop = strings.TrimPrefix(f, "property=")
			case strings.HasPrefix(f, "fp=") && e.FP == "":
				e.FP = strings.TrimPrefix(f, "fp=")
			default:
				text = append(text, f)
			}
		}
		e.Text = strings.Join(text, " ")
		if e.Prop != "" && e.FP != "" {
			out = append(out, e)
		}
	}
	return out
}

// VerifDir is /verif (overridable for tests).
func VerifDir() string {
	if d := os.Getenv("VERIF_DIR"); d != "" {
		return d
	}
	return "/verif"
}

// RunMain is the parent: spawns workers, aggregates, writes evidence, prints verdict.
func RunMain(id, tier string, replayIdx int) int {
	ck := Lookup(id)
	if ck == nil {
		fmt.Fprintf(os.Stderr, "unknown check %q (have %v)\n", id, IDs())
		return 2
	}
	if tier != "quick" && tier != "thorough" {
		fmt.Fprintln(os.Stderr, "tier must be quick|thorough")
		return 2
	}
	seed := int64(1)
	if s := os.Getenv("VERIF_SEED"); s != "" {
		if v, err := strconv.ParseInt(s, 10, 64); err == nil {
			seed = v
		}
	}
	t0 := time.Now()
	vdir := VerifDir()
	work, err := os.MkdirTemp(filepath.Join(vdir, "work"), id+"-")
	if err != nil {
		os.MkdirAll(filepath.Join(vdir, "work"), 0o755)
		work, err = os.MkdirTemp(filepath.Join(vdir, "work"), id+"-")
		if err != nil {
			fmt.Fprintln(os.Stderr, err)
			return 2
		}
	}
	defer os.RemoveAll(work)

	nw := 12
	if ck.Workers != nil {
		nw = ck.Workers(tier)
	}
	if s := os.Getenv("VERIF_WORKERS"); s != "" {
		// development aid (mutation sweep runs several checks side by side); the case set does not depend on it
		if v, err := strconv.Atoi(s); err == nil && v > 0 && v < nw {
			nw = v
		}
	}
	if replayIdx >= 0 {
		nw = 1
	}
	race := ck.Race != nil && ck.Race(tier)
	bin := os.Getenv("VERIF_BIN")
	if bin == "" {
		bin, _ = os.Executable()
	}
	if race {
		if rb := os.Getenv("VERIF_BIN_RACE"); rb != "" {
			bin = rb
		} else {
			fmt.Fprintln(os.Stderr, "race binary required but VERIF_BIN_RACE not set")
			return 2
		}
	}

	agg := &Aggregate{ID: id, Tier: tier, Seed: seed, Classes: map[string]int64{}, Sigs: map[uint64]struct{}{},
		Counters: map[string]int64{}, Obs: map[string]int64{}, Inconc: map[string]int64{}, WorkDir: work}
	var amu sync.Mutex
	var wg sync.WaitGroup
	overall := 3 * time.Hour
	if tier == "quick" {
		overall = 25 * time.Minute
	}
	deadline := time.Now().Add(overall)
	// development aid for the mutation sweep: VERIF_FAILFAST=1 ends the run as soon as a worker has written a violation
	// that is not a listed known finding (never set by the registered commands)
	var ffStop atomic.Bool
	var procMu sync.Mutex
	procs := map[int]*os.Process{}
	if os.Getenv("VERIF_FAILFAST") != "" && replayIdx < 0 {
		known := loadKnown(filepath.Join(vdir, "KNOWN_FINDINGS.txt"))
		go func() {
			for !ffStop.Load() {
				time.Sleep(300 * time.Millisecond)
				outs, _ := filepath.Glob(filepath.Join(work, "out.*"))
				for _, o := range outs {
					if failfastHit(o, id, known) {
						ffStop.Store(true)
						procMu.Lock()
						for _, p := range procs {
							p.Kill()
						}
						procMu.Unlock()
						return
					}
				}
			}
		}()
		defer ffStop.Store(true)
	}
	for s := 0; s < nw; s++ {
		wg.Add(1)
		go func(shard int) {
			defer wg.Done()
			start := 0
			for attempt := 0; attempt < 400; attempt++ {
				out := filepath.Join(work, fmt.Sprintf("out.%d.%d", shard, attempt))
				jr := filepath.Join(work, fmt.Sprintf("journal.%d", shard))
				errf := filepath.Join(work, fmt.Sprintf("stderr.%d.%d", shard, attempt))
				os.Remove(jr)
				os.Remove(jr + ".input")
				ef, _ := os.Create(errf)
				cmd := exec.Command(bin, "worker", id, tier, strconv.FormatInt(seed, 10), strconv.Itoa(shard),
					strconv.Itoa(nw), strconv.Itoa(start), strconv.Itoa(replayIdx), out, jr)
				cmd.Stderr = ef
				cmd.Stdout = ef
				cmd.Env = append(os.Environ(), "VERIF_WORKER=1")
				if race {
					cmd.Env = append(cmd.Env, fmt.Sprintf("GORACE=halt_on_error=0 exitcode=0 log_path=%s", filepath.Join(work, fmt.Sprintf("race.%d.%d", shard, attempt))))
				}
				// memory cap so that an allocation bomb becomes an observable failure
				limitKB := 8 << 20
				if race {
					limitKB = 24000000
				}
				sh := fmt.Sprintf("ulimit -v %d; exec \"$0\" \"$@\"", limitKB)
				cmd.Args = append([]string{"bash", "-c", sh, bin}, cmd.Args[1:]...)
				cmd.Path = "/bin/bash"
				if err := cmd.Start(); err != nil {
					amu.Lock()
					agg.Problems = append(agg.Problems, "cannot start worker: "+err.Error())
					amu.Unlock()
					ef.Close()
					return
				}
				procMu.Lock()
				procs[shard] = cmd.Process
				procMu.Unlock()
				done := make(chan error, 1)
				go func() { done <- cmd.Wait() }()
				var werr error
				timedOut := false
				select {
				case werr = <-done:
				case <-time.After(time.Until(deadline)):
					timedOut = true
					cmd.Process.Signal(os.Interrupt)
					time.Sleep(200 * time.Millisecond)
					cmd.Process.Kill()
					werr = <-done
				}
				ef.Close()
				finished := readOut(out, agg, &amu)
				if finished && werr == nil {
					return
				}
				if ffStop.Load() {
					return
				}
				if timedOut {
					amu.Lock()
					agg.Problems = append(agg.Problems, fmt.Sprintf("worker %d hit the overall wall-clock watchdog (inconclusive)", shard))
					amu.Unlock()
					return
				}
				// abnormal end: attribute to the journaled case
				idx, class := readJournal(jr)
				stderrTxt := deathReport(errf)
				if stderrTxt == "" {
					stderrTxt = tail(errf, 1<<18)
				}
				kind, site := classifyDeath(stderrTxt, werr)
				input, _ := os.ReadFile(jr + ".input")
				if idx < 0 {
					amu.Lock()
					agg.Problems = append(agg.Problems, fmt.Sprintf("worker %d died before its first case (%s): %s", shard, kind, lastLines(stderrTxt, 6)))
					amu.Unlock()
					return
				}
				amu.Lock()
				agg.Crashes++
				if kind == "watchdog" && !ck.TimeoutIsViolation {
					agg.Inconc["case-timeout"]++
					if os.Getenv("VERIF_FAILFAST") != "" {
						agg.Problems = append(agg.Problems, "case-timeout (fail-fast: run stopped at the first case timeout)")
						ffStop.Store(true)
						procMu.Lock()
						for _, p := range procs {
							p.Kill()
						}
						procMu.Unlock()
					}
				} else {
					w := map[string]interface{}{"death": kind, "stderr_tail": lastLines(stderrTxt, 60)}
					if len(input) > 0 {
						if len(input) > 1<<16 {
							w["input_truncated_b64"] = input[:1<<16]
						} else {
							w["input"] = string(input)
						}
					}
					agg.Viols = append(agg.Viols, violRec{T: "viol", Idx: idx, Class: class, FP: kind + "@" + site,
						Msg: fmt.Sprintf("worker process died (%s) while executing case %d", kind, idx), Witness: w})
				}
				amu.Unlock()
				if replayIdx >= 0 {
					return
				}
				start = idx + 1
			}
		}(s)
	}
	wg.Wait()

	if race {
		collectRace(work, agg)
	}
	return finish(ck, agg, t0, replayIdx >= 0)
}

func readOut(path string, agg *Aggregate, mu *sync.Mutex) bool {
	f, err := os.Open(path)
	if err != nil {
		return false
	}
	defer f.Close()
	finished := false
	sc := bufio.NewScanner(f)
	sc.Buffer(make([]byte, 1<<20), 1<<28)
	for sc.Scan() {
		line := sc.Bytes()
		var head struct {
			T string `json:"t"`
		}
		if json.Unmarshal(line, &head) != nil {
			continue
		}
		mu.Lock()
		switch head.T {
		case "delta":
			var d deltaRec
			if json.Unmarshal(line, &d) == nil {
				agg.Cases += int64(d.Cases)
				agg.Evals += d.Evals
				for k, v := range d.Classes {
					agg.Classes[k] += v
				}
				for _, s := range d.Sigs {
					agg.Sigs[s] = struct{}{}
				}
				for k, v := range d.Counters {
					agg.Counters[k] += v
				}
				for k, v := range d.Obs {
					agg.Obs[k] += v
				}
				for k, v := range d.Inconc {
					agg.Inconc[k] += v
				}
				agg.Samples = append(agg.Samples, d.Samples...)
			}
		case "viol":
			var v violRec
			if json.Unmarshal(line, &v) == nil {
				agg.Viols = append(agg.Viols, v)
			}
		case "done":
			var d struct {
				Total int `json:"total"`
			}
			json.Unmarshal(line, &d)
			agg.TotalCases = d.Total
			finished = true
		}
		mu.Unlock()
	}
	return finished
}

func readJournal(path string) (int, string) {
	b, err := os.ReadFile(path)
	if err != nil || len(b) == 0 {
		return -1, ""
	}
	lines := strings.Split(string(b), "\n")
	idx, err := strconv.Atoi(strings.TrimSpace(lines[0]))
	if err != nil {
		return -1, ""
	}
	class := ""
	if len(lines) > 1 {
		class = strings.TrimSpace(lines[1])
	}
	return idx, class
}

// deathReport extracts from a (possibly huge, log-flooded) stderr file the first fatal marker and the lines after it.
func deathReport(path string) string {
	f, err := os.Open(path)
	if err != nil {
		return ""
	}
	defer f.Close()
	sc := bufio.NewScanner(f)
	sc.Buffer(make([]byte, 1<<20), 1<<26)
	var out []string
	capturing := 0
	for sc.Scan() {
		l := sc.Text()
		if capturing == 0 && (strings.HasPrefix(l, "fatal error:") || strings.HasPrefix(l, "panic:") || strings.HasPrefix(l, "VERIF-WATCHDOG") ||
			strings.HasPrefix(l, "runtime: out of memory") || strings.HasPrefix(l, "runtime: goroutine stack exceeds") || strings.HasPrefix(l, "SIG")) {
			capturing = 400
		}
		if capturing > 0 {
			out = append(out, l)
			capturing--
			if capturing == 0 {
				break
			}
		}
	}
	return strings.Join(out, "\n")
}

func tail(path string, n int64) string {
	f, err := os.Open(path)
	if err != nil {
		return ""
	}
	defer f.Close()
	st, _ := f.Stat()
	// fatal errors print their reason first: keep head and tail
	head := make([]byte, 16384)
	hn, _ := f.Read(head)
	if st.Size() <= int64(hn) {
		return string(head[:hn])
	}
	off := st.Size() - n
	if off < int64(hn) {
		off = int64(hn)
	}
	buf := make([]byte, st.Size()-off)
	f.ReadAt(buf, off)
	return string(head[:hn]) + "\n…\n" + string(buf)
}

func lastLines(s string, n int) string {
	lines := strings.Split(strings.TrimRight(s, "\n"), "\n")
	if len(lines) > n {
		// keep the first 25 (reason + top frames) and the last few
		head := lines[:min(25, n)]
		return strings.Join(head, "\n")
	}
	return strings.Join(lines, "\n")
}

func classifyDeath(stderr string, werr error) (kind, site string) {
	switch {
	case strings.Contains(stderr, "VERIF-WATCHDOG"):
		return "watchdog", "case-timeout"
	case strings.Contains(stderr, "stack overflow") || strings.Contains(stderr, "goroutine stack exceeds"):
		return "fatal:stack-overflow", recursionSite(stderr)
	case strings.Contains(stderr, "out of memory") || strings.Contains(stderr, "cannot allocate memory") || strings.Contains(stderr, "too many address space collisions"):
		return "fatal:oom", fatalSite(stderr)
	case strings.Contains(stderr, "concurrent map"):
		return "fatal:concurrent-map", fatalSite(stderr)
	case strings.Contains(stderr, "checkptr"):
		return "fatal:checkptr", fatalSite(stderr)
	case strings.Contains(stderr, "fatal error:"):
		return "fatal:other", fatalSite(stderr)
	case strings.Contains(stderr, "panic:"):
		return "panic-unrecovered", fatalSite(stderr)
	}
	if werr != nil {
		return "exit:" + werr.Error(), "unknown"
	}
	return "exit:no-done-record", "unknown"
}

// recursionSite returns the most frequent non-runtime function in a stack
// dump, preferring third-party / module code: a stable name for a runaway recursion.
func recursionSite(stderr string) string {
	cnt := map[string]int{}
	for _, l := range strings.Split(stderr, "\n") {
		l = strings.TrimSpace(l)
		if l == "" || strings.HasPrefix(l, "/") || !strings.Contains(l, "(") || strings.HasPrefix(l, "runtime") || strings.HasPrefix(l, "goroutine") {
			continue
		}
		if i := strings.LastIndex(l, "("); i > 0 {
			l = l[:i]
		}
		cnt[l]++
	}
	best, bestN, bestMod := "unknown", 0, false
	for f, n := range cnt {
		first := f
		if i := strings.Index(first, "/"); i >= 0 {
			first = first[:i]
		}
		mod := strings.Contains(first, ".") && strings.Contains(f, "/")
		if n < 3 {
			continue
		}
		if (mod && !bestMod) || (mod == bestMod && (n > bestN || (n == bestN && f < best))) {
			best, bestN, bestMod = f, n, mod
		}
	}
	if j := strings.LastIndex(best, "/"); j >= 0 {
		best = best[j+1:]
	}
	return best
}

// fatalSite extracts the first non-runtime function of the first goroutine dump.
func fatalSite(stderr string) string {
	for _, l := range strings.Split(stderr, "\n") {
		l = strings.TrimSpace(l)
		if l == "" || strings.HasPrefix(l, "/") || strings.HasPrefix(l, "runtime.") || strings.HasPrefix(l, "runtime/") ||
			strings.HasPrefix(l, "goroutine ") || strings.HasPrefix(l, "fatal error") || strings.HasPrefix(l, "runtime:") ||
			strings.HasPrefix(l, "panic") || strings.HasPrefix(l, "[") || strings.HasPrefix(l, "...") {
			continue
		}
		if !strings.Contains(l, "(") || !strings.Contains(l, ".") {
			continue
		}
		if i := strings.LastIndex(l, "("); i > 0 {
			l = l[:i]
		}
		if strings.Contains(l, "/") || strings.Contains(l, ".") {
			if j := strings.LastIndex(l, "/"); j >= 0 {
				l = l[j+1:]
			}
			return l
		}
	}
	return "unknown"
}

func collectRace(work string, agg *Aggregate) {
	files, _ := filepath.Glob(filepath.Join(work, "race.*"))
	seen := map[string]bool{}
	for _, f := range files {
		b, err := os.ReadFile(f)
		if err != nil {
			continue
		}
		blocks := strings.Split(string(b), "WARNING: DATA RACE")
		for _, blk := range blocks[1:] {
			agg.RaceRaw++
			key := raceKey(blk)
			if !seen[key] {
				seen[key] = true
				agg.RaceReports = append(agg.RaceReports, key+"\n"+firstN(blk, 2500))
			}
		}
	}
}

// raceKey deduplicates a race report by the two access stacks with line numbers stripped.
func raceKey(blk string) string {
	var fns []string
	for _, l := range strings.Split(blk, "\n") {
		t := strings.TrimSpace(l)
		if t == "" || strings.HasPrefix(t, "/") || strings.HasPrefix(t, "Goroutine") || strings.HasPrefix(t, "====") {
			if strings.HasPrefix(t, "Goroutine") {
				break
			}
			continue
		}
		if strings.HasPrefix(t, "Read at") || strings.HasPrefix(t, "Write at") || strings.HasPrefix(t, "Previous") {
			fns = append(fns, strings.Fields(t)[0])
			continue
		}
		if i := strings.Index(t, "("); i > 0 {
			fns = append(fns, t[:i])
		}
	}
	if len(fns) > 8 {
		fns = fns[:8]
	}
	return strings.Join(fns, "|")
}

func firstN(s string, n int) string {
	if len(s) > n {
		return s[:n] + "…"
	}
	return s
}

func finish(ck *Check, agg *Aggregate, t0 time.Time, replay bool) int {
	vdir := VerifDir()
	known := loadKnown(filepath.Join(vdir, "KNOWN_FINDINGS.txt"))
	isKnown := func(fp string) *knownEntry {
		for i := range known {
			if known[i].Prop == agg.ID && known[i].FP == fp {
				return &known[i]
			}
		}
		return nil
	}
	sort.SliceStable(agg.Viols, func(i, j int) bool { return agg.Viols[i].Idx < agg.Viols[j].Idx })
	knownSeen := map[string]int{}
	var fresh []violRec
	for _, v := range agg.Viols {
		if isKnown(v.FP) != nil {
			knownSeen[v.FP]++
			continue
		}
		fresh = append(fresh, v)
	}
	if ck.Finish != nil && !replay {
		agg.Problems = append(agg.Problems, ck.Finish(agg)...)
	}
	if !replay {
		for _, k := range ck.Require {
			if agg.Counters[k] == 0 {
				agg.Problems = append(agg.Problems, "required counter never incremented: "+k)
			}
		}
		if agg.Evals == 0 {
			agg.Problems = append(agg.Problems, "run observed nothing")
		}
	}
	// race reports are violations
	for i, rr := range agg.RaceReports {
		key := strings.SplitN(rr, "\n", 2)[0]
		fp := "race:" + key
		if isKnown(fp) != nil {
			knownSeen[fp]++
			continue
		}
		fresh = append(fresh, violRec{T: "viol", Idx: -1 - i, Class: "data-race", FP: fp, Msg: "Go race detector report", Witness: rr})
	}

	// write replays
	repDir := filepath.Join(vdir, "replays", agg.ID)
	os.MkdirAll(repDir, 0o755)
	var lines []string
	fpCount := map[string]int{}
	for _, v := range fresh {
		fpCount[v.FP]++
		if fpCount[v.FP] > 3 || len(lines) >= 25 {
			continue
		}
		name := fmt.Sprintf("%s-s%d-%d.json", agg.Tier, agg.Seed, len(lines))
		p := filepath.Join(repDir, name)
		rec := map[string]interface{}{
			"property": agg.ID, "tier": agg.Tier, "seed": agg.Seed, "case_index": v.Idx, "class": v.Class,
			"fingerprint": v.FP, "message": v.Msg, "witness": v.Witness,
			"replay": fmt.Sprintf("./check replay %s", p),
		}
		b, _ := json.MarshalIndent(rec, "", " ")
		os.WriteFile(p, b, 0o644)
		lines = append(lines, fmt.Sprintf("VIOLATION property=%s replay=%s", agg.ID, p))
		fmt.Printf("  [%s] case %d class=%s fp=%s: %s\n", agg.ID, v.Idx, v.Class, v.FP, firstN(v.Msg, 400))
	}

	if len(fresh) > 0 {
		var fps []string
		for fp, n := range fpCount {
			fps = append(fps, fmt.Sprintf("%s x%d", fp, n))
		}
		sort.Strings(fps)
		fmt.Printf("  [%s] violation fingerprints: %s\n", agg.ID, strings.Join(fps, "; "))
	}
	if !replay {
		writeEvidence(ck, agg, t0, len(fresh), knownSeen)
	}

	var kfps []string
	for fp := range knownSeen {
		kfps = append(kfps, fp)
	}
	sort.Strings(kfps)
	for _, fp := range kfps {
		e := isKnown(fp)
		fmt.Printf("KNOWN-FINDING: property=%s fp=%s %s (observed %d×)\n", agg.ID, fp, e.Text, knownSeen[fp])
	}
	inc := int64(0)
	for _, v := range agg.Inconc {
		inc += v
	}
	fmt.Printf("%s %s seed=%d: cases=%d evaluations=%d distinct=%d violations=%d known=%d inconclusive=%d crashes=%d wall=%.1fs\n",
		agg.ID, agg.Tier, agg.Seed, agg.Cases, agg.Evals, len(agg.Sigs), len(fresh), len(knownSeen), inc, agg.Crashes, time.Since(t0).Seconds())
	if len(fresh) > 0 {
		for _, l := range lines {
			fmt.Println(l)
		}
		return 1
	}
	if len(agg.Problems) > 0 {
		for _, p := range agg.Problems {
			fmt.Printf("INCONCLUSIVE property=%s: %s\n", agg.ID, p)
		}
		return 2
	}
	return 0
}

func writeEvidence(ck *Check, agg *Aggregate, t0 time.Time, nviol int, knownSeen map[string]int) {
	vdir := VerifDir()
	os.MkdirAll(filepath.Join(vdir, "evidence"), 0o755)
	var samples []interface{}
	seenClass := map[string]int{}
	for _, s := range agg.Samples {
		if seenClass[s.Class] >= 1 || len(samples) >= 10 {
			continue
		}
		seenClass[s.Class]++
		samples = append(samples, map[string]interface{}{"class": s.Class, "case": s.V})
	}
	if len(samples) == 0 {
		samples = append(samples, "no sample recorded")
	}
	exh := false
	if ck.Exhaustive != nil {
		exh = ck.Exhaustive(agg.Tier)
	}
	cov := map[string]interface{}{
		"evaluations":         agg.Evals,
		"distinct_nontrivial": len(agg.Sigs),
		"rule":                ck.Rule,
		"samples":             samples,
		"cases":               agg.Cases,
		"cases_enumerated":    agg.TotalCases,
		"by_class":            agg.Classes,
		"counters":            agg.Counters,
		"observations":        agg.Obs,
		"inconclusive":        agg.Inconc,
		"worker_crashes":      agg.Crashes,
		"known_findings_seen": knownSeen,
		"exhaustive":          exh,
	}
	if agg.RaceRaw > 0 || (ck.Race != nil && ck.Race(agg.Tier)) {
		cov["race_reports_raw"] = agg.RaceRaw
		cov["race_reports_distinct"] = len(agg.RaceReports)
	}
	if len(agg.Problems) > 0 {
		cov["problems"] = agg.Problems
	}
	ev := map[string]interface{}{
		"property_id": agg.ID,
		"tier":        agg.Tier,
		"seed":        agg.Seed,
		"level":       "exploration",
		"coverage":    cov,
		"assumptions": ck.Assumptions,
		"wall_s":      float64(int(time.Since(t0).Seconds()*10)) / 10,
		"violations":  nviol,
	}
	b, _ := json.MarshalIndent(ev, "", " ")
	tmp := filepath.Join(vdir, "evidence", agg.ID+".json.tmp")
	os.WriteFile(tmp, b, 0o644)
	os.Rename(tmp, filepath.Join(vdir, "evidence", agg.ID+".json"))
}

// ReplayMain re-executes the case recorded in a replay file.
func ReplayMain(path string) int {
	b, err := os.ReadFile(path)
	if err != nil {
		fmt.Fprintln(os.Stderr, err)
		return 2
	}
	var rec struct {
		Property string `json:"property"`
		Tier     string `json:"tier"`
		Seed     int64  `json:"seed"`
		Idx      int    `json:"case_index"`
	}
	if err := json.Unmarshal(b, &rec); err != nil {
		fmt.Fprintln(os.Stderr, err)
		return 2
	}
	if rec.Idx < 0 {
		fmt.Println("race report: not replayable by case index; rerun the check")
		return 2
	}
	os.Setenv("VERIF_SEED", strconv.FormatInt(rec.Seed, 10))
	return RunMain(rec.Property, rec.Tier, rec.Idx)
}

// failfastHit reports whether an output file already holds a violation record that is not a listed known finding.
func failfastHit(path, id string, known []knownEntry) bool {
	f, err := os.Open(path)
	if err != nil {
		return false
	}
	defer f.Close()
	sc := bufio.NewScanner(f)
	sc.Buffer(make([]byte, 1<<20), 1<<28)
	for sc.Scan() {
		line := sc.Bytes()
		if !bytes.Contains(line, []byte(`"t":"viol"`)) {
			continue
		}
		var v violRec
		if json.Unmarshal(line, &v) != nil || v.T != "viol" {
			continue
		}
		listed := false
		for _, k := range known {
			if k.Prop == id && k.FP == v.FP {
				listed = true
			}
		}
		if !listed {
			return true
		}
	}
	return false
}
