package fw

import (
	"hash/fnv"
	"math"
)

// Rand is a small deterministic PRNG (splitmix64). Every case gets its own
// stream derived from (VERIF_SEED, property id, case index), so a case index
// identifies a case independently of sharding, skipping or restarts.
type Rand struct{ s uint64 }

func NewRand(seed uint64) *Rand { return &Rand{s: seed} }

func CaseRand(seed int64, id string, idx int) *Rand {
	h := fnv.New64a()
	h.Write([]byte(id))
	x := h.Sum64() ^ (uint64(seed) * 0x9E3779B97F4A7C15) ^ (uint64(idx)+1)*0xBF58476D1CE4E5B9
	r := &Rand{s: x}
	r.U64()
	r.U64()
	return r
}

func (r *Rand) U64() uint64 {
	r.s += 0x9E3779B97F4A7C15
	z := r.s
	z = (z ^ (z >> 30)) * 0xBF58476D1CE4E5B9
	z = (z ^ (z >> 27)) * 0x94D049BB133111EB
	return z ^ (z >> 31)
}

// Intn returns a value in [0,n). n must be > 0.
func (r *Rand) Intn(n int) int {
	if n <= 1 {
		return 0
	}
	return int(r.U64() % uint64(n))
}

// Range returns a value in [lo,hi].
func (r *Rand) Range(lo, hi int) int { return lo + r.Intn(hi-lo+1) }

func (r *Rand) Bool() bool { return r.U64()&1 == 1 }

// Chance returns true with probability num/den.
func (r *Rand) Chance(num, den int) bool { return r.Intn(den) < num }

func (r *Rand) Float() float64 { return float64(r.U64()>>11) / float64(1<<53) }

func (r *Rand) Bytes(n int) []byte {
	b := make([]byte, n)
	for i := 0; i < n; i += 8 {
		v := r.U64()
		for j := 0; j < 8 && i+j < n; j++ {
			b[i+j] = byte(v >> (8 * j))
		}
	}
	return b
}

// Read implements io.Reader (never fails).
func (r *Rand) Read(p []byte) (int, error) {
	copy(p, r.Bytes(len(p)))
	return len(p), nil
}

func (r *Rand) Perm(n int) []int {
	p := make([]int, n)
	for i := range p {
		p[i] = i
	}
	for i := n - 1; i > 0; i-- {
		j := r.Intn(i + 1)
		p[i], p[j] = p[j], p[i]
	}
	return p
}

func Pick[T any](r *Rand, xs []T) T { return xs[r.Intn(len(xs))] }

// F64Bits returns a finite double with uniformly random bit pattern.
func (r *Rand) F64Bits() float64 {
	for {
		f := math.Float64frombits(r.U64())
		if !math.IsNaN(f) && !math.IsInf(f, 0) {
			return f
		}
	}
}

func Hash64(s string) uint64 {
	h := fnv.New64a()
	h.Write([]byte(s))
	return h.Sum64()
}
