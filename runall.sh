#!/bin/bash
# ./runall.sh <quick|thorough> [ids...]  - runs the checks one after another and prints a summary
tier=${1:-quick}; shift
ids=${@:-$(jq -r '.checks[].property_id' MANIFEST.json)}
rc=0
for id in $ids; do
  s=$(date +%s)
  out=$(./check $id $tier 2>&1); e=$?
  echo "$id exit=$e $(( $(date +%s)-s ))s | $(echo "$out" | grep -E "^$id $tier" | tail -1)"
  if [ $e -ne 0 ]; then rc=1; echo "$out" | grep -E 'VIOLATION|INCONCLUSIVE|fingerprints' | head -5; fi
done
exit $rc
