#!/usr/bin/env python3
"""Regenerates MANIFEST.json from the table below (run after adding a check)."""
import json, subprocess

BUILT = {
 # id: (technique, level text, level note, design ref)
 "C05": ("reference-model monitor over generated inputs (exact RFC 8785 / ES6 oracle)",
         "Runs the real canonicalizer on 10^5 (quick) to 10^7 (thorough) generated numbers, strings and structured values in random spellings and compares every output byte with an independent RFC 8785 serializer whose number formatter uses exact rational arithmetic; also checks fixed point, value preservation and spelling independence. Exploration: holds on the executions listed in the evidence.",
         "Trusts encoding/json decoding, strconv.ParseFloat (correct rounding), math/big and the harness oracle (self-tested against RFC 8785 vectors on every run).", "DESIGN.md §2 C05"),
}
ALL = ["C%02d" % i for i in range(1, 21)]
checks = []
for pid in ALL:
    if pid not in BUILT:
        continue
    tech, text, note, ref = BUILT[pid]
    checks.append({
        "property_id": pid,
        "quick_cmd": "./check %s quick" % pid,
        "thorough_cmd": "./check %s thorough" % pid,
        "evidence_file": "/verif/evidence/%s.json" % pid,
        "replay_cmd_template": "./check replay {path}",
        "engine": "verif-harness",
        "level_claimed": {"category": "exploration", "text": text, "design_ref": ref},
        "level_note": note,
        "technique": tech,
    })
hooks_commits = [l.strip() for l in open('/verif/HOOK_COMMITS.txt')] if __import__('os').path.exists('/verif/HOOK_COMMITS.txt') else []
m = {
 "version": 1,
 "setup_cmd": "./setup.sh",
 "hooks": {
   "guard": "verif",
   "enable": "go build -tags verif (every harness build passes the tag; see MANIFEST.hooks.source_commits for the guarded files in /repo)",
   "baseline_off_cmd": "cd /repo && GOFLAGS=-mod=mod GOPROXY=off GOSUMDB=off GOTOOLCHAIN=local go test -json -vet=off -count=1 -timeout 25m ./...",
   "source_commits": hooks_commits,
   "add_only": True,
 },
 "engines": [{"name": "verif-harness", "path": "/verif/harness", "serves_properties": [c["property_id"] for c in checks],
              "kind_free_text": "Go runtime-monitoring harness: worker subprocesses with journal, reference-model oracles, invariant monitors, Go race detector, porcupine linearizability checker"}],
 "checks": checks,
 "notes": "All checks are runtime monitors (technique family: runtime monitoring and sanitizers). ./check <ID> <tier> rebuilds the harness against /repo's working tree. Known findings: /verif/KNOWN_FINDINGS.txt.",
 "not_applicable": [{"property_id": p, "reason": "monitor not built yet in this session (planned, see DESIGN.md §2)"} for p in ALL if p not in BUILT],
}
json.dump(m, open('/verif/MANIFEST.json', 'w'), indent=1)
print("wrote MANIFEST.json with", len(checks), "checks")
