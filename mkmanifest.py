#!/usr/bin/env python3
"""Regenerates MANIFEST.json from the table below (run after adding a check)."""
import json, subprocess

BUILT = {
 # id: (technique, level text, level note, design ref)
 "C01": ("reference-model monitor over generated operation histories (state-machine oracle folded over ground-truth labels)",
         "Runs the real parser + composer + applier over systematically invalidated histories (every template position x every labelled failure class) and random histories, and compares every field of every returned state with an independent Sidetree state machine and patch model. Exploration: holds on the histories listed in the evidence.",
         "Trusts the harness state machine / patch model (written from the property text), Go crypto for signing; labels are known by construction.", "DESIGN.md §2 C01"),
 "C02": ("labelled-tampering monitor: one tampering per operation, expected verdict from the label, full state comparison",
         "Every tampering class of the property (all signature bits, unsigned payload edits, key / reveal / delta substitution, header and algorithm changes, compact-form surgery) x 3 operation types x 4 key types is applied to a valid operation and executed against a valid previous state; refused / degraded / applied and the resulting state must match the model.",
         "Assumes signature unforgeability (a tampered signature is invalid); harness state machine.", "DESIGN.md §2 C02"),
 "C03": ("reference-codec monitor + metamorphic relations over generated create requests",
         "Suffix and id of every accepted create are recomputed with an independent JCS/multihash codec; 8 re-serializations must keep the DID, 11 kinds of single-field modification must change it or be refused; four algorithm configurations.",
         "Harness JCS / multihash codec (C05/C06 oracles).", "DESIGN.md §2 C03"),
 "C04": ("reference-formula monitor over keys and generated operation chains",
         "Reveal / commitment / commitment-from-reveal of keys of all five types compared with the reference formulas, single-member perturbations must change commitments, and every link of generated chains create -> (update|recover)* -> deactivate is checked through the parser's GetRevealValue / GetCommitment.",
         "Harness JCS / multihash codec; SHA-2 from the Go standard library.", "DESIGN.md §2 C04"),
 "C05": ("reference-model monitor over generated inputs (exact RFC 8785 / ES6 oracle)",
         "Runs the real canonicalizer on 10^5 (quick) to 10^7 (thorough) generated numbers, strings and structured values in random spellings and compares every output byte with an independent RFC 8785 serializer whose number formatter uses exact rational arithmetic; also checks fixed point, value preservation and spelling independence.",
         "Trusts encoding/json decoding, strconv.ParseFloat (correct rounding), math/big and the harness oracle (self-tested against RFC 8785 vectors on every run).", "DESIGN.md §2 C05"),
 "C06": ("reference-codec monitor + metamorphic relations (re-spelling => same hash, modification => refusal) + labelled malformed encodings",
         "Model hashes of generated values (Go values and raw bytes) are compared with an independent base64url/varint/multihash codec over reference JCS; validation must accept every re-spelling and refuse every single-point modification; every unsupported code and malformed encoding class must be rejected.",
         "crypto/sha256, crypto/sha512; harness codec.", "DESIGN.md §2 C06"),
 "C07": ("labelled-mutation monitor over requests x protocol configurations (accept iff no rule violated)",
         "Valid requests of the four types and one labelled mutation per protocol rule are parsed outside batch mode; every size limit is probed at exact size / exact size - 1 by configuration and by whitespace padding; every algorithm / patch list loses one entry at a time; the accepted operation's type, suffix, id, bytes and anchor origin are compared with the request.",
         "Labels known by construction; harness JCS for delta sizes.", "DESIGN.md §2 C07"),
 "C08": ("end-to-end monitor: recorded client / builder requests parsed, anchored and applied, compared with the requested document (patch-model oracle)",
         "Lifecycles built with the four request builders and with the Sidetree client (request function replaced by a recorder) must be accepted by the matching parser and yield the document, commitments and flags asked for; anchored form = reference canonical bytes and applies to the same state; the builder refusals named by the property are exercised.",
         "Harness patch model / state machine; did-go and kms-go value types to feed the client.", "DESIGN.md §2 C08"),
 "C09": ("exhaustive finite-grid monitor (from, until, t, type, delta) through the real applier + recording time validator",
         "The complete (from, until, anchoring time) grid around every boundary for three operation types and four deltas is executed through the applier and compared with the one-line window predicate inside the full state model; every other numeric protocol limit is varied around the grid's times and must not move a verdict; the parser must hand (from, until') to a recording validator.",
         "Harness state machine; window predicate from the statement.", "DESIGN.md §2 C09"),
 "C10": ("reference-model monitor (patch-composition model incl. RFC 6902 evaluator) over generated documents and validated patch lists",
         "Thousands of validated patch lists over all eight actions with colliding / overlapping / missing ids are applied by the real composer and compared with the left fold of the harness model; unique ids preserved. Mismatches that an emulation of three known json-patch v4.1.0 deviations reproduces exactly are reported as KNOWN-FINDING, anything else as VIOLATION.",
         "Harness patch model and RFC 6902 evaluator (self-tested on RFC 6902 appendix A).", "DESIGN.md §2 C10, §3"),
 "C11": ("invariant monitor at the observation point: protected members deep-equal before/after every validated ietf-json-patch",
         "The complete single-operation grid (6 kinds x ~47 path spellings x ~47 from spellings) and random 2-3 operation sequences are validated and, when accepted, applied by the real composer; publicKey / service must be unchanged.",
         "Deep JSON equality of the two members as the observable.", "DESIGN.md §2 C11"),
 "C12": ("snapshot monitor: deep copy + reflect.DeepEqual of every input before/after Apply / ApplyPatches, (result, error) exclusivity",
         "Every step of the C01 histories (all failure classes) and patch lists built to fail at the k-th patch on deeply nested documents are executed with structural snapshots of the previous model, the anchored operation, the document and the patch values.",
         "reflect.DeepEqual over a reflection-based deep copy.", "DESIGN.md §2 C12"),
 "C13": ("exhaustive labelled-matrix monitor (one mutation per documented constraint, full key-type x purpose matrix)",
         "About 1000 labelled patches (every constraint boundary, in both add-* and replace contexts) plus random valid patches are validated by the real validator; the label gives the verdict.",
         "Rule table transcribed from the statement.", "DESIGN.md §2 C13"),
 "C14": ("round-trip monitor (document -> patches -> document, constructors -> validate -> bytes -> parse) over generated documents",
         "Generated documents with arbitrary further members must survive PatchesFromDocument + ApplyPatches; every constructor output must validate and survive Bytes/FromBytes with agreeing accessors; labelled bad byte strings must be refused.",
         "JSON numbers compared as doubles.", "DESIGN.md §2 C14"),
 "C15": ("labelled-tampering monitor over signatures of all five key types (all bits of all three segments, other keys, malformed forms)",
         "JWS produced by the library's signers must verify under the matching JWK with unchanged payload and fail under other keys, after any single-bit change of the decoded header / payload / signature, with wrong-length signatures, unsupported keys and malformed compacts; signatures with leading zero bytes in r/s are searched for on every EC curve.",
         "Signature unforgeability; harness base64url codec.", "DESIGN.md §2 C15"),
 "C17": ("end-to-end monitor with harness-side decoding of the long-form DID + labelled rejection classes (every single-character substitution, re-encodings, namespace prefixes)",
         "Documents are created through the VDR, the resulting DID is decoded with the harness codec (strict base64url, reference JCS, reference suffix hash), read back and compared; repeated creations must give one DID; every single-character substitution, each re-encoding of the initial state, swapped suffixes, short forms and prefix-related namespaces must be rejected by the document handler.",
         "Harness codec; did-go document parsing to read the resolved document back.", "DESIGN.md §2 C17"),
 "C18": ("reference-model monitor (small reference transformer) over generated states, all 32 option combinations and adversarial operation lists",
         "The complete expected document and metadata are built by a reference transformer from the statement and compared with the real transformer's output; operation lists are checked as sorted by (time, number) and as a permutation of the de-duplicated input.",
         "Reference transformer, own base58 encoder.", "DESIGN.md §2 C18"),
 "C19": ("crash / fatal-error / hang oracle by process supervision: worker subprocess per batch with journal, ulimit -v, per-case watchdog; thorough tier under the -race build (checkptr)",
         "Millions of hostile inputs (structure-aware corruption of valid operations incl. re-signed deltas, RFC 6902 hostility, unexpected operation types, truncations at every offset, separator floods, deep nesting) are handed to 27 entry points; every call is journaled first so that a process-fatal crash is attributed to its input. Two json-patch fatal classes are listed known findings with exact fingerprints; any other panic, fatal error or timeout is a violation.",
         "Inputs <= 64 KiB; watchdog two orders of magnitude above the measured worst case; allocation bombs below the address-space limit are observations.", "DESIGN.md §2 C19, §3"),
 "C20": ("Go race detector over stress runs + sequential-vs-concurrent result comparison + offline linearizability check (porcupine) of recorded registry histories",
         "Shared instances of every component are driven by 2..32 goroutines under GOMAXPROCS 1..16 from a -race binary; race reports are collected from the GORACE log and deduplicated, every concurrent result is compared with the sequential one, and Add/ForNamespace and Register/CreateClientVersion histories recorded at the client boundary are checked per key against a sequential map model. Evidence shows overlapping call pairs and racing-lookup outcome splits actually observed.",
         "The race detector sees only executed accesses under the produced schedules; porcupine checker; per-goroutine recorder state.", "DESIGN.md §2 C20"),
 "C16": ("round-trip + labelled-invalid-input monitor over constructed curve points (chosen leading-zero coordinates)",
         "Public points with 0..3 leading zero bytes in x (constructed by modular square root) and searched leading-zero y on all four curves plus Ed25519 keys: JWK export has the right kty/crv and full width, reads back to the same key; off-curve, wrong-width and curve-swapped JWKs must be rejected.",
         "math/big and the curve parameters of crypto/elliptic / btcec.", "DESIGN.md §2 C16"),
}
ALL = ["C%02d" % i for i in range(1, 21)]
checks = []
for pid in ALL:
    if pid not in BUILT:
        continue
    tech, text, note, ref = BUILT[pid]
    checks.append({
        "property_id": pid,
        "quick_cmd": "./check %s quick" % pid,
        "thorough_cmd": "./check %s thorough" % pid,
        "evidence_file": "/verif/evidence/%s.json" % pid,
        "replay_cmd_template": "./check replay {path}",
        "engine": "verif-harness",
        "level_claimed": {"category": "exploration", "text": text, "design_ref": ref},
        "level_note": note,
        "technique": tech,
    })
hooks_commits = [l.strip() for l in open('/verif/HOOK_COMMITS.txt')] if __import__('os').path.exists('/verif/HOOK_COMMITS.txt') else []
m = {
 "version": 1,
 "setup_cmd": "./setup.sh",
 "hooks": {
   "guard": "verif",
   "enable": "go build -tags verif (every harness build passes the tag; see MANIFEST.hooks.source_commits for the guarded files in /repo)",
   "baseline_off_cmd": "cd /repo && GOFLAGS=-mod=mod GOPROXY=off GOSUMDB=off GOTOOLCHAIN=local go test -json -vet=off -count=1 -timeout 25m ./...",
   "source_commits": hooks_commits,
   "add_only": True,
 },
 "engines": [{"name": "verif-harness", "path": "/verif/harness", "serves_properties": [c["property_id"] for c in checks],
              "kind_free_text": "Go runtime-monitoring harness: worker subprocesses with journal, reference-model oracles, invariant monitors, Go race detector, porcupine linearizability checker"}],
 "checks": checks,
 "notes": "All checks are runtime monitors (technique family: runtime monitoring and sanitizers). ./check <ID> <tier> rebuilds the harness against /repo's working tree. Known findings: /verif/KNOWN_FINDINGS.txt.",
 "not_applicable": [{"property_id": p, "reason": "monitor not built yet in this session (planned, see DESIGN.md §2)"} for p in ALL if p not in BUILT],
}
json.dump(m, open('/verif/MANIFEST.json', 'w'), indent=1)
print("wrote MANIFEST.json with", len(checks), "checks")
