#!/bin/bash
# development aid: runs each native fuzz target for $1 (default 5m); crashers land in harness/fuzz/testdata/fuzz/
export GOFLAGS=-mod=mod GOPROXY=off GOSUMDB=off GOTOOLCHAIN=local
cd "$(dirname "$0")/harness" && [ -f go.sum ] || cp /repo/go.sum go.sum
T=${1:-5m}
for f in FuzzParse FuzzDID FuzzJWS FuzzCanonical FuzzPatch; do
  echo "=== $f"; go test ./fuzz -run '^$' -fuzz "^$f\$" -fuzztime $T 2>&1 | tail -15
done
