#!/usr/bin/env python3
"""Mutation sweep (development aid, see DESIGN.md §8): applies single-point source mutations to the files the properties are
anchored in, each in a scratch copy of /repo under /tmp/mut (never in /repo), rebuilds the harness against that copy and
runs the quick tier of the properties anchored in the mutated file. Mutants that no check reports are then run against the
repository's own tests; the ones that survive both are written to the result file for analysis.

usage: mutsweep.py [--lanes N] [--workers N] [--files rel/path.go ...] [--props C01 ...] [--kinds k1,k2] [--limit N]
                   [--out results.jsonl] [--allprops]
"""
import argparse, json, os, shutil, subprocess, sys, threading, queue, time, collections

ENV = dict(os.environ, GOFLAGS="-mod=mod", GOPROXY="off", GOSUMDB="off", GOTOOLCHAIN="local", GONOSUMDB="*", CGO_ENABLED="1")
ROOT = "/tmp/mut"
RACE = False  # --race: run only C20 (needs the -race build of the harness per mutant)
BASE = ROOT + "/base"  # snapshot of /repo taken when the sweep starts; /repo itself is never touched or re-read
# cheapest checks first (quick-tier CPU cost), so that a mutant is usually killed by an inexpensive run
COST = {"C13": 1, "C04": 2, "C07": 3, "C09": 4, "C02": 5, "C15": 6, "C16": 7, "C14": 8, "C01": 9, "C18": 10, "C06": 11, "C03": 12, "C08": 13, "C12": 14, "C05": 15, "C17": 16, "C11": 17, "C10": 18, "C19": 19, "C20": 20}
NONRACE = ["C01", "C02", "C03", "C04", "C05", "C06", "C07", "C08", "C09", "C10", "C11", "C12", "C13", "C14", "C15", "C16", "C17", "C18", "C19"]


def sh(cmd, cwd=None, env=None, timeout=None):
    try:
        p = subprocess.run(cmd, cwd=cwd, env=env or ENV, stdout=subprocess.PIPE, stderr=subprocess.STDOUT, timeout=timeout)
        return p.returncode, p.stdout.decode(errors="replace")
    except subprocess.TimeoutExpired as e:
        return 124, (e.stdout or b"").decode(errors="replace")


def anchors():
    m = collections.defaultdict(list)
    for l in open("/verif/properties.jsonl"):
        p = json.loads(l)
        for x in p["anchors"]["files"]:
            path = "/repo/" + x
            if os.path.isdir(path):
                for y in sorted(os.listdir(path)):
                    if y.endswith(".go") and not y.endswith("_test.go"):
                        m[os.path.join(x, y)].append(p["id"])
            elif os.path.exists(path):
                m[x].append(p["id"])
    return m


def setup_lane(i):
    lane = f"{ROOT}/lane{i}"
    shutil.rmtree(lane, ignore_errors=True)
    os.makedirs(lane + "/v/work")
    os.makedirs(lane + "/v/evidence")
    os.makedirs(lane + "/v/replays")
    sh(["rsync", "-a", BASE + "/", lane + "/repo/"])
    shutil.copy("/verif/KNOWN_FINDINGS.txt", lane + "/v/KNOWN_FINDINGS.txt")
    mod = open("/verif/harness/go.mod").read().replace("=> /repo", "=> " + lane + "/repo")
    open(lane + "/harness.mod", "w").write(mod)
    shutil.copy("/verif/harness/go.sum", lane + "/harness.sum")
    return lane


def run_mutant(lane, m, props, workers, allprops):
    rel = m["file"]
    path = f"{lane}/repo/{rel}"
    orig = open(BASE + "/" + rel, "rb").read()
    res = dict(m)
    try:
        mutated = orig[:m["start"]] + m["repl"].encode() + orig[m["end"]:]
        open(path, "wb").write(mutated)
        rc, out = sh(["go", "build", "./..."], cwd=lane + "/repo", timeout=600)
        if rc != 0:
            res["status"] = "uncompilable"
            return res
        rc, out = sh(["go", "build", f"-modfile={lane}/harness.mod", "-tags", "verif", "-o", lane + "/verif", "./cmd/verif"], cwd="/verif/harness", timeout=900)
        if rc != 0:
            res["status"] = "harness-build-failed"
            res["detail"] = out[-400:]
            return res
        env = dict(ENV, VERIF_DIR=lane + "/v", VERIF_BIN=lane + "/verif", VERIF_WORKERS=str(workers), VERIF_FAILFAST="1", VERIF_CASE_TIMEOUT="45")
        if RACE:
            rc, out = sh(["go", "build", "-race", f"-modfile={lane}/harness.mod", "-tags", "verif", "-o", lane + "/verif-race", "./cmd/verif"], cwd="/verif/harness", timeout=1200)
            if rc != 0:
                res["status"] = "harness-build-failed"
                res["detail"] = out[-400:]
                return res
            env["VERIF_BIN_RACE"] = lane + "/verif-race"
            env["VERIF_CASE_TIMEOUT"] = "200"
        order = sorted(props, key=lambda p: COST.get(p, 99))
        if allprops:
            order += [p for p in NONRACE if p not in order]
        ran = []
        for pid in order:
            if (pid == "C20") != RACE:
                continue
            t0 = time.time()
            rc, out = sh([lane + "/verif", "run", pid, "quick"], cwd=lane + "/v", env=env, timeout=900 if RACE else 420)
            ran.append([pid, rc, round(time.time() - t0, 1)])
            if rc == 124 or (rc == 2 and "case-timeout" in out):
                # the mutant makes the code hang or crawl: the check does not end in time / ends inconclusive with case timeouts - not silent
                subprocess.run("pkill -9 -f '%s/verif worker'" % lane, shell=True)
                res["status"] = "killed"
                res["killed_by"] = pid + ":hang"
                res["ran"] = ran
                return res
            if rc == 1 and "VIOLATION property=" in out:
                res["status"] = "killed"
                res["killed_by"] = pid
                fps = [l for l in out.splitlines() if "violation fingerprints" in l]
                res["fingerprints"] = fps[0][:300] if fps else ""
                res["ran"] = ran
                return res
            shutil.rmtree(lane + "/v/replays", ignore_errors=True)
            os.makedirs(lane + "/v/replays", exist_ok=True)
        res["ran"] = ran
        # survived the monitors: does the repository's own suite notice?
        pkgdir = "./" + os.path.dirname(rel) + "/..."
        rc, out = sh(["go", "test", "-vet=off", "-count=1", pkgdir], cwd=lane + "/repo", timeout=900)
        if rc != 0 and not only_known_failure(out):
            res["status"] = "survived-monitors-killed-by-tests"
            res["tests"] = "package"
            return res
        rc, out = sh(["go", "test", "-vet=off", "-count=1", "-timeout", "20m", "./..."], cwd=lane + "/repo", timeout=1500)
        if rc != 0 and not only_known_failure(out):
            res["status"] = "survived-monitors-killed-by-tests"
            res["tests"] = "suite"
            return res
        res["status"] = "SURVIVED"
        return res
    finally:
        open(path, "wb").write(orig)
        shutil.rmtree(lane + "/v/replays", ignore_errors=True)
        os.makedirs(lane + "/v/replays", exist_ok=True)


def only_known_failure(out):
    bad = [l for l in out.splitlines() if l.startswith("FAIL") or l.startswith("--- FAIL") or l.startswith("panic:")]
    bad = [l for l in bad if "pkg/util/json" not in l and l.strip() != "FAIL"]
    return not bad


def main():
    ap = argparse.ArgumentParser()
    ap.add_argument("--lanes", type=int, default=5)
    ap.add_argument("--workers", type=int, default=3)
    ap.add_argument("--files", nargs="*")
    ap.add_argument("--props", nargs="*")
    ap.add_argument("--kinds")
    ap.add_argument("--limit", type=int, default=0)
    ap.add_argument("--stride", type=int, default=1)
    ap.add_argument("--out", default="/verif/mutation/results.jsonl")
    ap.add_argument("--allprops", action="store_true")
    ap.add_argument("--race", action="store_true")
    ap.add_argument("--root", default="/tmp/mut")
    a = ap.parse_args()
    global RACE, ROOT, BASE
    RACE = a.race
    ROOT = a.root
    BASE = ROOT + "/base"
    os.makedirs(ROOT, exist_ok=True)
    # the base snapshot is taken from HEAD (not from the working tree, which evalmut / regress_seeded may be patching right now)
    shutil.rmtree(BASE, ignore_errors=True)
    os.makedirs(BASE)
    subprocess.run("git -C /repo archive HEAD | tar -x -C " + BASE, shell=True, check=True)
    os.makedirs(os.path.dirname(a.out), exist_ok=True)
    rc, out = sh(["go", "build", "-o", ROOT + "/mutgen", "./cmd/mutgen"], cwd="/verif/harness")
    if rc != 0:
        sys.exit(out)
    amap = anchors()
    files = a.files or sorted(amap)
    done = set()
    if os.path.exists(a.out):
        for l in open(a.out):
            try:
                r = json.loads(l)
                done.add((r["file"], r["start"], r["end"], r["repl"]))
            except Exception:
                pass
    muts = []
    for f in files:
        rc, out = sh([ROOT + "/mutgen", BASE + "/" + f, f])
        if rc != 0:
            print("mutgen failed for", f, out[:200])
            continue
        ms = [json.loads(l) for l in out.splitlines() if l.strip()]
        if a.kinds:
            ks = a.kinds.split(",")
            ms = [m for m in ms if any(m["kind"].startswith(k) for k in ks)]
        ms = ms[::a.stride]
        for m in ms:
            if (m["file"], m["start"], m["end"], m["repl"]) in done:
                continue
            m["props"] = a.props or amap.get(f, [])
            muts.append(m)
    if a.limit:
        muts = muts[:a.limit]
    print(f"{len(muts)} mutants over {len(files)} files, {a.lanes} lanes x {a.workers} workers", flush=True)
    q = queue.Queue()
    for m in muts:
        q.put(m)
    lock = threading.Lock()
    outf = open(a.out, "a")
    counts = collections.Counter()

    def lane_main(i):
        lane = setup_lane(i)
        while True:
            try:
                m = q.get_nowait()
            except queue.Empty:
                return
            t0 = time.time()
            try:
                r = run_mutant(lane, m, m["props"], a.workers, a.allprops)
            except Exception as e:  # keep the sweep going
                r = dict(m, status="driver-error", detail=str(e))
            r["secs"] = round(time.time() - t0, 1)
            with lock:
                counts[r["status"]] += 1
                outf.write(json.dumps(r) + "\n")
                outf.flush()
                print(f'[{sum(counts.values())}/{len(muts)}] {r["status"]:34s} {r.get("killed_by","-"):4s} {r["file"]}:{r["line"]} {r["kind"]} ({r["secs"]}s)', flush=True)

    ts = [threading.Thread(target=lane_main, args=(i,)) for i in range(a.lanes)]
    for t in ts:
        t.start()
    for t in ts:
        t.join()
    print(dict(counts))
    shutil.rmtree(ROOT, ignore_errors=True)


if __name__ == "__main__":
    main()
